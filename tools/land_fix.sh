#!/bin/bash
# tools/land_fix.sh <finding-id> [<finding-id> ...]
# Applies proposed_fixes/<id>.diff to /repo, runs the unedited suite, commits
# with proposed_fixes/<id>.msg and marks the finding as fixed.
for id in "$@"; do
  d=/verif/proposed_fixes/$id.diff; m=/verif/proposed_fixes/$id.msg
  [ -f "$d" ] && [ -f "$m" ] || { echo "$id: missing diff or msg"; continue; }
  cd /repo || exit 2
  if ! git apply "$d" 2>/dev/null && ! git apply --recount "$d" 2>/dev/null && ! patch -p1 -s < "$d"; then
    echo "$id: DOES NOT APPLY"; git checkout -- .; continue; fi
  out=$(/venv/bin/python -m pytest -q -p no:cacheprovider --timeout=900 -n 16 2>&1 | tail -1)
  if ! echo "$out" | grep -q "3873 passed"; then   # one retry: the suite has a random-input test
    out=$(/venv/bin/python -m pytest -q -p no:cacheprovider --timeout=900 -n 16 2>&1 | tail -1); fi
  if echo "$out" | grep -q "3873 passed" && ! echo "$out" | grep -q failed; then
    git add -A && git commit -q -F "$m" && h=$(git log --format=%h -1) && echo "$id: committed $h ($out)" && /verif/tools/mark_fixed.py "$id" "$h"
  else
    echo "$id: SUITE FAILS ($out)"; git checkout -- .
  fi
done
