#!/usr/bin/env python3
"""Regenerate MANIFEST.json from the check modules that exist."""
import ast, json, os, sys
here = os.path.dirname(os.path.dirname(os.path.abspath(__file__)))
sys.path.insert(0, here)
mods = {}
src = open(os.path.join(here, 'vlib', 'runner.py')).read()
tree = ast.parse(src)
for node in tree.body:
    if isinstance(node, ast.Assign) and node.targets[0].id == 'CHECK_MODULES':
        mods = ast.literal_eval(node.value)

def consts(path):
    out = {}
    for node in ast.parse(open(path).read()).body:
        if isinstance(node, ast.Assign) and len(node.targets) == 1 \
                and isinstance(node.targets[0], ast.Name):
            try:
                out[node.targets[0].id] = ast.literal_eval(node.value)
            except Exception:
                pass
    return out

props = [json.loads(l) for l in open(os.path.join(here, 'properties.jsonl'))]
checks, na = [], []
served = []
pending = json.load(open(os.path.join(here, 'tools', 'not_applicable.json')))
for p in props:
    pid = p['id']
    path = os.path.join(here, mods[pid].replace('.', '/') + '.py')
    if not os.path.exists(path) or pid in pending:
        na.append({'property_id': pid, 'reason': pending.get(
            pid, 'check not built yet in this phase; planned as generated-'
                 'input search per DESIGN.md section 5 (no evidence claimed)')})
        continue
    c = consts(path)
    served.append(pid)
    checks.append({
        'property_id': pid,
        'quick_cmd': './check {} --tier quick'.format(pid),
        'thorough_cmd': './check {} --tier thorough'.format(pid),
        'evidence_file': 'evidence/{}.json'.format(pid),
        'replay_cmd_template': './check {} --replay {{path}}'.format(pid),
        'engine': 'vlib',
        'level_claimed': {'category': 'exploration',
                          'text': c['LEVEL_TEXT'],
                          'design_ref': c.get('DESIGN_REF', 'DESIGN.md section 5')},
        'level_note': c['LEVEL_NOTE'],
        'technique': c['TECHNIQUE'],
    })
manifest = {
    'version': 1,
    'setup_cmd': './setup.sh',
    'hooks': {
        'guard': 'ODL_VERIF',
        'enable': 'no hooks: odl is pure Python and every check imports it '
                  'from /repo\'s working tree (VERIF_ODL_PATH, default /repo) '
                  'in a fresh process; the guard name is reserved but no '
                  'source commit uses it',
        'baseline_off_cmd': 'cd /repo && /venv/bin/python -m pytest -ra -q '
                            '-p no:cacheprovider --timeout=900 '
                            '--continue-on-collection-errors',
        'source_commits': [],
        'add_only': True,
    },
    'engines': [{
        'name': 'vlib', 'path': 'vlib/runner.py',
        'serves_properties': served,
        'kind_free_text': 'Hypothesis property-based testing (descriptor '
                          'strategies, 16 seeded worker processes, collect-'
                          'then-bucket by root-cause signature, Hypothesis '
                          'shrinking into a JSON replay file) plus exhaustive '
                          'enumeration of finite configuration sub-spaces',
    }],
    'checks': checks,
    'not_applicable': na,
    'notes': 'Exit codes: 0 held (KNOWN-FINDING lines possible), 1 new '
             'violation, 2 harness error/inconclusive. VERIF_SEED, VERIF_TIER, '
             'VERIF_JOBS, VERIF_ODL_PATH honoured. Known findings: '
             'known_findings.json; seeded changes: seeded/.',
}
json.dump(manifest, open(os.path.join(here, 'MANIFEST.json'), 'w'), indent=1)
print('checks:', served, 'not_applicable:', [n['property_id'] for n in na])
