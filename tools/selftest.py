#!/usr/bin/env python3
"""Mutant self-test (developer tool, not a registered check).

Takes the mutants of the anchored functions that SURVIVED the repository's
own test suite in the design-time mutation campaign
(design-appendix/mutation-campaign/*.json, positions relative to the original
commit), re-applies each to a private copy of the current /repo/odl, and runs
the property's quick check against it with --fast-fail.  exit 1 = killed.

  tools/selftest.py C05 [--limit N] [--parallel 4] [--jobs 4] [--ids A0001,H05-b]
Results: mutants/results-Cxx.json
"""
import argparse, json, os, shutil, subprocess, sys, tempfile
from concurrent.futures import ThreadPoolExecutor

HERE = os.path.dirname(os.path.dirname(os.path.abspath(__file__)))
CAMP = os.path.join(HERE, 'design-appendix', 'mutation-campaign')
BASE = 'adc2403'


def base_text(path):
    return subprocess.check_output(['git', '-C', '/repo', 'show',
                                    '{}:{}'.format(BASE, path)]).decode()


def apply_auto(m, head):
    base = base_text(m['file'])
    assert base[m['a']:m['b']] == m['orig'] or m['kind'] in ('SDL',), m['id']
    # line (in base) containing the mutation
    ls = base.rfind('\n', 0, m['a']) + 1
    le = base.find('\n', m['b'])
    if le < 0:
        le = len(base)
    old_lines = base[ls:le]
    new_lines = base[ls:m['a']] + m['new'] + base[m['b']:le]
    cnt = head.count(old_lines)
    if cnt == 0:
        return None
    if cnt == 1:
        return head.replace(old_lines, new_lines)
    # several identical lines: take the occurrence with the same ordinal
    k = base[:ls].count(old_lines)
    idx = -1
    for _ in range(k + 1):
        idx = head.find(old_lines, idx + 1)
        if idx < 0:
            return None
    return head[:idx] + new_lines + head[idx + len(old_lines):]


def apply_hand(m, head):
    if head.count(m['old']) < 1:
        return None
    return head.replace(m['old'], m['new'], m.get('count', 1))


def run_one(m, prop, jobs, tier):
    path = os.path.join('/repo', m['file'])
    head = open(path).read()
    mutated = apply_auto(m, head) if 'a' in m else apply_hand(m, head)
    if mutated is None or mutated == head:
        return dict(id=m['id'], verdict='NOT-APPLICABLE')
    tmp = tempfile.mkdtemp(prefix='selftest_')
    try:
        shutil.copytree('/repo/odl', os.path.join(tmp, 'odl'),
                        ignore=shutil.ignore_patterns('__pycache__'))
        with open(os.path.join(tmp, m['file']), 'w') as f:
            f.write(mutated)
        env = dict(os.environ, VERIF_ODL_PATH=tmp)
        r = subprocess.run([os.path.join(HERE, 'check'), prop, '--tier', tier,
                            '--fast-fail', '--no-evidence', '--jobs',
                            str(jobs)], env=env, capture_output=True,
                           text=True, timeout=3600)
        sig = [l for l in r.stdout.splitlines()
               if l.startswith('violation bucket') or
               l.startswith('regression replay fails')]
        verdict = {0: 'SURVIVED', 1: 'KILLED'}.get(r.returncode, 'HARNESS')
        return dict(id=m['id'], verdict=verdict,
                    by=(sig[0][:160] if sig else
                        r.stdout.strip().splitlines()[-1][:200]
                        if r.stdout.strip() else r.stderr[-200:]))
    finally:
        shutil.rmtree(tmp, ignore_errors=True)


def main():
    ap = argparse.ArgumentParser()
    ap.add_argument('prop')
    ap.add_argument('--limit', type=int, default=0)
    ap.add_argument('--parallel', type=int, default=4)
    ap.add_argument('--jobs', type=int, default=4)
    ap.add_argument('--tier', default='quick')
    ap.add_argument('--ids', default='')
    ap.add_argument('--against', default='',
                    help='comma list of checks to run instead of the '
                         'labelled property (killed if any kills)')
    ap.add_argument('--out', default='')
    ap.add_argument('--all', action='store_true',
                    help='also mutants the repo suite kills')
    a = ap.parse_args()
    muts = json.load(open(os.path.join(CAMP, 'auto-mutants.json'))) + \
        json.load(open(os.path.join(CAMP, 'hand-mutants.json')))
    muts = [m for m in muts if (m['prop'] == a.prop or a.prop == 'ANY') and
            (a.all or m.get('suite') == 'SURVIVED')]
    if a.ids:
        ids = set(a.ids.split(','))
        muts = [m for m in muts if m['id'] in ids]
    if a.limit:
        muts = muts[:a.limit]
    print('{} mutants for {}'.format(len(muts), a.prop))
    with ThreadPoolExecutor(a.parallel) as ex:
        def run_multi(m):
            checks = a.against.split(',') if a.against else [m['prop']]
            last = None
            for c in checks:
                last = run_one(m, c, a.jobs, a.tier)
                last['check'] = c
                if last['verdict'] == 'KILLED':
                    break
            return last
        res = list(ex.map(run_multi, muts))
    out = []
    for m, r in zip(muts, res):
        rec = dict(id=m['id'], file=m['file'], func=m.get('func'),
                   kind=m.get('kind', 'hand'), line=m.get('line'),
                   orig=m.get('orig', m.get('old')), new=m['new'],
                   descr=m.get('descr'), suite=m.get('suite'), **{
                       k: v for k, v in r.items() if k != 'id'})
        out.append(rec)
        print('{:8s} {:9s} {}:{} {!r} -> {!r} {}'.format(
            m['id'], r['verdict'], os.path.basename(m['file']),
            m.get('line'), (m.get('orig') or m.get('descr') or '')[:40],
            m['new'][:40] if 'a' in m else '', r.get('by', '')[:100]))
    os.makedirs(os.path.join(HERE, 'mutants'), exist_ok=True)
    json.dump(out, open(os.path.join(
        HERE, 'mutants', a.out or 'results-{}.json'.format(a.prop)), 'w'),
        indent=1)
    cnt = {}
    for r in res:
        cnt[r['verdict']] = cnt.get(r['verdict'], 0) + 1
    print(cnt)


if __name__ == '__main__':
    main()
