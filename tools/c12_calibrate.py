"""Calibration measurement for the bounded-liveness clause of C12
(developer tool, not a registered check).

Draws progress cases from the strategy of checks/c12_solver_conv.py, runs
each solver until ||x_k - x*|| <= RHO ||x_0 - x*|| (or CAP iterations) and
prints, per (solver, family, rate class), the distribution of the iteration
counts; the maxima at RHO=1e-4 are the MEASURED table of the check.

  RHO=1e-4 CAP=16000 python tools/c12_calibrate.py <ncases> <seed> [solver]
  VERIF_ODL_PATH=<repaired copy> ... fb      # forward_backward_pd, eqcon row
"""
import sys, os, json, collections, time
sys.path.insert(0,'/verif'); sys.path.insert(0,'/verif/.deps')
import numpy as np
import hypothesis
from hypothesis import given, settings, HealthCheck, Phase, strategies as st
from vlib import core
core.import_odl()
import checks.c12_solver_conv as C
from vlib import problems as pb
from vlib.problems import unflat, toflat, wnorm

RHO = float(os.environ.get('RHO', '1e-6'))
CAP = int(os.environ.get('CAP', '20000'))

def gen(n, seed, solver=None):
    out = []
    @hypothesis.seed(seed)
    @settings(max_examples=n, database=None, deadline=None, phases=[Phase.generate],
              suppress_health_check=list(HealthCheck))
    @given(st.sampled_from(C.NS_SOLVERS if solver is None else [solver]).flatmap(
        lambda s: C._ns_case_st(s, 'progress').map(lambda c: {'clause':'progress','solver':s,'c':c})))
    def t(d): out.append(d)
    t()
    return out

def kappa(P, family):
    if family == 'eqcon':
        return P.cond_eq**2
    tot = P.normA**2
    for T in P.terms:
        lip = pb.ref_subdiff(T.fd, T.data, T.lin.op.range, T.lin.dY, T.lin.M @ P.xstar).lip
        tot += T.lin.norm**2 * max(1.0, min(lip, 1e6))
    return tot / P.sminA**2

def kclass(P, family):
    k = kappa(P, family)
    return 'k1' if k <= 10 else 'k2' if k <= 100 else 'k3' if k <= 1000 else 'k4'

def one(desc):
    try:
        with np.errstate(all='ignore'):
            solver, case = desc['solver'], desc['c']
            P = pb.build_nonsmooth(case['p'])
            U = C._setup(solver, P, case)
            for lin in U.lins:
                if lin.defect() > 1e-10: return None
            cc = C._cond_class(P, case['family'])
            err0 = wnorm(P.x0 - P.xstar, P.dX)
            if err0 == 0 or cc == 'hi': return None
            t0=time.time()
            res = C._iterate(U, P, unflat(P.x0, P.X), CAP, RHO*err0, solver)
            return (C._calib_solver(desc), case['family'], cc, res['k'], res['err']/err0, res['diverged'], time.time()-t0, desc)
    except Exception as e:
        import traceback
        return ('ERR', traceback.format_exc()[-800:], desc)

if __name__ == '__main__':
    import multiprocessing as mp
    n = int(sys.argv[1]); seed = int(sys.argv[2]); solver = sys.argv[3] if len(sys.argv)>3 else None
    descs = gen(n, seed, solver)
    with mp.get_context('fork').Pool(4) as pool:
        results = pool.map(one, descs, chunksize=8)
    table = collections.defaultdict(list)
    worst = {}
    for r in results:
        if r is None: continue
        if r[0]=='ERR':
            print('ERR', r[1]); print(json.dumps(core._canon(r[2]))[:1500]); continue
        key = r[:3]
        table[key].append((r[3], r[4], r[5], r[6]))
        if key not in worst or (r[3], r[4]) > worst[key][0]:
            worst[key] = ((r[3], r[4]), r[7])
    for key in sorted(table):
        v = table[key]
        its = np.array([a for a,_,_,_ in v]); rel = np.array([b for _,b,_,_ in v])
        notreached = int(np.sum(rel > RHO))
        print('{:10s} {:9s} {:4s} n={:4d} it: med {:6.0f} p90 {:6.0f} p99 {:6.0f} max {:6d}  not-reached {:3d} worst-rel {:.2e} div {} time max {:.2f}'.format(
            key[0], key[1], key[2], len(v), np.median(its), np.percentile(its,90), np.percentile(its,99), its.max(), notreached, rel.max(), sum(1 for _,_,d,_ in v if d), max(t for _,_,_,t in v)))
    json.dump({ '|'.join(k): core._canon(w[1]) for k,w in worst.items()}, open('/tmp/c12_worst_%d.json'%seed,'w'))
    slow = sorted([r for r in results if r is not None and r[0]!='ERR' and not (r[0]=='fb' and r[1]=='eqcon')], key=lambda r: -r[3])[:25]
    json.dump([[r[0],r[1],r[2],r[3],r[4],core._canon(r[7])] for r in slow], open('/tmp/c12_slow_%d.json'%seed,'w'))
    for r in slow: print('SLOW', r[0], r[1], r[2], r[3], '%.2e'%r[4])
