#!/bin/bash
# tools/try_seed.sh <patch.diff> <tier> <Cxx> [Cyy ...]
# Applies a seeded change to a scratch worktree of /repo's HEAD (never to
# /repo itself), runs the named checks against it with VERIF_ODL_PATH, prints
# exit codes, and removes the worktree again.
patch="$(readlink -f "$1")"; tier="$2"; shift 2
here="$(cd "$(dirname "${BASH_SOURCE[0]}")/.." && pwd)"
wt="$(mktemp -d /tmp/mutXXXXXX)"; rmdir "$wt"
git -C /repo worktree add --detach "$wt" HEAD >/dev/null 2>&1 || exit 2
if ! git -C "$wt" apply "$patch"; then echo "PATCH DOES NOT APPLY"; git -C /repo worktree remove --force "$wt"; exit 2; fi
rc_all=0
for c in "$@"; do
  out=$(cd "$here" && VERIF_ODL_PATH="$wt" VERIF_NO_SHRINK=${VERIF_NO_SHRINK:-1} ./check "$c" --tier "$tier" --no-evidence ${SEED_JOBS:+--jobs $SEED_JOBS} 2>&1)
  rc=$?
  echo "== $c exit=$rc :: $(echo "$out" | grep -m1 '^C[0-9][0-9] tier')"
  echo "$out" | grep -E "^(violation bucket|VIOLATION|HARNESS-ERROR|regression replay fails)" | cut -c1-220 | head -8
  [ $rc -ne 0 ] && rc_all=$rc
done
git -C /repo worktree remove --force "$wt"
exit $rc_all
