#!/usr/bin/env python3
"""Write seeded/MATRIX.md from seeded/*/meta.json."""
import glob, json, os
HERE = os.path.dirname(os.path.dirname(os.path.abspath(__file__)))
rows = []
for d in sorted(glob.glob(os.path.join(HERE, 'seeded', 'C*'))):
    m = json.load(open(os.path.join(d, 'meta.json')))
    cb = m.get('caught_by') or {}
    caught = sorted({k.split()[0] for k, v in cb.items() if v['verdict'] == 'caught'})
    missed = sorted({k.split()[0] for k, v in cb.items() if v['verdict'] != 'caught'} - set(caught))
    first = next((v['by'] for k, v in sorted(cb.items()) if v['verdict'] == 'caught'), '')
    sig = first.replace('violation bucket: ', '').replace('regression replay fails: ', 'replay: ').split(' (')[0][:90]
    rows.append((m['id'], m['breaks_property'], m['description'], m['needs_to_manifest'],
                 ', '.join(caught) or '-', ', '.join(missed), sig, m.get('history', '')))
with open(os.path.join(HERE, 'seeded', 'MATRIX.md'), 'w') as f:
    f.write('| id | change (by an independent sub-agent knowing only the property text) | needs to manifest | caught by (quick tier) | first signature | note |\n|---|---|---|---|---|---|\n')
    for r in rows:
        f.write('| {} | {} | {} | {} | `{}` | {} |\n'.format(
            r[0], r[2].replace('|', '\\|'), r[3].replace('|', '\\|'), r[4],
            r[6].replace('|', '\\|'), r[7]))
n = len(rows); c = sum(1 for r in rows if r[4] != '-')
print(n, 'seeded changes,', c, 'caught by at least one check')
for r in rows:
    if r[4] == '-':
        print('  not caught:', r[0])
