#!/bin/bash
# tools/confirm_seed.sh Cxx k "<what it needs to manifest>" "<one-line description>"
# Confirms a seeded change produced by an independent sub-agent in /tmp/seed/Cxx:
#   - patch applies to a scratch worktree of /repo HEAD
#   - repo suite still passes with it (3873 passed)
#   - demo exits 1 with the change and 0 without
# and stores it as /verif/seeded/Cxx-k/{patch.diff,demo.py,meta.json}.
prop="$1"; k="$2"; needs="$3"; descr="$4"
src=${SEED_DIR:-/tmp/seed}/$prop; outk=$((k + ${SEED_OFFSET:-0}))
[ -f "$src/change_$k.diff" ] || { echo "no change_$k.diff"; exit 2; }
wt="$(mktemp -d /tmp/confXXXXXX)"; rmdir "$wt"
git -C /repo worktree add --detach "$wt" HEAD >/dev/null 2>&1 || exit 2
cp "$src/demo_$k.py" "$wt/demo.py"
cd "$wt"
/venv/bin/python demo.py >/tmp/conf_clean_$prop$k.txt 2>&1; rc_clean=$?
if ! git apply "$src/change_$k.diff"; then echo "PATCH DOES NOT APPLY"; cd /; git -C /repo worktree remove --force "$wt"; exit 2; fi
/venv/bin/python demo.py >/tmp/conf_mut_$prop$k.txt 2>&1; rc_mut=$?
suite=$(/venv/bin/python -m pytest -q -p no:cacheprovider --timeout=900 -n ${SUITE_JOBS:-8} 2>&1 | tail -1)
cd /; git -C /repo worktree remove --force "$wt"
echo "demo clean rc=$rc_clean, demo with change rc=$rc_mut, suite: $suite"
ok=1
[ $rc_clean -eq 0 ] || ok=0; [ $rc_mut -ne 0 ] || ok=0
echo "$suite" | grep -q "3873 passed" || ok=0
echo "$suite" | grep -q "failed" && ok=0
if [ $ok -eq 1 ]; then
  d=/verif/seeded/$prop-$outk; mkdir -p $d
  cp "$src/change_$k.diff" $d/patch.diff; cp "$src/demo_$k.py" $d/demo.py
  /venv/bin/python - "$prop" "$outk" "$needs" "$descr" "$suite" "$(tail -3 /tmp/conf_mut_$prop$k.txt)" <<'PY'
import json, sys
prop, k, needs, descr, suite, mutout = sys.argv[1:7]
json.dump({
  'id': '{}-{}'.format(prop, k), 'breaks_property': prop, 'description': descr,
  'needs_to_manifest': needs,
  'origin': 'independent sub-agent given only the property text and a scratch worktree',
  'confirmed': {
    'base': 'scratch git worktree of /repo HEAD (removed afterwards)',
    'suite_with_change': suite.strip(),
    'demo_without_change': 'exit 0', 'demo_with_change': 'exit 1: ' + mutout.strip()[-300:],
  },
  'caught_by': None,
}, open('/verif/seeded/{}-{}/meta.json'.format(prop, k), 'w'), indent=1)
PY
  echo "CONFIRMED -> $d"
else
  echo "NOT CONFIRMED"; exit 1
fi
