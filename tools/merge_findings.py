#!/usr/bin/env python3
"""Merge known_findings.d/*.json into known_findings.json (single committed
file, as the interface requires) and emit a markdown summary
(findings.md) for DESIGN.md section 10.3.  Fragments are kept (the runner
reads both; ids are de-duplicated here by id, fragment wins)."""
import glob, json, os
HERE = os.path.dirname(os.path.dirname(os.path.abspath(__file__)))
main_path = os.path.join(HERE, 'known_findings.json')
main = json.load(open(main_path))
by_id = {e['id']: e for e in main['findings']}
order = [e['id'] for e in main['findings']]
for path in sorted(glob.glob(os.path.join(HERE, 'known_findings.d', '*.json'))):
    for e in json.load(open(path))['findings']:
        if e['id'] not in by_id:
            order.append(e['id'])
        by_id[e['id']] = e
main['findings'] = [by_id[i] for i in order]
json.dump(main, open(main_path, 'w'), indent=1)
# fragments are now redundant: empty them so entries are not listed twice
for path in glob.glob(os.path.join(HERE, 'known_findings.d', '*.json')):
    os.remove(path)
fixed = [e for e in main['findings'] if e['status'] == 'fixed']
known = [e for e in main['findings'] if e['status'] == 'known']
with open(os.path.join(HERE, 'findings.md'), 'w') as f:
    f.write('| id | property | fix commit | what failed |\n|---|---|---|---|\n')
    for e in sorted(fixed, key=lambda e: (e['property'], e['id'])):
        f.write('| {} | {} | `{}` | {} |\n'.format(
            e['id'], e['property'], e.get('commit', '?'),
            e['what'].replace('|', '\\|')[:300]))
    f.write('\n| id | property | signature patterns | what fails (recorded, not repaired) |\n|---|---|---|---|\n')
    for e in sorted(known, key=lambda e: (e['property'], e['id'])):
        f.write('| {} | {} | {} | {} |\n'.format(
            e['id'], e['property'],
            '<br>'.join('`{}`'.format(s.replace('|', '\\|')) for s in e.get('signatures', [])[:4]),
            e['what'].replace('|', '\\|')[:300]))
print(len(fixed), 'fixed,', len(known), 'known')
