#!/bin/bash
# run the repository's suite unedited on the working tree; commit if 3873 pass
msg="$1"
cd /repo || exit 2
out=$(/venv/bin/python -m pytest -q -p no:cacheprovider --timeout=900 -n 16 2>&1 | tail -1)
echo "$out"
if echo "$out" | grep -q "3873 passed" && ! echo "$out" | grep -q failed; then
  git add -A && git commit -q -m "$msg" && git log --oneline | head -1
else
  echo "NOT COMMITTED"; exit 1
fi
