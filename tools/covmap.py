#!/usr/bin/env python3
"""Generator reach map (developer tool, not a registered check).

  tools/covmap.py C05 [--tier quick] [--budget N] [--files odl/operator/...]

Runs the property's check with VERIF_COV set (the runner then records, in every
worker, which lines of the odl tree the generated cases execute), combines the
data and reports, for every file the property is anchored in (properties.jsonl
`anchors.files`, or --files), the functions / methods whose body was never
entered and the partially reached ones.  The report answers "does the generator
produce the shapes that matter" with a measurement instead of a guess; it is
written to covmap/Cxx.json and printed.
"""
import argparse, ast, glob, json, os, subprocess, sys, tempfile, shutil
HERE = os.path.dirname(os.path.dirname(os.path.abspath(__file__)))


def functions(path):
    src = open(path).read()
    tree = ast.parse(src)
    out = []

    def walk(node, prefix):
        for ch in ast.iter_child_nodes(node):
            if isinstance(ch, (ast.FunctionDef, ast.AsyncFunctionDef)):
                name = prefix + ch.name
                body = ch.body
                # skip the docstring
                if body and isinstance(body[0], ast.Expr) and \
                        isinstance(getattr(body[0], 'value', None),
                                   ast.Constant) and \
                        isinstance(body[0].value.value, str):
                    body = body[1:]
                if body:
                    lines = set()
                    for b in body:
                        for n in ast.walk(b):
                            if hasattr(n, 'lineno') and not isinstance(
                                    n, (ast.FunctionDef, ast.ClassDef)):
                                lines.add(n.lineno)
                    out.append((name, ch.lineno, body[0].lineno,
                                max(getattr(b, 'end_lineno', b.lineno)
                                    for b in body)))
                walk(ch, name + '.')
            elif isinstance(ch, ast.ClassDef):
                walk(ch, prefix + ch.name + '.')
            else:
                walk(ch, prefix)
    walk(tree, '')
    return out


def main():
    ap = argparse.ArgumentParser()
    ap.add_argument('prop')
    ap.add_argument('--tier', default='quick')
    ap.add_argument('--budget', type=int, default=None)
    ap.add_argument('--files', default='')
    ap.add_argument('--jobs', type=int, default=16)
    a = ap.parse_args()
    prop = a.prop.upper()
    odl = os.path.abspath(os.environ.get('VERIF_ODL_PATH', '/repo'))
    files = [f for f in a.files.split(',') if f]
    if not files:
        for l in open(os.path.join(HERE, 'properties.jsonl')):
            p = json.loads(l)
            if p['id'] == prop:
                files = [f for f in p['anchors'].get('files', [])]
    tmp = tempfile.mkdtemp(prefix='covmap_')
    try:
        env = dict(os.environ, VERIF_COV=os.path.join(tmp, 'cov'),
                   COVERAGE_CORE='sysmon')
        cmd = [os.path.join(HERE, 'check'), prop, '--tier', a.tier,
               '--no-evidence', '--jobs', str(a.jobs)]
        if a.budget:
            cmd += ['--budget', str(a.budget)]
        r = subprocess.run(cmd, env=env, capture_output=True, text=True)
        print('check exit', r.returncode, r.stdout.strip().splitlines()[-1:])
        import coverage
        cov = coverage.Coverage(data_file=os.path.join(tmp, 'cov'))
        cov.combine(glob.glob(os.path.join(tmp, 'cov.*')))
        data = cov.get_data()
        report = {}
        for rel in files:
            path = os.path.join(odl, rel)
            if not os.path.isfile(path):
                continue
            hit = set(data.lines(path) or [])
            never, partial = [], []
            nfun = 0
            for name, defline, first, last in functions(path):
                nfun += 1
                try:
                    an = cov.analysis2(path)
                    stm = set(an[1])
                except Exception:
                    stm = set(range(first, last + 1))
                body = {l for l in stm if first <= l <= last}
                if not body:
                    continue
                got = body & hit
                if not got:
                    never.append('{}:{}'.format(name, defline))
                elif len(got) < len(body):
                    miss = sorted(body - got)
                    partial.append('{}:{} missing {} of {} lines: {}'.format(
                        name, defline, len(miss), len(body),
                        ','.join(map(str, miss[:12]))))
            report[rel] = {'functions': nfun, 'never_entered': never,
                           'partially_reached': partial}
        os.makedirs(os.path.join(HERE, 'covmap'), exist_ok=True)
        with open(os.path.join(HERE, 'covmap', prop + '.json'), 'w') as f:
            json.dump({'property': prop, 'tier': a.tier, 'files': report},
                      f, indent=1)
        for rel, r_ in report.items():
            print('==', rel, 'functions', r_['functions'], 'never entered',
                  len(r_['never_entered']), 'partial',
                  len(r_['partially_reached']))
            for n in r_['never_entered']:
                print('   NEVER  ', n)
            for n in r_['partially_reached']:
                print('   partial', n)
    finally:
        shutil.rmtree(tmp, ignore_errors=True)


if __name__ == '__main__':
    main()
