#!/usr/bin/env python3
"""tools/mark_fixed.py <id> <commit>: flip a known finding to status fixed
(in known_findings.json or a fragment), drop "expect" from its replay."""
import json, glob, os, sys
HERE = os.path.dirname(os.path.dirname(os.path.abspath(__file__)))
fid, commit = sys.argv[1], sys.argv[2]
for path in [os.path.join(HERE, 'known_findings.json')] + sorted(
        glob.glob(os.path.join(HERE, 'known_findings.d', '*.json'))):
    data = json.load(open(path))
    hit = False
    for e in data['findings']:
        if e['id'] == fid:
            e['status'] = 'fixed'
            e['commit'] = commit
            e['line'] = 'fixed: property={} {} {}'.format(
                e['property'], commit, e['what'])
            e['fixed_signatures'] = e.pop('signatures', [])
            hit = True
            reps = e.get('replay')
            reps = reps if isinstance(reps, list) else [reps] if reps else []
            for r in reps + e.get('replays', []):
                rp = os.path.join(HERE, r)
                if os.path.exists(rp):
                    d = json.load(open(rp))
                    d.pop('expect', None)
                    json.dump(d, open(rp, 'w'), indent=1, sort_keys=True)
    if hit:
        json.dump(data, open(path, 'w'), indent=1)
        print('marked', fid, 'in', os.path.basename(path))
