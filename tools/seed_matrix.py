#!/usr/bin/env python3
"""Run every confirmed seeded change against the check of the property it
breaks (and optionally other checks) and record who catches it.

  tools/seed_matrix.py [--tier quick] [--only C13-1,C14-2] [--also C05,C03] [--jobs 8]
Updates seeded/<id>/meta.json ('caught_by') and prints a table.
"""
import argparse, glob, json, os, subprocess, sys, tempfile, shutil
HERE = os.path.dirname(os.path.dirname(os.path.abspath(__file__)))


def run(patch, prop, tier, jobs, seed):
    wt = tempfile.mkdtemp(prefix='mut_')
    os.rmdir(wt)
    subprocess.run(['git', '-C', '/repo', 'worktree', 'add', '--detach', wt,
                    'HEAD'], capture_output=True, check=True)
    try:
        r = subprocess.run(['git', '-C', wt, 'apply', patch],
                           capture_output=True, text=True)
        if r.returncode != 0:
            return 'patch-does-not-apply', ''
        env = dict(os.environ, VERIF_ODL_PATH=wt, VERIF_SEED=str(seed))
        r = subprocess.run([os.path.join(HERE, 'check'), prop, '--tier', tier,
                            '--no-evidence', '--fast-fail', '--jobs',
                            str(jobs)], env=env, capture_output=True,
                           text=True)
        sig = [l for l in r.stdout.splitlines()
               if l.startswith('violation bucket') or
               l.startswith('regression replay fails')]
        verdict = {0: 'missed', 1: 'caught'}.get(r.returncode,
                                                 'harness-error')
        return verdict, (sig[0][:200] if sig else
                         r.stdout.strip()[-300:] if verdict != 'missed'
                         else '')
    finally:
        subprocess.run(['git', '-C', '/repo', 'worktree', 'remove', '--force',
                        wt], capture_output=True)


def main():
    ap = argparse.ArgumentParser()
    ap.add_argument('--tier', default='quick')
    ap.add_argument('--only', default='')
    ap.add_argument('--also', default='')
    ap.add_argument('--jobs', type=int, default=8)
    ap.add_argument('--seed', type=int, default=1)
    a = ap.parse_args()
    only = set(a.only.split(',')) if a.only else None
    for d in sorted(glob.glob(os.path.join(HERE, 'seeded', 'C*'))):
        sid = os.path.basename(d)
        if only and sid not in only:
            continue
        meta = json.load(open(os.path.join(d, 'meta.json')))
        props = [meta['breaks_property']] + [p for p in a.also.split(',') if p]
        res = meta.get('caught_by') or {}
        for prop in props:
            verdict, sig = run(os.path.join(d, 'patch.diff'), prop, a.tier,
                               a.jobs, a.seed)
            res['{} {} seed={}'.format(prop, a.tier, a.seed)] = \
                {'verdict': verdict, 'by': sig}
            print('{:8s} {:4s} {:7s} {:14s} {}'.format(sid, prop, a.tier,
                                                      verdict, sig[:120]))
            sys.stdout.flush()
        meta['caught_by'] = res
        json.dump(meta, open(os.path.join(d, 'meta.json'), 'w'), indent=1)


if __name__ == '__main__':
    main()
