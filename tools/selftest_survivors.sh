#!/bin/bash
# Re-run the mutants that SURVIVED the previous self-test of the given properties
# against the current checks (results: mutants/recheck2-Cxx.json).
cd "$(dirname "$0")/.."
./setup.sh >/dev/null 2>&1
for p in "$@"; do
  ids=$(/venv/bin/python - "$p" <<'PY'
import json, sys
d = json.load(open('mutants/results-%s.json' % sys.argv[1]))
print(','.join(m['id'] for m in d if m['verdict'] == 'SURVIVED'))
PY
)
  [ -z "$ids" ] && continue
  PYTHONPATH=.deps /venv/bin/python tools/selftest.py $p --ids "$ids" --parallel ${PAR:-2} --jobs ${JOBS:-3} --out recheck2-$p.json
done
