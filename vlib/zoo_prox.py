"""Catalogue of functionals / proximal factories for C07.

Every catalogue entry knows (a) a Hypothesis strategy for its documented
parameters, (b) how to build the live ODL object (a proximal *factory*
``sigma -> Operator`` and, in class mode, the `Functional`), (c) how to build
the independent reference node from ``vlib/ref/funcvalues.py`` for the
**documented objective**, (d) the admissible space kinds and step-size kinds,
(e) a ``site`` string (class + parameter class) used in signatures.

Functional expression trees (plain JSON)::

    {"t": "leaf", "name": "f_l1", "params": {...}}
    {"t": "translated", "f": T, "y": VEC}
    {"t": "argscale", "f": T, "s": float | VEC | {"re": a, "im": b},
     "as": "element" | "list" | "array"}   # form of a VEC scaling (factory)
    {"t": "leftscale", "f": T, "s": float}
    {"t": "quadpert", "f": T, "a": float, "u": VEC | null, "c": float}
    {"t": "addconst", "f": T, "c": float}
    {"t": "conj", "f": T}
    {"t": "sepsum", "parts": [T, ...]}          # on the pspace of the parts
    {"t": "bregman", "f": T, "point": VEC}
    {"t": "compose", "f": T, "op": {"kind": "scaling", "s": s} |
                                   {"kind": "orth", "seed": k, "c": c}}

Rule nodes of the functional mode may carry ``"via": "class"``: the rule is
built with the documented class constructor (`FunctionalTranslation`,
`FunctionalRightScalarMult`, `FunctionalLeftScalarMult`,
`FunctionalScalarSum`, `BregmanDistance`) instead of the operator syntax /
method.  On complex spaces flat vectors are real-ified ((re, im) pairs).

with VEC = {"data": [flat list]} | {"gen": {"seed": s, "scale": a, "kind":
"normal" | "pos"}}.  ``mode`` = "factory" builds everything with the functions
of ``proximal_operators.py`` (``proximal_translation`` ...), ``mode`` =
"functional" with the `Functional` API (``f.translated(y).proximal`` ...).
"""
import numpy as np
from hypothesis import strategies as st

from . import flat
from .core import HarnessError, import_odl
from .ref import funcvalues as R

odl = import_odl()
from odl.solvers.nonsmooth import proximal_operators as PO  # noqa: E402

S = odl.solvers
INF = float('inf')


# --------------------------------------------------------------------------
# flat vector specs

def vec(spec, n):
    """Flat float64 vector of length n described by ``spec``."""
    n = int(n)
    if spec is None:
        return None
    if 'data' in spec:
        a = np.asarray(spec['data'], dtype=float).ravel()
        if a.size != n:
            raise HarnessError('vector spec has {} entries, space {}'
                               ''.format(a.size, n))
        # no subnormal-scale data (float32 subnormals start at 1e-38)
        return np.where(np.abs(a) < 1e-30, 0.0, a)
    g = spec['gen']
    rng = np.random.RandomState(int(g['seed']) % (2 ** 32))
    sc = float(g.get('scale', 1.0))
    if g.get('kind', 'normal') == 'pos':
        return rng.uniform(0.1, 2.0, size=n) * sc
    return np.round(rng.standard_normal(size=n) * sc, 3)


GEN_PALETTE = [0.0, 1.0, -1.0, 2.0, -3.0, 0.5, -0.25, 1.5, 7.0, -0.5,
               0.3, -2.0, 4.0, 0.1, -1.5, 3.0]
POS_PALETTE = [1.0, 2.0, 0.5, 1.5, 0.25, 3.0, 0.1, 5.0]
EXPLICIT = 24


def _r32(x):
    return float(np.float32(x))


@st.composite
def vecs(draw, n, scale=1.0, positive=False):
    n = int(n)
    if n <= EXPLICIT:
        if positive:
            ent = st.one_of(st.sampled_from(POS_PALETTE),
                            st.floats(0.05, 5.0).map(_r32))
        else:
            ent = st.one_of(st.sampled_from(GEN_PALETTE),
                            st.floats(-5.0, 5.0).map(_r32))
        vals = draw(st.lists(ent, min_size=n, max_size=n))
        return {'data': [_r32(v * scale) for v in vals]}
    return {'gen': {'seed': draw(st.integers(0, 2 ** 31 - 1)),
                    'scale': float(scale),
                    'kind': 'pos' if positive else 'normal'}}


def pos_scalars(palette=(1.0, 0.5, 2.0, 0.1, 3.0, 0.3, 7.0), lo=0.05,
                hi=20.0):
    return st.one_of(st.sampled_from(list(palette)),
                     st.floats(lo, hi).map(_r32))


LAMS = pos_scalars((1.0, 1.0, 0.5, 2.0, 0.1, 3.0, 10.0))
SIGMAS = pos_scalars((1.0, 0.5, 2.0, 0.1, 0.3, 7.0, 25.0), 0.01, 50.0)
GAMMAS = st.sampled_from([0.0, 0.1, 0.4, 1.0, 2.5, 0.05])
SCALINGS = st.one_of(st.sampled_from([-2.0, -1.0, -0.5, 0.5, 2.0, 3.0, 0.1,
                                      1.0]),
                     st.floats(0.1, 4.0).map(_r32),
                     st.floats(-4.0, -0.1).map(_r32))
CONSTS = st.one_of(st.sampled_from([0.0, 1.0, -1.0, 2.5, -7.0]),
                   st.floats(-20, 20).map(_r32))


# --------------------------------------------------------------------------
# catalogue entries

class Entry(object):
    name = None
    mode = None            # 'factory' | 'functional'
    kinds = ('T',)         # admissible space kinds: T leaf, P power of
    #                        leaves, G general product, M (base^m)^n
    sigma_kinds = ('scalar',)
    weight = 1
    scale_cap = 30.0       # largest magnitude of x entries
    callable_only = False  # factory returns a plain callable, no Operator
    complex_ok = False     # objective defined through |x_i| (modulus) only:
    #                        also generated on complex spaces

    classes = ({},)        # parameter classes enumerated by the sweep

    def params(self, draw, rsp):
        return {}

    def draw_params(self, draw, rsp, force=None):
        """Parameters with the entries of ``force`` imposed ('__vec__' /
        '__posvec__' = draw an element-valued parameter)."""
        force = force or {}
        if 'kind' in force:
            p = _box_params(draw, rsp, kind=force['kind'])
        else:
            p = self.params(draw, rsp)
        for k, v in force.items():
            if k == 'kind':
                continue
            if v == '__vec__':
                p[k] = draw(vecs(rsp.size))
            elif v == '__posvec__':
                p[k] = draw(vecs(rsp.size, positive=True))
            else:
                p[k] = v
        return p

    def site(self, p):
        return self.name

    def expect(self, p):
        """None or the documented rejection ('nie', 'value', 'type')."""
        return None

    def odl(self, space, p, n):
        """-> (factory, functional or None)"""
        raise NotImplementedError

    def ref(self, rsp, p):
        raise NotImplementedError

    # element-valued parameters are VEC specs
    @staticmethod
    def el(space, spec, n=None):
        if spec is None:
            return None
        return flat.unflat(vec(spec, flat.rdim(space)), space)


def _opt_g(draw, rsp, positive=False, scale=1.0):
    if draw(st.integers(0, 2)) == 0:
        return None
    return draw(vecs(rsp.size, scale=scale, positive=positive))


class _NormFactory(Entry):
    """proximal_<x>(space, lam, g) with objective lam * N(x - g)."""
    mode = 'factory'
    kinds = ('T', 'P', 'G')
    fun = None
    weight = 3
    complex_ok = True
    classes = ({'g': None}, {'g': '__vec__'})

    def params(self, draw, rsp):
        return {'lam': draw(LAMS), 'g': _opt_g(draw, rsp)}

    def site(self, p):
        return '{}({})'.format(self.name, 'g' if p.get('g') else 'nog')

    def odl(self, space, p, n):
        g = self.el(space, p.get('g'))
        return getattr(PO, self.fun)(space, lam=p['lam'], g=g), None

    def base(self, rsp):
        raise NotImplementedError

    def ref(self, rsp, p):
        node = self.base(rsp)
        if p.get('g') is not None:
            node = R.RTranslate(node, vec(p['g'], rsp.size))
        return R.RLeftScale(node, p['lam'])


class FL1(_NormFactory):
    name, fun = 'f_l1', 'proximal_l1'
    sigma_kinds = ('scalar', 'element', 'arraylike')

    def base(self, rsp):
        return R.RLpNorm(rsp, 1)


class FL2(_NormFactory):
    name, fun = 'f_l2', 'proximal_l2'

    def base(self, rsp):
        return R.RLpNorm(rsp, 2)


class FL2Sq(_NormFactory):
    name, fun = 'f_l2sq', 'proximal_l2_squared'
    sigma_kinds = ('scalar', 'element', 'arraylike')

    def base(self, rsp):
        return R.RL2Sq(rsp)


class FL1L2(_NormFactory):
    name, fun = 'f_l1l2', 'proximal_l1_l2'
    kinds = ('P',)

    def base(self, rsp):
        return R.RGroupL1(rsp, 2)


class _ConjFactory(_NormFactory):
    """proximal_convex_conj_<x>: conjugate of lam*N(.-g) = conj(lam N) +
    <., g>, written in closed form."""

    def conj(self, rsp, lam):
        raise NotImplementedError

    def ref(self, rsp, p):
        node = self.conj(rsp, p['lam'])
        if p.get('g') is not None:
            node = R.RQuadPert(node, 0.0, vec(p['g'], rsp.size), 0.0)
        return node


class FCCL1(_ConjFactory):
    name, fun = 'f_cc_l1', 'proximal_convex_conj_l1'
    sigma_kinds = ('scalar', 'element', 'arraylike')

    def conj(self, rsp, lam):
        if rsp.cplx:
            # { |y_i| <= lam } with the complex modulus
            return R.RIndLpBall(rsp, INF, lam)
        return R.RIndBox(rsp, -lam, lam)


class FCCL2(_ConjFactory):
    name, fun = 'f_cc_l2', 'proximal_convex_conj_l2'

    def conj(self, rsp, lam):
        return R.RIndLpBall(rsp, 2, lam)


class FCCL2Sq(_ConjFactory):
    name, fun = 'f_cc_l2sq', 'proximal_convex_conj_l2_squared'
    sigma_kinds = ('scalar', 'element', 'arraylike')

    def conj(self, rsp, lam):
        return R.RLeftScale(R.RL2Sq(rsp), 1.0 / (4.0 * lam))


class FCCL1L2(_ConjFactory):
    name, fun = 'f_cc_l1l2', 'proximal_convex_conj_l1_l2'
    kinds = ('P',)

    def conj(self, rsp, lam):
        return R.RIndGroupBall(rsp, 2, lam)


class FLinf(Entry):
    name, mode = 'f_linf', 'factory'
    complex_ok = True
    weight = 2

    def odl(self, space, p, n):
        return PO.proximal_linfty(space), None

    def ref(self, rsp, p):
        return R.RLpNorm(rsp, INF)


class FCCLinf(Entry):
    name, mode = 'f_cc_linf', 'factory'
    complex_ok = True
    weight = 2

    def odl(self, space, p, n):
        return PO.proximal_convex_conj_linfty(space), None

    def ref(self, rsp, p):
        return R.RIndLpBall(rsp, 1, 1.0)


BOX_KINDS = ('ss', 's-', '-s', 'ee', 'se', 'es', 'e-', '-e', '--')


def _box_params(draw, rsp, kind=None):
    if kind is None:
        kind = draw(st.sampled_from(['ss', 'ss', 's-', '-s', 'ee', 'se', 'es',
                                     'e-', '-e', '--']))
    lo = hi = None
    a = draw(st.sampled_from([-1.0, 0.0, -2.5, 0.5, -0.25]))
    b = a + draw(st.sampled_from([0.0, 1.0, 2.0, 0.5, 3.5]))
    if kind[0] == 's':
        lo = a
    if kind[1] == 's':
        hi = b
    if 'e' in kind:
        v1 = vec(draw(vecs(rsp.size)), rsp.size)
        v2 = vec(draw(vecs(rsp.size)), rsp.size)
        if kind[0] == 'e':
            lo = {'data': [float(t) for t in np.minimum(v1, v2)]}
            if kind[1] == 's':
                hi = float(max(b, np.max(np.minimum(v1, v2))))
        if kind[1] == 'e':
            hi = {'data': [float(t) for t in np.maximum(v1, v2)]}
            if kind[0] == 's':
                lo = float(min(a, np.min(np.maximum(v1, v2))))
    p = {'lower': lo, 'upper': hi, 'kind': kind}
    if 'e' in kind:
        # documented: "``space`` element-like" - elements, or nested
        # lists / arrays that ``space.element`` accepts
        p['like'] = draw(st.sampled_from(['element', 'element', 'list',
                                          'array']))
    return p


def _box_arg(space, b, like='element'):
    if b is None or not isinstance(b, dict):
        return b
    el = flat.unflat(vec(b, flat.rdim(space)), space)
    if like == 'element' or not hasattr(el, 'asarray') or \
            isinstance(space, odl.ProductSpace):
        return el
    arr = np.array(el.asarray())
    return arr.tolist() if like == 'list' else arr


def _box_ref(rsp, p):
    lo, hi = p['lower'], p['upper']
    lo = vec(lo, rsp.size) if isinstance(lo, dict) else lo
    hi = vec(hi, rsp.size) if isinstance(hi, dict) else hi
    return R.RIndBox(rsp, lo, hi)


class FBox(Entry):
    name, mode = 'f_box', 'factory'
    kinds = ('T', 'P', 'G')
    weight = 2
    classes = tuple({'kind': k} for k in BOX_KINDS)

    def params(self, draw, rsp):
        return _box_params(draw, rsp)

    def site(self, p):
        return 'f_box({})'.format(p['kind'])

    def odl(self, space, p, n):
        like = p.get('like', 'element')
        return PO.proximal_box_constraint(
            space, lower=_box_arg(space, p['lower'], like),
            upper=_box_arg(space, p['upper'], like)), None

    def ref(self, rsp, p):
        return _box_ref(rsp, p)


class FBoxBad(Entry):
    """lower > upper must be rejected (documented ValueError)."""
    name, mode = 'f_box_bad', 'factory'
    weight = 0.3

    def params(self, draw, rsp):
        return {'lower': 1.0, 'upper': draw(st.sampled_from([0.0, -2.0,
                                                             0.5]))}

    def expect(self, p):
        return 'value'

    def odl(self, space, p, n):
        return PO.proximal_box_constraint(space, p['lower'], p['upper']), None

    def ref(self, rsp, p):
        return R.RConst(rsp, 0.0)


class FNonneg(Entry):
    name, mode = 'f_nonneg', 'factory'
    kinds = ('T', 'P', 'G')

    def odl(self, space, p, n):
        return PO.proximal_nonnegativity(space), None

    def ref(self, rsp, p):
        return R.RIndBox(rsp, 0.0, None)


class FConst(Entry):
    name, mode = 'f_const', 'factory'
    complex_ok = True
    kinds = ('T', 'P', 'G')
    weight = 0.5

    def odl(self, space, p, n):
        return PO.proximal_const_func(space), None

    def ref(self, rsp, p):
        return R.RConst(rsp, 0.0)


class FHuber(Entry):
    name, mode = 'f_huber', 'factory'
    complex_ok = True
    kinds = ('T', 'P')
    weight = 3
    classes = ({'gamma': 0.0}, {'gamma': 0.4}, {'gamma': 2.5})

    def params(self, draw, rsp):
        return {'gamma': draw(GAMMAS)}

    def site(self, p):
        return 'f_huber'

    def odl(self, space, p, n):
        return PO.proximal_huber(space, p['gamma']), None

    def ref(self, rsp, p):
        return R.RHuber(rsp, p['gamma'])


class FCCKL(Entry):
    """(lam F)^*, F the KL divergence with prior g: lam F^*(./lam)."""
    name, mode = 'f_cc_kl', 'factory'
    weight = 2
    classes = ({'g': None, 'lam': 1.0}, {'g': None, 'lam': 2.0},
               {'g': '__posvec__', 'lam': 0.5}, {'g': '__posvec__'})

    def params(self, draw, rsp):
        return {'lam': draw(LAMS), 'g': _opt_g(draw, rsp, positive=True)}

    def site(self, p):
        return '{}({})'.format(self.name, 'g' if p.get('g') else 'nog')

    def odl(self, space, p, n):
        return PO.proximal_convex_conj_kl(
            space, lam=p['lam'], g=self.el(space, p.get('g'))), None

    def inner(self, rsp, g):
        return R.RKLConj(rsp, g)

    def ref(self, rsp, p):
        g = vec(p.get('g'), rsp.size)
        lam = p['lam']
        return R.RLeftScale(R.RArgScale(self.inner(rsp, g), 1.0 / lam), lam)


class FCCKLCE(FCCKL):
    name = 'f_cc_kl_ce'

    def params(self, draw, rsp):
        # lam >= 0.5 keeps exp(x / lam) finite for the generated x
        return {'lam': draw(pos_scalars((1.0, 0.5, 2.0, 3.0, 10.0), 0.5,
                                        20.0)),
                'g': _opt_g(draw, rsp, positive=True)}

    def odl(self, space, p, n):
        return PO.proximal_convex_conj_kl_cross_entropy(
            space, lam=p['lam'], g=self.el(space, p.get('g'))), None

    def inner(self, rsp, g):
        return R.RKLCEConj(rsp, g)


class _Callable(object):
    """Wrap proj_simplex / proj_l1 (plain functions) like an operator."""

    def __init__(self, fun, space, arg, use_out):
        self.fun, self.domain, self.arg, self.use_out = (fun, space, arg,
                                                         use_out)

    def call_out(self, x, out):
        """fun(x, arg, out) with a caller-supplied out (possibly x)."""
        res = self.fun(x, self.arg, out)
        if res is not out:
            raise HarnessError('projection did not return out')
        return out

    def __call__(self, x):
        if self.use_out:
            out = self.domain.element()
            res = self.fun(x, self.arg, out)
            if res is not out:
                raise HarnessError('projection did not return out')
            return out
        return self.fun(x, self.arg)


class FProjSimplex(Entry):
    name, mode = 'f_proj_simplex', 'factory'
    weight = 2
    callable_only = True
    classes = ({'diameter': 1.0, 'out': True}, {'diameter': 2.0, 'out': False},
               {'diameter': 0.5, 'out': True})

    def params(self, draw, rsp):
        return {'diameter': draw(st.sampled_from([1.0, 1.0, 0.5, 2.0, 10.0,
                                                  0.1])),
                'out': draw(st.booleans())}

    def odl(self, space, p, n):
        return (lambda sigma: _Callable(PO.proj_simplex, space,
                                        p['diameter'], p['out'])), None

    def ref(self, rsp, p):
        return R.RIndSimplex(rsp, p['diameter'])


class FProjL1(FProjSimplex):
    name = 'f_proj_l1'
    complex_ok = True

    def odl(self, space, p, n):
        return (lambda sigma: _Callable(PO.proj_l1, space, p['diameter'],
                                        p['out'])), None

    def ref(self, rsp, p):
        return R.RIndLpBall(rsp, 1, p['diameter'])


# ---- functional classes ----------------------------------------------------

class _Class(Entry):
    mode = 'functional'

    def make(self, space, p):
        raise NotImplementedError

    def odl(self, space, p, n):
        f = self.make(space, p)
        return f.proximal, f


class CLpNorm(_Class):
    name = 'LpNorm'
    complex_ok = True
    weight = 4
    classes = ({'p': 1.0}, {'p': 2.0}, {'p': INF}, {'p': 1.5}, {'p': 0.0})

    def params(self, draw, rsp):
        return {'p': draw(st.sampled_from([1.0, 2.0, INF, INF, 1.5, 3.0,
                                           0.0]))}

    def site(self, p):
        return 'LpNorm({})'.format(_pstr(p['p']))

    def expect(self, p):
        return None if p['p'] in (1.0, 2.0, INF) else 'nie'

    def make(self, space, p):
        return S.LpNorm(space, p['p'])

    def ref(self, rsp, p):
        return R.RLpNorm(rsp, p['p'])


def _pstr(p):
    if p is None:
        return 'default'
    return 'inf' if p == INF else '{:g}'.format(p)


class CL1(_Class):
    name = 'L1Norm'
    complex_ok = True
    kinds = ('T', 'P', 'G')
    sigma_kinds = ('scalar', 'element', 'arraylike')
    weight = 2

    def make(self, space, p):
        return S.L1Norm(space)

    def ref(self, rsp, p):
        return R.RLpNorm(rsp, 1)


class CL2(_Class):
    name = 'L2Norm'
    complex_ok = True
    kinds = ('T', 'P', 'G')
    weight = 2

    def make(self, space, p):
        return S.L2Norm(space)

    def ref(self, rsp, p):
        return R.RLpNorm(rsp, 2)


class CL2Sq(_Class):
    name = 'L2NormSquared'
    complex_ok = True
    kinds = ('T', 'P', 'G')
    sigma_kinds = ('scalar', 'element', 'arraylike')
    weight = 2

    def make(self, space, p):
        return S.L2NormSquared(space)

    def ref(self, rsp, p):
        return R.RL2Sq(rsp)


class CGroupL1(_Class):
    name = 'GroupL1Norm'
    complex_ok = True
    kinds = ('P',)
    weight = 3
    classes = ({'p': None}, {'p': 1.0}, {'p': 2.0}, {'p': INF})

    def params(self, draw, rsp):
        return {'p': draw(st.sampled_from([None, 1.0, 2.0, 2.0, INF, 3.0]))}

    def site(self, p):
        return 'GroupL1Norm({})'.format(_pstr(p['p']))

    def expect(self, p):
        return None if p['p'] in (None, 1.0, 2.0) else 'nie'

    def make(self, space, p):
        return S.GroupL1Norm(space, p['p'])

    def ref(self, rsp, p):
        return R.RGroupL1(rsp, 2.0 if p['p'] is None else p['p'])


class CIndGroupBall(_Class):
    name = 'IndicatorGroupL1UnitBall'
    complex_ok = True
    kinds = ('P',)
    weight = 3
    classes = ({'p': None}, {'p': INF}, {'p': 2.0}, {'p': 1.0})

    def params(self, draw, rsp):
        return {'p': draw(st.sampled_from([None, INF, INF, 2.0, 1.0, 3.0]))}

    def site(self, p):
        return 'IndicatorGroupL1UnitBall({})'.format(_pstr(p['p']))

    def expect(self, p):
        return None if p['p'] in (None, INF, 2.0) else 'nie'

    def make(self, space, p):
        return S.IndicatorGroupL1UnitBall(space, p['p'])

    def ref(self, rsp, p):
        return R.RIndGroupBall(rsp, 2.0 if p['p'] is None else p['p'])


class CIndLpBall(_Class):
    name = 'IndicatorLpUnitBall'
    complex_ok = True
    weight = 4
    classes = ({'p': 1.0}, {'p': 2.0}, {'p': INF}, {'p': 1.5})

    def params(self, draw, rsp):
        return {'p': draw(st.sampled_from([1.0, 1.0, 2.0, INF, 1.5, 4.0]))}

    def site(self, p):
        return 'IndicatorLpUnitBall({})'.format(_pstr(p['p']))

    def expect(self, p):
        return None if p['p'] in (1.0, 2.0, INF) else 'nie'

    def make(self, space, p):
        return S.IndicatorLpUnitBall(space, p['p'])

    def ref(self, rsp, p):
        return R.RIndLpBall(rsp, p['p'])


class CIndLpBallProd(CIndLpBall):
    """exponents 2 / inf on product spaces"""
    name = 'IndicatorLpUnitBall@prod'
    kinds = ('P', 'G')
    weight = 1
    classes = ({'p': 2.0}, {'p': INF})

    def params(self, draw, rsp):
        return {'p': draw(st.sampled_from([2.0, INF]))}


class CIndLinfBallEl(CIndLpBall):
    """IndicatorLpUnitBall(inf) with element-valued step (the factory behind
    it, proximal_convex_conj_l1, documents it)"""
    name = 'IndicatorLpUnitBall@el'
    kinds = ('T', 'P', 'G')
    weight = 0.5
    sigma_kinds = ('element',)
    classes = ({'p': INF},)

    def params(self, draw, rsp):
        return {'p': INF}


class CConst(_Class):
    name = 'ConstantFunctional'
    complex_ok = True
    kinds = ('T', 'P', 'G')
    weight = 0.5
    classes = ({'c': 0.0}, {'c': 2.5})

    def params(self, draw, rsp):
        return {'c': draw(CONSTS)}

    def make(self, space, p):
        return S.ConstantFunctional(space, p['c'])

    def ref(self, rsp, p):
        return R.RConst(rsp, p['c'])


class CZero(_Class):
    name = 'ZeroFunctional'
    complex_ok = True
    kinds = ('T', 'P', 'G')
    weight = 0.3

    def make(self, space, p):
        return S.ZeroFunctional(space)

    def ref(self, rsp, p):
        return R.RConst(rsp, 0.0)


class CZeroNegArg(_Class):
    """ZeroFunctional(X) * s with s < 0: f(s x) = 0, proximal = identity.
    (Functional.__mul__ turns argument scaling of *linear* functionals into
    a left multiplication, whose proximal rejects negative scalars.)"""
    name = 'ZeroFunctional*neg'
    kinds = ('T', 'P', 'G')
    weight = 0.3

    def params(self, draw, rsp):
        return {'s': draw(st.sampled_from([-1.0, -2.0, -0.5]))}

    def make(self, space, p):
        return S.ZeroFunctional(space) * float(p['s'])

    def ref(self, rsp, p):
        return R.RConst(rsp, 0.0)


class CIndBox(_Class):
    name = 'IndicatorBox'
    kinds = ('T', 'P', 'G')
    weight = 2
    classes = tuple({'kind': k} for k in BOX_KINDS)

    def params(self, draw, rsp):
        return _box_params(draw, rsp)

    def site(self, p):
        return 'IndicatorBox({})'.format(p['kind'])

    def make(self, space, p):
        like = p.get('like', 'element')
        return S.IndicatorBox(space, _box_arg(space, p['lower'], like),
                              _box_arg(space, p['upper'], like))

    def ref(self, rsp, p):
        return _box_ref(rsp, p)


class CIndNonneg(_Class):
    name = 'IndicatorNonnegativity'
    kinds = ('T', 'P', 'G')

    def make(self, space, p):
        return S.IndicatorNonnegativity(space)

    def ref(self, rsp, p):
        return R.RIndBox(rsp, 0.0, None)


class CIndZero(_Class):
    name = 'IndicatorZero'
    complex_ok = True
    kinds = ('T', 'P', 'G')
    weight = 0.7
    classes = ({'c': 0.0}, {'c': 2.0})

    def params(self, draw, rsp):
        return {'c': draw(st.sampled_from([0.0, 0.0, 2.0, -1.5]))}

    def make(self, space, p):
        return S.IndicatorZero(space, p['c'])

    def ref(self, rsp, p):
        return R.RIndZero(rsp, p['c'])


class _KLBase(_Class):
    weight = 2
    cls = None
    rcls = None
    conj = False
    classes = ({'prior': None}, {'prior': '__posvec__'})

    def params(self, draw, rsp):
        return {'prior': _opt_g(draw, rsp, positive=True)}

    def site(self, p):
        return '{}({})'.format(self.name, 'prior' if p.get('prior')
                               else 'noprior')

    def make(self, space, p):
        f = getattr(S, self.cls)(space, prior=self.el(space, p.get('prior')))
        return f.convex_conj if self.conj else f

    def ref(self, rsp, p):
        return self.rcls(rsp, vec(p.get('prior'), rsp.size))


class CKL(_KLBase):
    name, cls, rcls = 'KullbackLeibler', 'KullbackLeibler', R.RKL


class CKLConj(_KLBase):
    name, cls, rcls, conj = ('KullbackLeiblerConvexConj', 'KullbackLeibler',
                             R.RKLConj, True)


class CKLCE(_KLBase):
    name, cls, rcls = ('KullbackLeiblerCrossEntropy',
                       'KullbackLeiblerCrossEntropy', R.RKLCE)


class CKLCEConj(_KLBase):
    name, cls, rcls, conj = ('KullbackLeiblerCrossEntropyConvexConj',
                             'KullbackLeiblerCrossEntropy', R.RKLCEConj, True)


class CNuclear(_Class):
    name = 'NuclearNorm'
    kinds = ('M',)
    weight = 4
    classes = ({'outer': 1.0, 'sv': 1.0}, {'outer': 1.0, 'sv': 2.0},
               {'outer': 1.0, 'sv': INF}, {'outer': 2.0, 'sv': 2.0},
               {'outer': 1.0, 'sv': 3.0})

    def params(self, draw, rsp):
        return {'outer': draw(st.sampled_from([1.0, 1.0, 1.0, 1.0, 2.0,
                                               INF])),
                'sv': draw(st.sampled_from([1.0, 2.0, INF, 1.0, 2.0, 3.0]))}

    def site(self, p):
        return 'NuclearNorm({},{})'.format(_pstr(p['outer']), _pstr(p['sv']))

    def expect(self, p):
        return None if (p['outer'] == 1.0 and
                        p['sv'] in (1.0, 2.0, INF)) else 'nie'

    def make(self, space, p):
        return S.NuclearNorm(space, p['outer'], p['sv'])

    def ref(self, rsp, p):
        return R.RNuclear(rsp, p['sv'])


class CIndNuclearBall(_Class):
    name = 'IndicatorNuclearNormUnitBall'
    kinds = ('M',)
    weight = 3
    classes = ({'outer': INF, 'sv': 1.0}, {'outer': INF, 'sv': 2.0},
               {'outer': INF, 'sv': INF}, {'outer': 2.0, 'sv': 2.0})

    def params(self, draw, rsp):
        return {'outer': draw(st.sampled_from([INF, INF, INF, INF, 2.0])),
                'sv': draw(st.sampled_from([1.0, 2.0, INF]))}

    def site(self, p):
        return 'IndicatorNuclearNormUnitBall({},{})'.format(
            _pstr(p['outer']), _pstr(p['sv']))

    def expect(self, p):
        return None if p['outer'] == INF else 'nie'

    def make(self, space, p):
        return S.IndicatorNuclearNormUnitBall(space, p['outer'], p['sv'])

    def ref(self, rsp, p):
        return R.RIndNuclearBall(rsp, p['sv'])


class CIndSimplex(_Class):
    name = 'IndicatorSimplex'
    weight = 3
    classes = ({'diameter': 1.0}, {'diameter': 2.0})

    def params(self, draw, rsp):
        return {'diameter': draw(st.sampled_from([1.0, 1.0, 0.5, 2.0, 10.0]))}

    def make(self, space, p):
        return S.IndicatorSimplex(space, p['diameter'])

    def ref(self, rsp, p):
        return R.RIndSimplex(rsp, p['diameter'])


class CIndSum(_Class):
    name = 'IndicatorSumConstraint'
    weight = 3
    classes = ({'c': 1.0}, {'c': -2.0})

    def params(self, draw, rsp):
        return {'c': draw(st.sampled_from([1.0, 1.0, -2.0, 0.5, 7.0]))}

    def make(self, space, p):
        return S.IndicatorSumConstraint(space, p['c'])

    def ref(self, rsp, p):
        return R.RIndSum(rsp, p['c'])


class CHuber(_Class):
    name = 'Huber'
    complex_ok = True
    kinds = ('T', 'P')
    weight = 3
    classes = ({'gamma': 0.0}, {'gamma': 0.4}, {'gamma': 2.5})

    def params(self, draw, rsp):
        return {'gamma': draw(GAMMAS)}

    def make(self, space, p):
        return S.Huber(space, p['gamma'])

    def ref(self, rsp, p):
        return R.RHuber(rsp, p['gamma'])


class CQuadLinConj(_Class):
    """QuadraticForm(vector=b, constant=c).convex_conj = -c at b, else inf
    (documented); proximal through IndicatorZero.translated."""
    name = 'QuadraticForm(vector).convex_conj'
    weight = 0.7

    def params(self, draw, rsp):
        return {'b': draw(vecs(rsp.size)), 'c': draw(CONSTS)}

    def make(self, space, p):
        return S.QuadraticForm(vector=self.el(space, p['b']),
                               constant=p['c']).convex_conj

    def ref(self, rsp, p):
        return R.RTranslate(R.RIndZero(rsp, -p['c']), vec(p['b'], rsp.size))


class CQuadNoProx(_Class):
    """QuadraticForm itself offers no proximal: NotImplementedError."""
    name = 'QuadraticForm'
    weight = 0.3

    def params(self, draw, rsp):
        return {'b': draw(vecs(rsp.size)),
                'op': draw(st.sampled_from(['none', 'scaling']))}

    def expect(self, p):
        return 'nie'

    def make(self, space, p):
        op = None if p['op'] == 'none' else odl.ScalingOperator(space, 2.0)
        return S.QuadraticForm(operator=op, vector=self.el(space, p['b']))

    def ref(self, rsp, p):
        return R.RConst(rsp, 0.0)


class CSimple(_Class):
    """simple_functional(space, fcall, prox=P, convex_conj_prox=Q): the
    user-supplied proximal factories are handed through by ``.proximal``,
    ``.convex_conj.proximal`` and ``.convex_conj.convex_conj.proximal``
    (documented parameters of `simple_functional`); without ``prox`` the
    proximal is not offered (NotImplementedError).  P, Q are the factories
    of lam * N and its conjugate, N in {1-norm, 2-norm, squared 2-norm}."""
    name = 'simple_functional'
    kinds = ('T', 'P', 'G')
    complex_ok = True
    weight = 1
    classes = ({'side': 'primal', 'base': 'l1'},
               {'side': 'conj', 'base': 'l2'},
               {'side': 'biconj', 'base': 'l2sq'},
               {'side': 'noprox'})

    def params(self, draw, rsp):
        return {'base': draw(st.sampled_from(['l1', 'l2', 'l2sq'])),
                'lam': draw(LAMS),
                'side': draw(st.sampled_from(['primal', 'primal', 'conj',
                                              'conj', 'biconj', 'noprox']))}

    def site(self, p):
        return 'simple_functional({})'.format(p['side'])

    def expect(self, p):
        return 'nie' if p['side'] == 'noprox' else None

    def make(self, space, p):
        lam = float(p['lam'])
        norm = {'l1': S.L1Norm, 'l2': S.L2Norm,
                'l2sq': S.L2NormSquared}[p['base']](space)
        if p['side'] == 'noprox':
            return S.simple_functional(space, fcall=lambda x: lam * norm(x))
        f = S.simple_functional(
            space, fcall=lambda x: lam * norm(x),
            prox=BY_NAME['f_' + p['base']].odl(
                space, {'lam': lam, 'g': None}, None)[0],
            convex_conj_fcall=lambda x: (lam * norm).convex_conj(x),
            convex_conj_prox=BY_NAME['f_cc_' + p['base']].odl(
                space, {'lam': lam, 'g': None}, None)[0])
        if p['side'] == 'conj':
            return f.convex_conj
        if p['side'] == 'biconj':
            return f.convex_conj.convex_conj
        return f

    def ref(self, rsp, p):
        if p['side'] == 'noprox':
            return R.RConst(rsp, 0.0)
        if p['side'] == 'conj':
            return BY_NAME['f_cc_' + p['base']].conj(rsp, p['lam'])
        return BY_NAME['f_' + p['base']].ref(rsp, {'lam': p['lam'],
                                                   'g': None})


ENTRIES = [FL1(), FL2(), FL2Sq(), FL1L2(), FCCL1(), FCCL2(), FCCL2Sq(),
           FCCL1L2(), FLinf(), FCCLinf(), FBox(), FBoxBad(), FNonneg(),
           FConst(), FHuber(), FCCKL(), FCCKLCE(), FProjSimplex(), FProjL1(),
           CLpNorm(), CL1(), CL2(), CL2Sq(), CGroupL1(), CIndGroupBall(),
           CIndLpBall(), CIndLpBallProd(), CIndLinfBallEl(), CConst(),
           CZero(), CZeroNegArg(), CIndBox(), CIndNonneg(), CIndZero(), CKL(), CKLConj(),
           CKLCE(), CKLCEConj(), CNuclear(), CIndNuclearBall(), CIndSimplex(),
           CIndSum(), CHuber(), CQuadLinConj(), CQuadNoProx(), CSimple()]
BY_NAME = {e.name: e for e in ENTRIES}


# --------------------------------------------------------------------------
# known-finding regions (used to keep derived trees out of them and to make
# sure the signature carries the region).  The authoritative list for the
# runner is known_findings.d/C07.json; this predicate only steers generation.

def matrix_wide(rsp):
    """(base^m)^n with fewer rows than columns (n < m)."""
    return (rsp.parts is not None and rsp.parts[0].parts is not None and
            len(rsp.parts) < len(rsp.parts[0].parts))


def space_label(rsp):
    if rsp.parts is None:
        return rsp.sd['kind']
    if rsp.is_power and rsp.parts[0].parts is None:
        return 'power'
    if rsp.is_power and rsp.parts[0].is_power and \
            rsp.parts[0].parts[0].parts is None:
        return 'matrix-wide' if matrix_wide(rsp) else 'matrix'
    return 'product'


def region_of(rsp):
    return 'sp={},{}'.format(space_label(rsp), rsp.region())


def known_region(site, rsp):
    leaf, prod = rsp.leaf_values(), rsp.prod_kind()
    if site in ('LpNorm(inf)', 'f_linf', 'IndicatorLpUnitBall(1)',
                'f_cc_linf', 'f_proj_l1'):
        # weighted spaces; complex spaces (proj_l1 uses sign(x), which is
        # not the phase factor x/|x|)
        return leaf != 'unit' or rsp.cplx
    if site in ('IndicatorSimplex', 'f_proj_simplex',
                'IndicatorSumConstraint'):
        return leaf == 'nonuniform'
    if site in ('IndicatorGroupL1UnitBall(inf)',):
        return prod in ('const', 'array')
    if site in ('NuclearNorm(1,inf)', 'IndicatorNuclearNormUnitBall(inf,1)'):
        return True
    if site in ('Huber', 'f_huber'):
        # vector fields (crash); complex scalar fields (sign(x) is not the
        # phase factor x/|x|)
        return rsp.parts is not None or rsp.cplx
    return False


def conj_bypasses_leaf(fd, mode):
    """``Huber(X, gamma).convex_conj`` is an explicit functional (quadratic
    perturbation of the conjugate of the (group) 1-norm) whose proximal
    does not go through ``Huber.proximal``: it is certified on its own (by
    the Moreau reduction onto the Huber value) also where the proximal of
    the Huber leaf itself is a known finding (vector fields, complex
    spaces)."""
    return (mode == 'functional' and fd['t'] == 'conj' and
            fd['f']['t'] == 'leaf' and fd['f']['name'] == 'Huber')


def uses_known_leaf(fd, rsp, sigma_kind, mode):
    """The proximal of the tree goes through the proximal of a leaf that
    lies in a known-finding region."""
    t = fd['t']
    if t == 'leaf':
        site = BY_NAME[fd['name']].site(fd['params'])
        return (known_region(site, rsp) or
                known_step_region(site, rsp, sigma_kind))
    if conj_bypasses_leaf(fd, mode):
        return False
    if t == 'sepsum':
        sk = 'scalar' if sigma_kind == 'list' else sigma_kind
        return any(uses_known_leaf(p, rs, sk, mode)
                   for p, rs in zip(fd['parts'], rsp.parts))
    return uses_known_leaf(fd['f'], rsp, sigma_kind, mode)


def known_step_region(site, rsp, sigma_kind):
    """Known-finding regions that depend on the kind of step: the L1
    proximal with a per-point step on a complex space (C07-K8)."""
    return (rsp.cplx and sigma_kind in ('element', 'arraylike') and
            site in ('f_l1(g)', 'f_l1(nog)', 'L1Norm'))


# --------------------------------------------------------------------------
# building trees

class Built(object):
    __slots__ = ('factory', 'functional', 'ref', 'site', 'expect', 'leaves',
                 'callable_only', 'rules')

    def __init__(self, factory, functional, ref, site, expect=None,
                 leaves=(), callable_only=False, rules=()):
        self.factory, self.functional, self.ref = factory, functional, ref
        self.site, self.expect = site, expect
        self.leaves = list(leaves)
        self.callable_only = callable_only
        self.rules = list(rules)


def _orth(n, seed, c, dtype='float64'):
    rng = np.random.RandomState(int(seed) % (2 ** 32))
    if n <= 1:
        q = np.ones((n, n))
    else:
        q, _ = np.linalg.qr(rng.standard_normal((n, n)))
    # entries representable in the dtype of the space (MatrixOperator
    # refuses to down-cast)
    return (float(c) * q).astype(dtype)


def build_ref(fd, rsp):
    """Reference node of the tree ``fd`` on the reference space ``rsp``."""
    t = fd['t']
    if t == 'leaf':
        return BY_NAME[fd['name']].ref(rsp, fd['params'])
    if t == 'sepsum':
        parts = [build_ref(p, rs) for p, rs in zip(fd['parts'], rsp.parts)]
        return R.RSepSum(rsp, parts)
    h = build_ref(fd['f'], rsp)
    n = rsp.size
    if t == 'translated':
        return R.RTranslate(h, vec(fd['y'], n))
    if t == 'argscale':
        s = fd['s']
        if is_complex_scalar(s):
            return R.RConst(rsp, 0.0)      # documented rejection, no value
        if not isinstance(s, dict) and float(s) == 0.0:
            return R.RConst(rsp, h.value(np.zeros(n)))
        return R.RArgScale(h, vec(s, n) if isinstance(s, dict) else s)
    if t == 'leftscale':
        if float(fd['s']) == 0.0:
            return R.RConst(rsp, 0.0)     # 0 * f is the zero functional
        return R.RLeftScale(h, fd['s'])
    if t == 'quadpert':
        return R.RQuadPert(h, fd['a'], vec(fd.get('u'), n), fd.get('c', 0.0))
    if t == 'addconst':
        return R.RAddConst(h, fd['c'])
    if t == 'conj':
        return R.RConj(h)
    if t == 'bregman':
        y = bregman_point(h, fd, n)
        sg = R.subgradient(h, y)
        if sg is None:
            raise HarnessError('no reference subgradient for bregman')
        fy = h.value(y)
        return R.RQuadPert(h, 0.0, -sg, -fy + rsp.inner(sg, y))
    if t == 'compose':
        op = fd['op']
        if op['kind'] == 'scaling':
            return R.RCompose(h, op['s'] * np.eye(n), op['s'] ** 2)
        return R.RCompose(h, _orth(n, op['seed'], op['c'],
                                   rsp.dtype).astype(float), op['c'] ** 2)
    raise HarnessError('unknown tree node {!r}'.format(t))


def bregman_point(h, fd, n):
    y = vec(fd['point'], n)
    # keep the point inside the domain (positive for entropies) and away
    # from kinks of the 1-norm (the reference picks a fixed sub-gradient
    # there anyway)
    return h.retract(y)


def site_of(fd):
    t = fd['t']
    if t == 'leaf':
        return BY_NAME[fd['name']].site(fd['params'])
    if t == 'sepsum':
        return 'sepsum(' + ','.join(site_of(p) for p in fd['parts']) + ')'
    return '{}({})'.format(rule_name(fd), site_of(fd['f']))


def is_complex_scalar(s):
    return isinstance(s, dict) and 're' in s


def rule_name(fd):
    name = fd['t']
    if name == 'argscale':
        if is_complex_scalar(fd['s']):
            return 'argscale_complex'
        if isinstance(fd['s'], dict):
            return ('argscale_el' if fd.get('as', 'element') == 'element'
                    else 'argscale_seq')
        if float(fd['s']) == 0.0:
            return 'argscale_zero'
    if name == 'leftscale' and float(fd['s']) == 0.0:
        return 'leftscale_zero'
    return name


def is_linear_tree(fd):
    """Mirror of ``Functional.is_linear`` for the trees of the grammar (the
    only linear functionals with a proximal are zero functionals)."""
    t = fd['t']
    if t == 'leaf':
        return (fd['name'] in ('ZeroFunctional', 'ZeroFunctional*neg') or
                (fd['name'] == 'ConstantFunctional' and
                 fd['params']['c'] == 0))
    if t == 'sepsum':
        return all(is_linear_tree(p) for p in fd['parts'])
    if t == 'leftscale':
        return float(fd['s']) == 0.0 or is_linear_tree(fd['f'])
    if t == 'argscale':
        if is_complex_scalar(fd['s']):
            return False
        if not isinstance(fd['s'], dict) and float(fd['s']) == 0.0:
            # ConstantFunctional(f(0)); generated for f(0) = 0 except on
            # ConstantFunctional(c) itself
            ch = fd['f']
            if ch['t'] == 'leaf' and ch['name'] == 'ConstantFunctional':
                return ch['params']['c'] == 0
            return True
        return is_linear_tree(fd['f'])
    if t == 'addconst':
        return fd['c'] == 0 and is_linear_tree(fd['f'])
    if t == 'quadpert':
        # (with a non-zero constant the functional is affine, not linear)
        return (fd['a'] == 0 and not fd.get('c') and
                is_linear_tree(fd['f']))
    if t == 'conj':
        return False
    return False


def contains_conj(fd):
    t = fd['t']
    if t == 'leaf':
        return False
    if t == 'sepsum':
        return any(contains_conj(p) for p in fd['parts'])
    return t == 'conj' or contains_conj(fd['f'])


NO_CONJ = ('IndicatorSimplex', 'IndicatorSumConstraint')


def conj_unavailable(fd):
    """``convex_conj`` of the tree is documented as not implemented
    (IndicatorSimplex / IndicatorSumConstraint raise NotImplementedError and
    every explicit conjugate rule passes that on)."""
    t = fd['t']
    if t == 'leaf':
        return fd['name'] in NO_CONJ
    if t == 'sepsum':
        return any(conj_unavailable(p) for p in fd['parts'])
    if t == 'quadpert':
        return fd['a'] == 0 and conj_unavailable(fd['f'])
    if t == 'conj':
        return False
    if rule_name(fd) in ('leftscale_zero', 'argscale_zero'):
        return False      # ZeroFunctional / ConstantFunctional
    return conj_unavailable(fd['f'])


def leaf_sites(fd, rsp):
    """[(site, reference space of the leaf)]"""
    t = fd['t']
    if t == 'leaf':
        return [(BY_NAME[fd['name']].site(fd['params']), rsp)]
    if t == 'sepsum':
        out = []
        for p, rs in zip(fd['parts'], rsp.parts):
            out.extend(leaf_sites(p, rs))
        return out
    return leaf_sites(fd['f'], rsp)


def mode_of(fd):
    while fd['t'] != 'leaf':
        fd = fd['parts'][0] if fd['t'] == 'sepsum' else fd['f']
    return BY_NAME[fd['name']].mode


def expected_rejection(fd):
    """Documented rejection expected somewhere in the tree, or None."""
    t = fd['t']
    if t == 'leaf':
        return BY_NAME[fd['name']].expect(fd['params'])
    if t == 'sepsum':
        for p in fd['parts']:
            e = expected_rejection(p)
            if e:
                return e
        return None
    inner = expected_rejection(fd['f'])
    if inner:
        return inner
    if t == 'conj' and mode_of(fd) == 'functional' and \
            conj_unavailable(fd['f']):
        return 'nie'
    if t == 'leftscale' and fd['s'] < 0 and not is_linear_tree(fd['f']):
        # (a linear functional stays convex under any real factor)
        return 'value'
    if t == 'argscale' and is_complex_scalar(fd['s']):
        # documented: the scaling "may not contain any nonzero imaginary
        # parts" (ValueError: Complex scaling not supported)
        return 'value'
    if t == 'quadpert' and fd['a'] < 0:
        return 'value'
    return None


def build_odl(fd, space, mode, rsp):
    """-> (factory, functional or None); raises what ODL raises."""
    t = fd['t']
    n = flat.rdim(space)
    if t == 'leaf':
        e = BY_NAME[fd['name']]
        if e.mode != mode:
            raise HarnessError('leaf {} used in mode {}'.format(e.name, mode))
        return e.odl(space, fd['params'], n)
    if mode == 'functional':
        if t == 'sepsum':
            fs = [build_odl(p, sp, mode, rs)[1]
                  for p, sp, rs in zip(fd['parts'], space.spaces,
                                       rsp.parts)]
            if fd.get('power') and len(fs) >= 1:
                f = S.SeparableSum(fs[0], len(fs))
            else:
                f = S.SeparableSum(*fs)
            if f.domain != space:
                raise HarnessError('separable sum domain differs')
            return f.proximal, f
        _, h = build_odl(fd['f'], space, mode, rsp)
        # 'via' == 'class': the documented class constructor instead of the
        # operator syntax / method (nonzero scalars only)
        cls = fd.get('via') == 'class'
        if t == 'translated':
            y = flat.unflat(vec(fd['y'], n), space)
            f = S.FunctionalTranslation(h, y) if cls else h.translated(y)
        elif t == 'argscale':
            sc = fd['s']
            sc = (complex(sc['re'], sc['im']) if is_complex_scalar(sc)
                  else float(sc))
            f = S.FunctionalRightScalarMult(h, sc) if cls else h * sc
        elif t == 'leftscale':
            f = (S.FunctionalLeftScalarMult(h, float(fd['s'])) if cls
                 else float(fd['s']) * h)
        elif t == 'quadpert':
            u = fd.get('u')
            f = S.FunctionalQuadraticPerturb(
                h, quadratic_coeff=fd['a'],
                linear_term=(None if u is None else
                             flat.unflat(vec(u, n), space)),
                constant=fd.get('c', 0.0))
        elif t == 'addconst':
            f = (S.FunctionalScalarSum(h, float(fd['c'])) if cls
                 else h + float(fd['c']))
        elif t == 'conj':
            f = h.convex_conj
        elif t == 'bregman':
            href = build_ref(fd['f'], rsp)
            y = bregman_point(href, fd, n)
            sg = R.subgradient(href, y)
            pt = flat.unflat(y, space)
            sge = flat.unflat(sg, space)
            f = (h.bregman(pt, sge) if fd.get('via') == 'method'
                 else S.BregmanDistance(h, pt, sge))
        else:
            raise HarnessError('node {} not available in functional mode'
                               ''.format(t))
        return f.proximal, f
    # factory mode: the calculus rules of proximal_operators.py
    if t == 'sepsum':
        facs = [build_odl(p, sp, mode, rs)[0]
                for p, sp, rs in zip(fd['parts'], space.spaces, rsp.parts)]
        return PO.combine_proximals(*facs), None
    fac, _ = build_odl(fd['f'], space, mode, rsp)
    if t == 'translated':
        return PO.proximal_translation(
            fac, flat.unflat(vec(fd['y'], n), space)), None
    if t == 'argscale':
        s = fd['s']
        if is_complex_scalar(s):
            s = complex(s['re'], s['im'])
        elif isinstance(s, dict):
            s = flat.unflat(vec(s, n), space)
            form = fd.get('as', 'element')
            if form != 'element':
                # documented: "float or sequence of floats or space element"
                s = np.array(s.asarray())
                if form == 'list':
                    s = s.tolist()
        return PO.proximal_arg_scaling(fac, s), None
    if t == 'quadpert':
        u = fd.get('u')
        return PO.proximal_quadratic_perturbation(
            fac, a=fd['a'],
            u=None if u is None else flat.unflat(vec(u, n), space)), None
    if t == 'conj':
        return PO.proximal_convex_conj(fac), None
    if t == 'compose':
        op = fd['op']
        if op['kind'] == 'scaling':
            L = odl.ScalingOperator(space, float(op['s']))
            mu = float(op['s']) ** 2
        else:
            L = odl.MatrixOperator(_orth(n, op['seed'], op['c'], rsp.dtype),
                                   domain=space, range=space)
            mu = float(op['c']) ** 2
        return PO.proximal_composition(fac, L, mu), None
    raise HarnessError('node {} not available in factory mode'.format(t))


# --------------------------------------------------------------------------
# space strategies (plain descriptors, see vlib/build.py)

LEAF_SHAPES_TINY = [[1], [2], [3], [4], [2, 2], [1, 3], [2, 1]]
LEAF_SHAPES_SMALL = [[5], [6], [7], [8], [3, 2], [2, 3], [2, 2, 2], [12],
                     [4, 3], [24], [5, 4]]
LEAF_SHAPES_MED = [[30], [6, 5], [64], [10, 10], [4, 5, 3]]
DISCR_SHAPES = [[2], [3], [4], [5], [8], [2, 2], [3, 2], [2, 3], [4, 3],
                [12], [6, 5], [2, 2, 2]]


@st.composite
def _weighting(draw, shape, kinds):
    kind = draw(st.sampled_from(list(kinds)))
    if kind == 'none':
        return None
    if kind == 'const':
        return {'type': 'const',
                'value': draw(st.sampled_from([2.0, 0.5, 1.5, 7.0, 0.1,
                                               3.0]))}
    size = int(np.prod(shape, dtype=int))
    if size <= EXPLICIT:
        vals = draw(st.lists(st.one_of(st.sampled_from(POS_PALETTE),
                                       st.floats(0.1, 5.0).map(_r32)),
                             min_size=size, max_size=size))
    else:
        rng = np.random.RandomState(draw(st.integers(0, 2 ** 31 - 1)))
        vals = [float(v) for v in np.round(rng.uniform(0.2, 3.0, size), 3)]
    return {'type': 'array',
            'data': np.asarray(vals).reshape(shape).tolist()}


LEAF_KINDS = ('rn', 'rn_const', 'rn_array', 'discr', 'rn32', 'discr32')
# complex leaves of the fixed sweep (entries with ``complex_ok`` only):
# complex128 with unit / array weighting, complex128 discretizations,
# complex64 (unit / const); the random part adds const-weighted complex128
CPLX_LEAF_KINDS = ('cn', 'cn_array', 'cdiscr', 'cn64')
# weights of the kinds in the random part (float32 about one case in six)
LEAF_KINDS_RANDOM = ('rn', 'rn_const', 'rn_array', 'discr') * 3 + \
    ('rn32', 'rn32', 'discr32')
# ... and for entries that admit complex spaces (complex about one in five)
LEAF_KINDS_RANDOM_CPLX = LEAF_KINDS_RANDOM + ('cn', 'cn_const', 'cn_array',
                                              'cdiscr')
_KIND_DTYPE = {'rn32': 'float32', 'discr32': 'float32', 'cn': 'complex128',
               'cn_const': 'complex128', 'cn_array': 'complex128',
               'cdiscr': 'complex128', 'cn64': 'complex64'}
_KIND_BASE = {'rn32': None, 'discr32': 'discr', 'cn': 'rn',
              'cn_const': 'rn_const', 'cn_array': 'rn_array',
              'cdiscr': 'discr', 'cn64': None}


def leaf_kinds_random(e):
    return LEAF_KINDS_RANDOM_CPLX if e.complex_ok else LEAF_KINDS_RANDOM


def is_complex_dtype(dt):
    return str(dt).startswith('complex')


@st.composite
def leaf_spaces(draw, sizes=('tiny', 'small', 'medium'),
                kinds=LEAF_KINDS_RANDOM, dtype=None):
    """Leaf space descriptor.  ``kinds``: rn / rn_const / rn_array / discr
    (float64 unless ``dtype`` says otherwise), rn32 / discr32 (float32,
    weighting none or const), cn / cn_const / cn_array / cdiscr
    (complex128), cn64 (complex64, weighting none or const).  ``dtype``
    forces the dtype (all leaves of a product space share one)."""
    kind = draw(st.sampled_from(list(kinds)))
    dt = dtype or _KIND_DTYPE.get(kind, 'float64')
    if kind in _KIND_BASE:
        kind = _KIND_BASE[kind] or draw(st.sampled_from(['rn', 'rn_const']))
    size = draw(st.sampled_from(list(sizes)))
    if kind == 'discr':
        pool = {'tiny': [s for s in DISCR_SHAPES if np.prod(s) <= 4],
                'small': [s for s in DISCR_SHAPES if 4 < np.prod(s) <= 24],
                'medium': [[30], [6, 5], [8, 8]]}[size]
        shape = draw(st.sampled_from(pool))
        mins, maxs = [], []
        for n in shape:
            lo = draw(st.sampled_from([0.0, -1.0, 1.0, 2.0, -0.5]))
            ext = draw(st.sampled_from([float(n), 1.0, 2.0, 0.5, 3.0,
                                        float(n - 1) if n > 1 else 1.0]))
            mins.append(lo)
            maxs.append(lo + ext)
        style = draw(st.sampled_from(['false', 'false', 'true', 'per_side']))
        if style == 'false':
            nob = False
        elif style == 'true':
            nob = True
        else:
            nob = [[draw(st.booleans()), draw(st.booleans())]
                   for _ in shape]
        return {'kind': 'discr', 'min': mins, 'max': maxs,
                'shape': list(shape), 'dtype': dt, 'exponent': 2.0,
                'nodes_on_bdry': nob, 'weighting': None}
    pool = {'tiny': LEAF_SHAPES_TINY, 'small': LEAF_SHAPES_SMALL,
            'medium': LEAF_SHAPES_MED}[size]
    shape = draw(st.sampled_from(pool))
    wk = {'rn': 'none', 'rn_const': 'const', 'rn_array': 'array'}[kind]
    return {'kind': 'tensor', 'shape': list(shape), 'dtype': dt,
            'weighting': draw(_weighting(shape, (wk,))), 'exponent': 2.0}


def dtype_of(sd):
    if sd['kind'] == 'pspace':
        return dtype_of(sd['base'] if sd.get('power') is not None
                        else sd['parts'][0])
    return sd.get('dtype', 'float64')


@st.composite
def _pweight(draw, n, kinds=('none', 'none', 'const', 'array')):
    kind = draw(st.sampled_from(list(kinds)))
    if kind == 'none':
        return None
    if kind == 'const':
        return {'type': 'const',
                'value': draw(st.sampled_from([2.0, 0.5, 3.0, 0.25]))}
    return {'type': 'array',
            'data': draw(st.lists(st.sampled_from(POS_PALETTE), min_size=n,
                                  max_size=n))}


@st.composite
def power_spaces(draw, sizes=('tiny', 'small'), dtype=None):
    base = draw(leaf_spaces(sizes=sizes, dtype=dtype))
    bsz = int(np.prod(base['shape'], dtype=int))
    n = draw(st.sampled_from([1, 2, 2, 3] if bsz <= 12 else [1, 2]))
    return {'kind': 'pspace', 'base': base, 'power': n,
            'weighting': draw(_pweight(n)), 'exponent': 2.0}


@st.composite
def general_spaces(draw, dtype=None, first_kinds=None):
    n = draw(st.sampled_from([2, 2, 3]))
    style = draw(st.sampled_from(['flat', 'flat', 'nested']))
    first = draw(leaf_spaces(sizes=('tiny', 'small'), dtype=dtype,
                             kinds=first_kinds or LEAF_KINDS_RANDOM))
    dtype = first['dtype']
    parts = [first] + [draw(leaf_spaces(sizes=('tiny', 'small'),
                                        dtype=dtype))
                       for i in range(n - 1)]
    if style == 'nested':
        inner = draw(power_spaces(sizes=('tiny',), dtype=dtype))
        parts[draw(st.integers(1, n - 1))] = inner
    return {'kind': 'pspace', 'parts': parts, 'power': None,
            'weighting': draw(_pweight(n)), 'exponent': 2.0}


@st.composite
def matrix_spaces(draw, dtype=None, kinds=None):
    base = draw(leaf_spaces(sizes=('tiny',), dtype=dtype,
                            kinds=kinds or LEAF_KINDS_RANDOM))
    n, m = draw(st.sampled_from([(2, 2), (2, 2), (3, 2), (2, 1), (1, 1),
                                 (3, 3), (2, 3), (1, 2)]))
    inner = {'kind': 'pspace', 'base': base, 'power': m, 'weighting': None,
             'exponent': 2.0}
    return {'kind': 'pspace', 'base': inner, 'power': n, 'weighting': None,
            'exponent': 2.0}


def space_for_kind(kind, sizes=('tiny', 'small', 'medium')):
    if kind == 'T':
        return leaf_spaces(sizes=sizes)
    if kind == 'P':
        return power_spaces(sizes=tuple(s for s in sizes if s != 'medium')
                            or ('tiny',))
    if kind == 'G':
        return general_spaces()
    if kind == 'M':
        return matrix_spaces()
    raise HarnessError(kind)


def space_kind_of(sd):
    if sd['kind'] != 'pspace':
        return 'T'
    rsp = R.RSpace(sd)
    if rsp.is_power and rsp.parts[0].parts is None:
        return 'P'
    return 'G'
