"""One runner for all checks.

./check Cxx --tier quick|thorough [--jobs N] [--budget N]
./check Cxx --replay path.json

Exit codes: 0 property held on everything explored (KNOWN-FINDING lines
possible), 1 at least one violation that known_findings.json does not list
(one ``VIOLATION property=<id> replay=<path>`` line per root cause), 2 harness
error / inconclusive.
"""
import argparse
import collections
import fnmatch
import glob
import importlib
import json
import os
import random
import sys
import time
import traceback

from . import core
from .core import Violation, HarnessError, Outcome

CHECK_MODULES = {
    'C01': 'checks.c01_arith', 'C02': 'checks.c02_norms',
    'C03': 'checks.c03_opcall', 'C04': 'checks.c04_opalgebra',
    'C05': 'checks.c05_adjoint', 'C06': 'checks.c06_derivative',
    'C07': 'checks.c07_prox', 'C08': 'checks.c08_conj',
    'C09': 'checks.c09_gradient', 'C10': 'checks.c10_alias',
    'C11': 'checks.c11_solver_equiv', 'C12': 'checks.c12_solver_conv',
    'C13': 'checks.c13_findiff', 'C14': 'checks.c14_partition',
    'C15': 'checks.c15_interp', 'C16': 'checks.c16_resize',
    'C17': 'checks.c17_ufuncs', 'C18': 'checks.c18_trafos',
    'C19': 'checks.c19_geometry', 'C20': 'checks.c20_sets',
}

MAX_SAMPLES = 8


# --------------------------------------------------------------------------
# known findings

def load_known(prop):
    out = []
    paths = [os.path.join(core.VERIF_DIR, 'known_findings.json')]
    # per-property fragments (same format) are merged in; convenient while
    # several checks are being developed side by side
    paths += sorted(glob.glob(os.path.join(core.VERIF_DIR,
                                           'known_findings.d', '*.json')))
    for path in paths:
        if not os.path.exists(path):
            continue
        with open(path) as f:
            data = json.load(f)
        out += [e for e in data.get('findings', [])
                if e.get('property') == prop]
    return out


def match_known(sig, known):
    """Return the ``known`` (status == 'known') entry listing ``sig``."""
    for e in known:
        if e.get('status') != 'known':
            continue
        for pat in e.get('signatures', []):
            if fnmatch.fnmatchcase(sig, pat):
                return e
    return None


# --------------------------------------------------------------------------
# executing one case

class CaseResult(object):
    __slots__ = ('kind', 'outcome', 'signature', 'detail')

    def __init__(self, kind, outcome=None, signature=None, detail=None):
        self.kind = kind          # 'ok' | 'violation' | 'harness'
        self.outcome = outcome
        self.signature = signature
        self.detail = detail


def execute(mod, desc):
    """Run one case; classify everything that can happen."""
    import numpy as np
    h = core.case_hash(desc)
    np.random.seed(int(h[:8], 16))
    try:
        with np.errstate(all='ignore'):
            out = mod.run_case(core.decode(desc))
        if out is None:
            out = Outcome()
        return CaseResult('ok', outcome=out)
    except Violation as v:
        return CaseResult('violation', signature=v.signature,
                          detail=v.detail)
    except HarnessError as e:
        return CaseResult('harness', detail='HarnessError: {}'.format(e))
    except (KeyboardInterrupt, SystemExit):
        raise
    except BaseException as e:  # noqa
        where, sig = core.crash_signature(mod.PROPERTY, e)
        tb = ''.join(traceback.format_exception(type(e), e, e.__traceback__))
        if where == 'odl':
            return CaseResult('violation', signature=sig,
                              detail=tb[-1500:])
        return CaseResult('harness', detail=tb[-3000:])


# --------------------------------------------------------------------------
# worker

class Stats(object):
    def __init__(self):
        self.evaluations = 0
        self.nontrivial = set()
        self.status = collections.Counter()
        self.strata = collections.Counter()
        self.violations = {}     # sig -> (size, desc, detail, count)
        self.harness = []
        self.samples = {}        # stratum -> desc
        self.notes = collections.Counter()

    def add(self, desc, res):
        self.evaluations += 1
        if res.kind == 'harness':
            if len(self.harness) < 3:
                self.harness.append((desc, res.detail))
            self.status['harness_error'] += 1
            return
        if res.kind == 'violation':
            self.status['violation'] += 1
            size = len(core.canonical_json(desc))
            old = self.violations.get(res.signature)
            cnt = (old[3] if old else 0) + 1
            if old is None or size < old[0]:
                self.violations[res.signature] = (size, desc, res.detail, cnt)
            else:
                self.violations[res.signature] = old[:3] + (cnt,)
            return
        out = res.outcome
        self.status[out.status] += 1
        for s in out.strata:
            self.strata[s] += 1
        for k, v in out.notes.items():
            self.notes[k] += v
        if out.nontrivial:
            self.nontrivial.add(core.case_hash(desc))
        key = out.strata[0] if out.strata else out.status
        if out.status == 'ok' and key not in self.samples \
                and len(self.samples) < 64:
            if len(core.canonical_json(desc)) < 4000:
                self.samples[key] = desc

    def merge(self, other):
        self.evaluations += other.evaluations
        self.nontrivial |= other.nontrivial
        self.status.update(other.status)
        self.strata.update(other.strata)
        self.notes.update(other.notes)
        self.harness.extend(other.harness)
        for sig, (size, desc, detail, cnt) in other.violations.items():
            old = self.violations.get(sig)
            if old is None:
                self.violations[sig] = (size, desc, detail, cnt)
            elif size < old[0]:
                self.violations[sig] = (size, desc, detail, cnt + old[3])
            else:
                self.violations[sig] = old[:3] + (cnt + old[3],)
        for k, v in other.samples.items():
            self.samples.setdefault(k, v)


def _hyp_settings(n, shrink=False):
    from hypothesis import settings, HealthCheck, Phase
    phases = [Phase.generate] + ([Phase.shrink] if shrink else [])
    return settings(max_examples=n, database=None, deadline=None,
                    report_multiple_bugs=False, phases=phases,
                    suppress_health_check=list(HealthCheck),
                    derandomize=False)


_STOP = None          # multiprocessing.Event: set when --fast-fail hits
_KNOWN = []


_COV = None


def _cov_start():
    """Developer mode (tools/covmap.py): VERIF_COV=<data file prefix> records
    which lines of the odl tree the generated cases execute. Off by default;
    never used by a registered command."""
    global _COV
    if not os.environ.get('VERIF_COV') or _COV is not None:
        return
    import coverage
    _COV = coverage.Coverage(
        data_file=os.environ['VERIF_COV'], data_suffix=True,
        include=[os.path.join(core.odl_root(), 'odl', '*')])
    _COV.start()


def _cov_save():
    if _COV is not None:
        _COV.stop()
        _COV.save()
        _COV.start()


def _init_worker(stop, known):
    global _STOP, _KNOWN
    _STOP, _KNOWN = stop, known
    _cov_start()


class _CaseTimeout(BaseException):
    pass


def _alarm(signum, frame):
    raise _CaseTimeout()


def execute_guarded(mod, desc, limit):
    """`execute` under a per-case safety timer. A timeout is inconclusive
    (harness matter, exit 2), never a violation."""
    import signal
    if limit <= 0 or not hasattr(signal, 'SIGALRM'):
        return execute(mod, desc)
    old = signal.signal(signal.SIGALRM, _alarm)
    signal.alarm(int(limit))
    try:
        return execute(mod, desc)
    except _CaseTimeout:
        return CaseResult('harness', detail='case exceeded the safety '
                          'timeout of {} s (inconclusive)'.format(limit))
    finally:
        signal.alarm(0)
        signal.signal(signal.SIGALRM, old)


def _worker(args):
    modname, tier, kind, payload, seed = args
    try:
        import hypothesis
        from hypothesis import given
        core.import_odl()
        mod = importlib.import_module(modname)
        stats = Stats()
        limit = int(os.environ.get('VERIF_CASE_TIMEOUT', '0') or 0) or \
            getattr(mod, 'CASE_TIMEOUT', {}).get(tier, 600)

        def one(desc):
            if _STOP is not None and _STOP.is_set():
                return
            res = execute_guarded(mod, desc, limit)
            stats.add(desc, res)
            if _STOP is not None and res.kind == 'violation' and \
                    match_known(res.signature, _KNOWN) is None:
                _STOP.set()

        if kind == 'enum':
            for desc in payload:
                one(desc)
        else:
            n = payload
            strat = mod.strategy(tier)

            @hypothesis.seed(seed)
            @_hyp_settings(n)
            @given(strat)
            def test(desc):
                one(desc)

            test()
        _cov_save()
        return stats
    except BaseException:  # noqa
        s = Stats()
        s.harness.append((None, traceback.format_exc()[-3000:]))
        return s


def shrink(mod, tier, seed, n, signature, fallback, max_calls):
    """Shrink with Hypothesis: re-generate with the same seed, fail only for
    ``signature``; bounded by ``max_calls`` executions after the first hit."""
    import hypothesis
    from hypothesis import given
    state = {'calls': 0, 'best': None}

    strat = mod.strategy(tier)

    @hypothesis.seed(seed)
    @_hyp_settings(n, shrink=True)
    @given(strat)
    def test(desc):
        if state['best'] is not None and state['calls'] >= max_calls:
            return
        res = execute(mod, desc)
        if state['best'] is not None:
            state['calls'] += 1
        if res.kind == 'violation' and res.signature == signature:
            size = len(core.canonical_json(desc))
            if state['best'] is None or size <= state['best'][0]:
                state['best'] = (size, desc, res.detail)
            raise AssertionError('hit')

    try:
        test()
    except BaseException:  # noqa
        pass
    if state['best'] is None:
        return fallback
    return state['best'][1], state['best'][2]


# --------------------------------------------------------------------------
# main

def write_replay(prop, sig, desc, detail, tier, seed):
    import hashlib
    outdir = os.path.join(core.VERIF_DIR, 'replays', 'out')
    os.makedirs(outdir, exist_ok=True)
    sig8 = hashlib.sha1(sig.encode()).hexdigest()[:8]
    path = os.path.join(outdir, '{}-{}.json'.format(prop, sig8))
    with open(path, 'w') as f:
        json.dump({'property': prop, 'signature': sig, 'detail': detail,
                   'tier': tier, 'seed': seed, 'desc': core._canon(desc)},
                  f, indent=1, sort_keys=True)
    return path


def validate_evidence(ev):
    schema_path = '/root/.vp/EVIDENCE.schema.json'
    local = os.path.join(core.VERIF_DIR, 'vlib', 'EVIDENCE.schema.json')
    if not os.path.exists(schema_path):
        schema_path = local
    try:
        import jsonschema
        with open(schema_path) as f:
            schema = json.load(f)
        jsonschema.validate(ev, schema)
    except ImportError:
        cov = ev['coverage']
        assert cov['evaluations'] >= 1 and cov['distinct_nontrivial'] >= 2
        assert isinstance(cov['rule'], str) and len(cov['samples']) >= 1


def run_replay(mod, path, known):
    with open(path) as f:
        data = json.load(f)
    desc = data['desc'] if 'desc' in data else data
    res = execute(mod, desc)
    prop = mod.PROPERTY
    if res.kind == 'harness':
        print('HARNESS-ERROR property={} replay={}\n{}'.format(
            prop, path, res.detail))
        return 2
    if res.kind == 'violation':
        e = match_known(res.signature, known)
        if e is not None:
            print('KNOWN-FINDING: property={} {} [{}]'.format(
                prop, e['what'], e['id']))
            return 0
        print('signature: {}\ndetail: {}'.format(res.signature, res.detail))
        print('VIOLATION property={} replay={}'.format(prop, path))
        return 1
    print('replay passes: property={} status={}'.format(
        prop, res.outcome.status))
    return 0


def main(argv=None):
    ap = argparse.ArgumentParser()
    ap.add_argument('prop')
    ap.add_argument('--tier', default=os.environ.get('VERIF_TIER', 'quick'),
                    choices=['quick', 'thorough'])
    ap.add_argument('--replay')
    ap.add_argument('--jobs', type=int,
                    default=int(os.environ.get('VERIF_JOBS', '0')) or None)
    ap.add_argument('--budget', type=int, default=None)
    ap.add_argument('--no-evidence', action='store_true')
    ap.add_argument('--fast-fail', action='store_true',
                    help='stop all workers at the first violation that is '
                         'not a known finding (mutant self-tests)')
    args = ap.parse_args(argv)

    t0 = time.time()
    prop = args.prop.upper()
    if prop not in CHECK_MODULES:
        print('HARNESS-ERROR unknown property {}'.format(prop))
        return 2
    seed = int(os.environ.get('VERIF_SEED', '1') or '1')
    sys.path.insert(0, core.VERIF_DIR)
    try:
        core.import_odl()
        mod = importlib.import_module(CHECK_MODULES[prop])
    except BaseException:  # noqa
        print('HARNESS-ERROR cannot import check/odl\n' +
              traceback.format_exc())
        return 2
    known = load_known(prop)

    if args.replay:
        return run_replay(mod, args.replay, known)

    tier = args.tier
    jobs = args.jobs or min(16, os.cpu_count() or 1)
    budget = args.budget or mod.BUDGET[tier]

    total = Stats()
    lines = []
    exit_code = 0
    new_violations = 0

    # ---- replay tier: committed regressions of confirmed findings --------
    reproduced = {}
    stale = []
    for path in sorted(glob.glob(os.path.join(
            core.VERIF_DIR, 'replays', 'regress', prop + '-*.json'))):
        with open(path) as f:
            data = json.load(f)
        res = execute(mod, data['desc'])
        total.status['regress_replays'] += 1
        rel = os.path.relpath(path, core.VERIF_DIR)
        if res.kind == 'harness':
            total.harness.append((data['desc'], res.detail))
        elif res.kind == 'violation':
            e = match_known(res.signature, known)
            if e is not None:
                reproduced[e['id']] = e
            else:
                new_violations += 1
                lines.append('regression replay fails: {} ({})'.format(
                    res.signature, res.detail[:300]))
                lines.append('VIOLATION property={} replay={}'.format(
                    prop, rel))
        else:
            if data.get('expect') == 'known':
                stale.append(rel)

    # ---- exhaustive sub-spaces + generated cases -------------------------
    tasks = []
    exhaustive_n = 0
    if hasattr(mod, 'enumerate_cases'):
        cases = list(mod.enumerate_cases(tier))
        exhaustive_n = len(cases)
        chunk = max(1, (len(cases) + jobs * 4 - 1) // (jobs * 4))
        for i in range(0, len(cases), chunk):
            tasks.append((CHECK_MODULES[prop], tier, 'enum',
                          cases[i:i + chunk], 0))
    per = (budget + jobs - 1) // jobs if budget > 0 else 0
    wseeds = []
    if per > 0:
        for k in range(jobs):
            ws = core.derive_seed(seed, prop, tier, k)
            wseeds.append(ws)
            tasks.append((CHECK_MODULES[prop], tier, 'hyp', per, ws))

    import multiprocessing as mp
    ctx = mp.get_context('fork')
    sig_origin = {}
    stop = ctx.Event() if args.fast_fail else None
    if jobs == 1:
        _init_worker(stop, known)
        results = [_worker(t) for t in tasks]
    else:
        with ctx.Pool(jobs, initializer=_init_worker,
                      initargs=(stop, known)) as pool:
            results = pool.map(_worker, tasks, chunksize=1)
    for t, st in zip(tasks, results):
        for sig in st.violations:
            if t[2] == 'hyp':
                sig_origin.setdefault(sig, (t[4], t[3]))
        total.merge(st)

    # ---- classify violations ---------------------------------------------
    excluded = collections.Counter()
    buckets = []
    for sig, (size, desc, detail, cnt) in sorted(total.violations.items()):
        e = match_known(sig, known)
        if e is not None:
            reproduced[e['id']] = e
            excluded[e['id']] += cnt
            continue
        new_violations += 1
        if sig in sig_origin and not args.fast_fail and \
                os.environ.get('VERIF_NO_SHRINK') != '1':
            ws, n = sig_origin[sig]
            desc, detail = shrink(
                mod, tier, ws, n, sig, (desc, detail),
                max_calls=150 if tier == 'quick' else 1500)
        path = write_replay(prop, sig, desc, detail, tier, seed)
        rel = os.path.relpath(path, core.VERIF_DIR)
        buckets.append({'signature': sig, 'count': cnt, 'replay': rel,
                        'detail': detail[:500]})
        lines.append('violation bucket: {} (x{})\n   {}'.format(
            sig, cnt, detail[:600].replace('\n', '\n   ')))
        lines.append('VIOLATION property={} replay={}'.format(prop, rel))

    for fid, e in sorted(reproduced.items()):
        lines.append('KNOWN-FINDING: property={} {} [{}]'.format(
            prop, e['what'], fid))

    if total.harness:
        exit_code = 2
        for desc, detail in total.harness[:3]:
            lines.append('HARNESS-ERROR property={}\n{}\ncase: {}'.format(
                prop, detail, core.canonical_json(desc)[:1500]
                if desc is not None else None))

    # required strata (a declared stratum that stays empty is a harness
    # error in the thorough tier, a warning in the quick tier)
    missing = [s for s in getattr(mod, 'REQUIRED_STRATA', [])
               if total.strata.get(s, 0) == 0]
    if missing:
        lines.append('{}: empty declared strata: {}'.format(
            'HARNESS-ERROR' if tier == 'thorough' else 'warning', missing))
        if tier == 'thorough':
            exit_code = 2

    if new_violations:
        exit_code = 1 if exit_code == 0 else exit_code

    # ---- evidence ---------------------------------------------------------
    wall = time.time() - t0
    samples = [total.samples[k] for k in sorted(total.samples)][:MAX_SAMPLES]
    ev = {
        'property_id': prop, 'tier': tier, 'seed': seed,
        'level': 'exploration',
        'coverage': {
            'evaluations': total.evaluations,
            'distinct_nontrivial': len(total.nontrivial),
            'rule': mod.RULE,
            'samples': [core._canon(s) for s in samples],
            'generated_cases': total.evaluations - exhaustive_n,
            'exhaustive_subspace_cases': exhaustive_n,
            'exhaustive_subspaces': getattr(mod, 'EXHAUSTIVE', {}).get(
                tier, []) if exhaustive_n else [],
            'status_counts': dict(total.status),
            'strata': dict(sorted(total.strata.items())),
            'notes': dict(sorted(total.notes.items())),
            'excluded_known_finding_hits': dict(excluded),
            'known_findings_reproduced': sorted(reproduced),
            'known_findings_stale_replays': stale,
            'violation_buckets': buckets,
            'tolerances': getattr(mod, 'TOLERANCES', {}),
            'jobs': jobs,
            'odl_path': core.odl_root(),
        },
        'assumptions': list(getattr(mod, 'ASSUMPTIONS', [])),
        'wall_s': round(wall, 2),
        'violations': new_violations,
    }
    if not args.no_evidence:
        try:
            if total.evaluations >= 1 and len(total.nontrivial) >= 2:
                validate_evidence(ev)
            else:
                lines.append('HARNESS-ERROR: too few non-trivial cases '
                             '({} of {})'.format(len(total.nontrivial),
                                                 total.evaluations))
                exit_code = exit_code or 2
            os.makedirs(os.path.join(core.VERIF_DIR, 'evidence'),
                        exist_ok=True)
            with open(os.path.join(core.VERIF_DIR, 'evidence',
                                   prop + '.json'), 'w') as f:
                json.dump(ev, f, indent=1, sort_keys=True)
        except BaseException:  # noqa
            lines.append('HARNESS-ERROR evidence invalid\n' +
                         traceback.format_exc()[-1500:])
            exit_code = 2

    print('{} tier={} seed={} cases={} nontrivial={} status={} wall={:.1f}s'
          ''.format(prop, tier, seed, total.evaluations,
                    len(total.nontrivial), dict(total.status), wall))
    for ln in lines:
        print(ln)
    sys.stdout.flush()
    return exit_code


if __name__ == '__main__':
    sys.exit(main())
