"""Functional catalogue for C08 / C09.

Descriptor -> (ODL functional, independent reference node, bookkeeping) and
the Hypothesis strategies that emit those descriptors.  The reference side
lives in ``vlib/ref/funcs_conj.py`` (NumPy only); this module is the only
place that knows how a functional descriptor maps to ODL constructor calls.

Functional descriptors (plain JSON, recursive)::

    {"cls": "L1Norm"}                     {"cls": "LpNorm", "p": 1.5}
    {"cls": "Huber", "gamma": 0.5}        {"cls": "KL", "prior": null|[..]}
    {"cls": "QuadraticForm", "op": null|{"kind": "scaling", "s": 2.0}|
         {"kind": "matrix", "M": [[..]]}|{"kind": "multiply", "v": [..]},
     "vector": null|[..], "constant": 1.0}
    {"cls": "leftscal", "s": 2.0, "f": <fd>}   {"cls": "rightscal", ...}
    {"cls": "rightvec", "v": [..], "f": <fd>}  {"cls": "scalarsum", "c": ..}
    {"cls": "translated", "t": [..], "f": <fd>}
    {"cls": "quadperturb", "a": 0.0, "u": null|[..], "c": 0.0, "f": <fd>}
    {"cls": "infconv", "f": <fd>, "g": <fd>}   {"cls": "sum", ...}
    {"cls": "bregman", "f": <fd>, "point": [..], "subgrad": "grad"|"ref"}
    {"cls": "sepsum", "parts": [<fd>, ...]}    # space = pspace of the parts
    {"cls": "sepsum_power", "f": <fd>, "n": 2} # space = power space
    {"cls": "comp", "f": <fd>, "op": <opdesc>} # space = domain of the op
    {"cls": "product"|"quotient", "f": <fd>, "g": <fd>}
    {"cls": "moreau", "f": <fd>, "sigma": 0.5}

All vectors are flat lists in the real-ified layout of ``vlib.flat``.
"""
import numpy as np
from hypothesis import strategies as st

from . import build, flat
from .core import HarnessError
from .ref import funcs_conj as R

odl = build.odl
S = odl.solvers
from odl.solvers.functional import default_functionals as DF  # noqa: E402
INF = float('inf')


class Rejected(Exception):
    """ODL refused the construction in a documented way."""


class BuildCrash(Exception):
    """A derived functional could not be constructed because evaluating a
    part failed inside ODL; carries the part so that the check can name the
    root cause (and recognise known regions)."""

    def __init__(self, built, exc):
        Exception.__init__(self, '{}: {}'.format(type(exc).__name__, exc))
        self.built = built
        self.exc = exc


# --------------------------------------------------------------------------
# spaces

def build_space(sd):
    if sd['kind'] == 'field':
        return odl.RealNumbers()
    return build.build_space(sd)


def space_dim(sd):
    if sd['kind'] == 'field':
        return 1
    return sum(build.space_size(l) for l in build.leaf_descs(sd))


def weights_of(space):
    """Diagonal of the Gram matrix through the library's own inner product
    (pinned independently by C02)."""
    n = flat.rdim(space)
    eye = np.eye(n)
    w = np.empty(n)
    for k in range(n):
        e = flat.unflat(eye[k], space)
        w[k] = float(np.real(flat.sinner(space, e, e)))
    return w


def wkind(w):
    w = np.asarray(w, float)
    if w.size == 0 or np.all(w == 1.0):
        return 'unit'
    if np.all(w == w.flat[0]):
        return 'const'
    return 'array'


def wtype(sd):
    """Weighting *type* read from the descriptor (root-cause key material:
    array weightings behave differently from constants whatever their
    values are)."""
    k = sd['kind']
    if k == 'field':
        return 'none'
    if k == 'tensor':
        w = sd.get('weighting')
        return 'none' if w is None else w['type']
    if k == 'discr':
        nob = sd.get('nodes_on_bdry', False)
        return 'discr-bdry' if (nob is not False and nob != []) else 'discr'
    kinds = sorted(set(wtype(l) for l in build.leaf_descs(sd)))
    inner = '+'.join(kinds)
    pw = sd.get('weighting')
    return 'p{}({})'.format('' if pw is None else '-' + pw['type'], inner)


def wcoarse(sd):
    """Coarse weighting class for signatures: none / const (constant or
    cell-volume weights only) / array (array weighting or boundary-node
    fractions somewhere), plus the kind of product-space weighting."""
    kinds = set(wtype(l) for l in build.leaf_descs(sd)) \
        if sd['kind'] != 'field' else {'none'}
    if kinds & {'array', 'discr-bdry'}:
        w = 'array'
    elif kinds & {'const', 'discr'}:
        w = 'const'
    else:
        w = 'none'
    pw = set()

    def rec(d):
        if d['kind'] == 'pspace':
            if d.get('weighting') is not None:
                pw.add(d['weighting']['type'])
            for p in build.space_parts(d):
                rec(p)
    rec(sd)
    if pw:
        w += ',pw=' + '+'.join(sorted(pw))
    return w


def _pspace_comp_w(sd, m):
    wd = sd.get('weighting')
    if wd is None:
        return np.ones(m)
    if wd['type'] == 'const':
        return np.full(m, float(wd['value']))
    return np.asarray(wd['data'], float)


def geo_of(space, sd):
    """Reference geometry of ``space`` (built from ``sd``)."""
    if sd['kind'] == 'field':
        return R.Geo(np.ones(1))
    w = weights_of(space)
    if sd['kind'] == 'pspace' and sd.get('power') is not None:
        base = sd['base']
        m = int(sd['power'])
        if base['kind'] != 'pspace':
            bw = weights_of(space[0])
            cw = _pspace_comp_w(sd, m)
            exp = (cw[:, None] * bw[None, :]).ravel()
            if not np.allclose(exp, w, rtol=1e-5, atol=0):
                raise HarnessError('power-space weights do not factorise')
            return R.Geo(w, power=(m, bw.size), comp_w=cw, base_w=bw)
        if base.get('power') is not None and \
                base['base']['kind'] != 'pspace' and \
                sd.get('weighting') is None and \
                base.get('weighting') is None:
            bw = weights_of(space[0][0])
            return R.Geo(w, matrix=(m, int(base['power']), bw.size),
                         base_w=bw)
    if sd['kind'] == 'pspace':
        parts, off = [], 0
        for i, p in enumerate(build.space_parts(sd)):
            g = geo_of(space[i], p)
            parts.append((off, g))
            off += g.n
        return R.Geo(w, parts=parts)
    return R.Geo(w)


def elem(space, v):
    """Element of ``space`` from a flat vector; returns (element, flat values
    as actually stored -- float32 spaces round)."""
    x = flat.unflat(np.asarray(v, float), space)
    return x, flat.flat(x, space)


def space_eps(space):
    dt = getattr(space, 'dtype', None)
    if dt is None:
        return np.finfo(float).eps
    try:
        return float(np.finfo(dt).eps)
    except ValueError:
        return np.finfo(float).eps


# --------------------------------------------------------------------------
# built functional

class Built(object):
    def __init__(self, f, ref, space, sd, geo, cls, children=(),
                 assemble=None, region=None, extra=None):
        self.f = f
        self.ref = ref
        self.space = space
        self.sd = sd
        self.geo = geo
        self.cls = cls
        self.children = list(children)
        self.assemble = assemble      # x element -> value from the parts
        self.region = region or {}    # signature region tags of this node
        self.extra = extra or {}

    def value(self, x):
        """Library value; functionals without ``_call`` (MoreauEnvelope and
        expressions over it) are assembled from their parts."""
        if self.cls == 'moreau' or (self.assemble is not None and any(
                n.cls == 'moreau' for n in self.nodes())):
            return self.assemble(x)
        return self.f(x)

    def leaves(self):
        if not self.children:
            return [self]
        out = []
        for c in self.children:
            out.extend(c.leaves())
        return out

    def nodes(self):
        out = [self]
        for c in self.children:
            out.extend(c.nodes())
        return out

    def depth(self):
        return 0 if not self.children else 1 + max(c.depth()
                                                   for c in self.children)

    def region_str(self):
        """Region tags of all nodes that can matter for a root cause (the
        ones the known-finding predicates look at); the full tags are
        counted as strata."""
        tags = []
        for n in self.nodes():
            for k in sorted(n.region):
                v = str(n.region[k])
                if suspect_tag(k, v):
                    t = '{}={}'.format(k, v)
                    if t not in tags:
                        tags.append(t)
        return ','.join(tags)


def suspect_tag(k, v):
    if k == 'huber':
        return 'array' in v or v.startswith('vec')
    if k == 'quad':
        return 'opvec' in v or 'nonsym' in v
    if k == 'qop':
        return 'matrix-warray' in v or 'matrix-wdiscr-bdry' in v
    if k == 'group':
        return '-cconst' in v or '-carray' in v or v.endswith('-barray')
    if k == 'nuc':
        return v == 'wide'
    if k == 'matop':
        return 'same=0' in v
    if k == 'gradop':
        return v == 'bdry=1'
    return True


def _vec(space, v):
    return flat.unflat(np.asarray(v, float), space)


def _flatv(space, x):
    return flat.flat(x, space)


def _opt_vec(space, v):
    if v is None:
        return None, None
    x = _vec(space, v)
    return x, _flatv(space, x)


def _bound(space, b):
    """IndicatorBox bound descriptor -> (odl arg, flat array or None)."""
    if b is None:
        return None, None
    if isinstance(b, (int, float)):
        return float(b), float(b)
    x = _vec(space, b)
    return x, _flatv(space, x)


def build_operator(space, sd, od):
    """Operator descriptor -> (op, range sd, info).  ``info`` carries a NumPy
    model where one is needed (sup-norm Lipschitz bound for kink margins)."""
    kind = od['kind']
    n = flat.rdim(space)
    if kind == 'scaling':
        return (odl.ScalingOperator(space, float(od['s'])), sd,
                {'lipinf': abs(float(od['s'])), 'linear': True})
    if kind == 'identity':
        return odl.IdentityOperator(space), sd, {'lipinf': 1.0,
                                                 'linear': True}
    if kind == 'multiply':
        v = _vec(space, od['v'])
        return (odl.MultiplyOperator(v), sd,
                {'lipinf': float(np.max(np.abs(od['v']))), 'linear': True})
    if kind == 'matrix':
        M = np.asarray(od['M'], float).astype(space.dtype)
        rsd = od.get('ran')
        if rsd is None:
            rsd, ran = sd, space
        else:
            ran = build_space(rsd)
        op = odl.MatrixOperator(M, domain=space, range=ran)
        return op, rsd, {'lipinf': float(np.abs(M).sum(axis=1).max()),
                         'linear': True, 'matrix': M}
    if kind == 'affine':
        # x -> s*x - v  (IdentityOperator arithmetic with a vector)
        v = _vec(space, od['v'])
        op = float(od['s']) * odl.IdentityOperator(space) - v
        return op, sd, {'lipinf': abs(float(od['s'])), 'linear': False}
    if kind == 'ufunc':
        name = od['name']
        op = getattr(odl.ufunc_ops, name)(space)
        return op, sd, {'lipinf': None, 'linear': False}
    if kind == 'power':
        op = odl.PowerOperator(space, float(od['p']))
        return op, sd, {'lipinf': None, 'linear': False}
    if kind == 'ufunc_matrix':
        # ufunc after a square matrix (chain rule through two derivatives)
        M = np.asarray(od['M'], float).astype(space.dtype)
        A = odl.MatrixOperator(M, domain=space, range=space)
        op = getattr(odl.ufunc_ops, od['name'])(space) * A
        return op, sd, {'lipinf': None, 'linear': False}
    if kind == 'gradient':
        op = odl.Gradient(space, pad_mode=od.get('pad_mode', 'constant'))
        nd = len(sd['shape'])
        rsd = {'kind': 'pspace', 'base': sd, 'power': nd, 'weighting': None,
               'exponent': 2.0}
        return op, rsd, {'lipinf': None, 'linear': True}
    raise HarnessError('unknown operator descriptor {!r}'.format(od))


def build_func(space, sd, fd, geo=None):
    """Functional descriptor -> Built (recursively)."""
    cls = fd['cls']
    if geo is None:
        geo = geo_of(space, sd)
    n = geo.n

    def leaf(f, ref, region=None, extra=None):
        return Built(f, ref, space, sd, geo, cls, region=region, extra=extra)

    # ---- leaves ----------------------------------------------------------
    if cls == 'L1Norm':
        return leaf(S.L1Norm(space), R.LpNorm(geo, 1, fd.get('fill', 0.0)))
    if cls == 'L2Norm':
        return leaf(S.L2Norm(space), R.LpNorm(geo, 2))
    if cls == 'LpNorm':
        p = float(fd['p'])
        return leaf(S.LpNorm(space, p), R.LpNorm(geo, p,
                                                 fd.get('fill', 0.0)))
    if cls == 'L2NormSquared':
        return leaf(S.L2NormSquared(space), R.L2NormSquared(geo))
    if cls == 'Huber':
        return leaf(S.Huber(space, float(fd['gamma'])),
                    R.Huber(geo, float(fd['gamma']), fd.get('fill', 0.0)),
                    region={'huber': ('vec' if geo.power is not None
                                      else 'scal') + '-w' + wtype(sd)})
    if cls in ('KL', 'KLConj', 'KLCE', 'KLCEConj'):
        prior, pflat = _opt_vec(space, fd.get('prior'))
        oc = {'KL': S.KullbackLeibler,
              'KLConj': DF.KullbackLeiblerConvexConj,
              'KLCE': S.KullbackLeiblerCrossEntropy,
              'KLCEConj': DF.KullbackLeiblerCrossEntropyConvexConj}[cls]
        rc = {'KL': R.KullbackLeibler, 'KLConj': R.KLConvexConj,
              'KLCE': R.KullbackLeiblerCrossEntropy,
              'KLCEConj': R.KLCrossEntropyConvexConj}[cls]
        region = {}
        if pflat is not None and np.any(pflat == 0):
            region['prior'] = 'zeros'
        extra = {}
        if prior is not None:
            extra = {'params': {'prior': prior},
                     'remake': lambda P: oc(space, P['prior'])}
        return leaf(oc(space, prior), rc(geo, pflat), region=region,
                    extra=extra)
    if cls == 'IndicatorBox':
        lo, lof = _bound(space, fd.get('lower'))
        hi, hif = _bound(space, fd.get('upper'))
        params = {k: v for k, v in (('lower', lo), ('upper', hi))
                  if v is not None and not isinstance(v, float)}
        extra = {}
        if params:
            extra = {'params': params,
                     'remake': lambda P: S.IndicatorBox(
                         space, P.get('lower', lo), P.get('upper', hi))}
        return leaf(S.IndicatorBox(space, lo, hi),
                    R.IndicatorBox(geo, lof, hif), extra=extra)
    if cls == 'IndicatorNonnegativity':
        return leaf(S.IndicatorNonnegativity(space),
                    R.IndicatorBox(geo, 0.0, None))
    if cls == 'IndicatorLpUnitBall':
        p = float(fd['p'])
        return leaf(S.IndicatorLpUnitBall(space, p),
                    R.IndicatorLpUnitBall(geo, p))
    if cls == 'IndicatorZero':
        c = float(fd.get('constant', 0.0))
        return leaf(S.IndicatorZero(space, c), R.IndicatorZero(geo, c))
    if cls == 'Constant':
        c = float(fd['constant'])
        return leaf(S.ConstantFunctional(space, c), R.Constant(geo, c))
    if cls == 'Zero':
        return leaf(S.ZeroFunctional(space), R.Constant(geo, 0.0))
    if cls == 'IndicatorSimplex':
        return leaf(S.IndicatorSimplex(space, float(fd.get('diameter', 1))),
                    None)
    if cls == 'IndicatorSumConstraint':
        return leaf(S.IndicatorSumConstraint(space,
                                             float(fd.get('sum_value', 1))),
                    None)
    if cls in ('Scaling', 'Identity'):
        if cls == 'Identity':
            f = S.IdentityFunctional(space)
            s = 1.0
        else:
            s = float(fd['s'])
            f = S.ScalingFunctional(space, s)
        ref = R.QuadraticForm(geo, None, np.array([s]), 0.0)
        return leaf(f, ref)
    if cls == 'LinearForm':
        # the genuinely linear functional x -> <v, x>
        vec_, vflat = _opt_vec(space, fd['vector'])
        return leaf(S.QuadraticForm(vector=vec_),
                    R.QuadraticForm(geo, None, vflat, 0.0),
                    region={'quad': 'vec'},
                    extra={'params': {'vector': vec_},
                           'remake': lambda P: S.QuadraticForm(
                               vector=P['vector'])})
    if cls == 'QuadraticForm':
        od = fd.get('op')
        vec, vflat = _opt_vec(space, fd.get('vector'))
        c = float(fd.get('constant', 0.0))
        region = {}
        A = None
        op = None
        if od is not None:
            op, _, info = build_operator(space, sd, od)
            if od['kind'] == 'scaling':
                A = float(od['s']) * np.eye(n)
            elif od['kind'] == 'multiply':
                A = np.diag(np.asarray(od['v'], float))
            elif od['kind'] == 'matrix':
                A = np.asarray(od['M'], float)
            else:
                raise HarnessError('bad QuadraticForm operator')
            Wm = np.diag(geo.w)
            selfadj = bool(np.allclose(Wm @ A, (Wm @ A).T, rtol=1e-12,
                                       atol=1e-12))
            qk = 'op' + ('vec' if vec is not None else '') + \
                ('' if selfadj else '-nonsym')
            region['quad'] = qk
            region['qop'] = od['kind'] + '-w' + wtype(sd)
        else:
            region['quad'] = 'vec'
        f = S.QuadraticForm(operator=op, vector=vec, constant=c)
        extra = {}
        if vec is not None:
            extra = {'params': {'vector': vec},
                     'remake': lambda P: S.QuadraticForm(
                         operator=op, vector=P['vector'], constant=c)}
        return leaf(f, R.QuadraticForm(geo, A, vflat, c), region=region,
                    extra=extra)
    if cls == 'GroupL1Norm':
        p = float(fd['p'])
        return leaf(S.GroupL1Norm(space, p),
                    R.GroupL1Norm(geo, p, fd.get('fill', 0.0)),
                    region={'group': 'p{}-c{}-b{}'.format(
                        fd['p'], wkind(geo.comp_w), wtype(sd['base']))})
    if cls == 'IndicatorGroupL1UnitBall':
        p = float(fd['p'])
        return leaf(S.IndicatorGroupL1UnitBall(space, p),
                    R.IndicatorGroupL1UnitBall(geo, p),
                    region={'group': 'p{}-c{}'.format(
                        fd['p'], wkind(geo.comp_w))})
    if cls in ('NuclearNorm', 'IndicatorNuclearNormUnitBall'):
        m1, m2, _ = geo.matrix
        region = {'nuc': 'wide' if m1 < m2 else 'tall-or-square'}
        oc = (S.NuclearNorm if cls == 'NuclearNorm'
              else S.IndicatorNuclearNormUnitBall)
        rc = (R.NuclearNorm if cls == 'NuclearNorm'
              else R.IndicatorNuclearNormUnitBall)
        return leaf(oc(space, float(fd['outer']), float(fd['sing'])),
                    rc(geo, float(fd['outer']), float(fd['sing'])),
                    region=region)

    if cls == 'Simple':
        # simple_functional(...) wired from caller-supplied callables for
        # f(x) = a/2 |x|^2 + <b, x> + c and its conjugate
        # f*(y) = |y - b|^2 / (2a) - c  (norm / inner product of the space).
        # The callables are the harness' own; the library only has to hand
        # each of them out under the right name (value / gradient / proximal
        # of f resp. f*).
        from odl.solvers.functional.functional import simple_functional
        a = float(fd['a'])
        c0 = float(fd.get('c', 0.0))
        bvec, bflat = _opt_vec(space, fd.get('b'))
        b0 = space.zero() if bvec is None else bvec
        with_prox = bool(fd.get('with_prox', True))
        with_grad = bool(fd.get('with_grad', True))
        grad_op = bool(fd.get('grad_op', False))

        def fcall(x):
            return 0.5 * a * x.inner(x) + b0.inner(x) + c0

        def cfcall(y):
            d = y - b0
            return d.inner(d) / (2.0 * a) - c0

        def prox(sigma):
            s = float(sigma)
            return (odl.ScalingOperator(space, 1.0 / (1.0 + s * a)) *
                    (odl.IdentityOperator(space) - s * b0))

        def cprox(sigma):
            s = float(sigma)
            return (odl.ScalingOperator(space, 1.0 / (1.0 + s / a)) *
                    (odl.IdentityOperator(space) + (s / a) * b0))

        if grad_op:
            grad = a * odl.IdentityOperator(space) + b0
            cgrad = (1.0 / a) * (odl.IdentityOperator(space) - b0)
        else:
            def grad(x):
                return a * x + b0

            def cgrad(y):
                return (y - b0) / a
        f = simple_functional(
            space, fcall=fcall, grad=grad if with_grad else None,
            prox=prox if with_prox else None, grad_lip=a,
            convex_conj_fcall=cfcall,
            convex_conj_grad=cgrad if with_grad else None,
            convex_conj_prox=cprox if with_prox else None,
            convex_conj_grad_lip=1.0 / a)
        return leaf(f, R.QuadraticForm(geo, 0.5 * a * np.eye(n), bflat, c0),
                    region={'simple': 'prox={},grad={}'.format(
                        int(with_prox), ('op' if grad_op else 'fn')
                        if with_grad else 'none')})

    # ---- derived ---------------------------------------------------------
    def child(key='f'):
        return build_func(space, sd, fd[key], geo)

    def node(f, ref, children, assemble, region=None, extra=None):
        return Built(f, ref, space, sd, geo, cls, children=children,
                     assemble=assemble, region=region, extra=extra)

    def rv(b):
        return b.ref

    if cls == 'leftscal':
        c = child()
        s = float(fd['s'])
        if s == 0:
            # documented: (0 * f)(x) == 0 * f(x); only for f finite on the
            # whole space (0 * inf has no documented meaning)
            if rv(c) is None or rv(c).dom_residual(np.zeros(n)) is not None:
                raise Rejected('0 * f needs a finite f')
            return node(0.0 * c.f, R.Constant(geo, 0.0), [c],
                        lambda x: 0.0, region={'zero': 'left'})
        f = s * c.f
        ref = None if rv(c) is None else R.LeftScal(rv(c), s)
        region = {}
        if c.f.is_linear and s < 0:
            # a negative multiple of a linear functional is linear (convex)
            region['linneg'] = 1
        return node(f, ref, [c], lambda x: s * c.value(x), region=region)
    if cls == 'rightscal':
        c = child()
        s = float(fd['s'])
        if s == 0:
            # documented: (f * 0)(x) == f(0 * x) = f(0) (needs f(0) finite)
            v0 = None
            if rv(c) is not None and not any(b.cls == 'infconv'
                                             for b in c.nodes()):
                # (the value of an infimal convolution is not available)
                v0 = rv(c).value(np.zeros(n))
            if v0 is None or not np.isfinite(v0):
                raise Rejected('f * 0 needs a finite f(0)')
            try:
                f = c.f * 0.0
            except Exception as e:  # noqa  (evaluates c.f(0))
                raise BuildCrash(c, e)
            return node(f, R.Constant(geo, float(v0)), [c],
                        lambda x: c.value(0.0 * x), region={'zero': 'right'},
                        extra={'s': 0.0})
        f = c.f * s
        ref = None if rv(c) is None else R.RightScal(rv(c), s)
        region = {}
        if c.f.is_linear and s < 0:
            # Functional.__mul__ turns f * s into s * f for linear f
            region['linneg'] = 1
        return node(f, ref, [c], lambda x: c.value(s * x), region=region,
                    extra={'s': s})
    if cls == 'rightvec':
        c = child()
        v = _vec(space, fd['v'])
        vf = _flatv(space, v)
        f = c.f * v
        ref = None if rv(c) is None else R.RightVec(rv(c), vf)
        return node(f, ref, [c], lambda x: c.value(v * x),
                    extra={'v': v, 'vf': vf, 'params': {'vector': v},
                           'remake': lambda P: c.f * P['vector']})
    if cls == 'scalarsum':
        c = child()
        k = float(fd['c'])
        f = c.f + k
        ref = None if rv(c) is None else R.ScalarSum(rv(c), k)
        return node(f, ref, [c], lambda x: c.value(x) + k)
    if cls == 'translated':
        c = child()
        t = _vec(space, fd['t'])
        tf = _flatv(space, t)
        f = c.f.translated(t)
        ref = None if rv(c) is None else R.Translation(rv(c), tf)
        return node(f, ref, [c], lambda x: c.value(x - t),
                    extra={'t': t, 'tf': tf, 'params': {'translation': t},
                           'remake': lambda P: c.f.translated(
                               P['translation'])})
    if cls == 'quadperturb':
        c = child()
        a = float(fd.get('a', 0.0))
        u, uf = _opt_vec(space, fd.get('u'))
        k = float(fd.get('c', 0.0))
        f = S.FunctionalQuadraticPerturb(c.f, quadratic_coeff=a,
                                         linear_term=u, constant=k)
        ref = None if rv(c) is None else R.QuadPerturb(rv(c), a, uf, k)
        def asm(x):
            v = c.value(x) + a * x.inner(x) + k
            if u is not None:
                v = v + x.inner(u)
            return v
        extra = {}
        if u is not None:
            extra = {'params': {'linear_term': u},
                     'remake': lambda P: S.FunctionalQuadraticPerturb(
                         c.f, quadratic_coeff=a,
                         linear_term=P['linear_term'], constant=k)}
        return node(f, ref, [c], asm, extra=extra)
    if cls == 'sum':
        c1, c2 = child('f'), child('g')
        if fd.get('minus'):
            # f - g, documented as f + (-1) * g (C09)
            f = c1.f - c2.f
            ref = (None if rv(c1) is None or rv(c2) is None
                   else R.Sum(rv(c1), R.LeftScal(rv(c2), -1.0)))
            return node(f, ref, [c1, c2],
                        lambda x: c1.value(x) - c2.value(x),
                        region={'sum': 'minus'})
        f = c1.f + c2.f
        ref = (None if rv(c1) is None or rv(c2) is None
               else R.Sum(rv(c1), rv(c2)))
        return node(f, ref, [c1, c2], lambda x: c1.value(x) + c2.value(x))
    if cls == 'infconv':
        c1, c2 = child('f'), child('g')
        f = S.InfimalConvolution(c1.f, c2.f)
        ref = (None if rv(c1) is None or rv(c2) is None
               else R.InfConv(rv(c1), rv(c2)))
        return node(f, ref, [c1, c2], None)
    if cls == 'bregman':
        c = child()
        pf0 = np.asarray(fd['point'], float)
        if rv(c) is not None:
            # the point must lie in the interior of dom f
            dr = rv(c).dom_residual(pf0)
            if dr is not None and dr >= 0:
                cen = rv(c).center()
                if cen is None or not rv(c).dom_residual(cen) < 0:
                    raise Rejected('no interior point for Bregman')
                lo, hi = 0.0, 1.0
                for _ in range(50):
                    mid = 0.5 * (lo + hi)
                    if rv(c).dom_residual(cen + mid * (pf0 - cen)) < 0:
                        lo = mid
                    else:
                        hi = mid
                pf0 = cen + 0.8 * lo * (pf0 - cen)
        p = _vec(space, pf0)
        pf = _flatv(space, p)
        sg = None
        if fd.get('subgrad', 'ref') == 'grad':
            try:
                sg = c.f.gradient(p)
                sgf = _flatv(space, sg)
            except Exception:  # noqa  (the leaf is judged on its own)
                sg = None
        if sg is None:
            sgf = None if rv(c) is None else rv(c).subgrad(pf)
            if sgf is None:
                raise Rejected('no reference subgradient at the point')
            sg = _vec(space, sgf)
            sgf = _flatv(space, sg)
        try:
            # ``via_method`` (C09): the documented short-hand f.bregman(..)
            f = (c.f.bregman(p, sg) if fd.get('via_method')
                 else S.BregmanDistance(c.f, p, sg))
        except Exception as e:  # noqa  (constructor evaluates c.f(p))
            raise BuildCrash(c, e)
        ref = None
        if rv(c) is not None:
            const = -rv(c).value(pf) + geo.inner(sgf, pf)
            ref = R.QuadPerturb(rv(c), 0.0, -sgf, const)
            ref.name = 'BregmanDistance'
        return node(f, ref, [c],
                    lambda x: c.value(x) - c.value(p) - sg.inner(x - p),
                    extra={'params': {'point': p, 'subgrad': sg},
                           'remake': lambda P: S.BregmanDistance(
                               c.f, P['point'], P['subgrad'])})
    if cls == 'product':
        c1, c2 = child('f'), child('g')
        f = S.FunctionalProduct(c1.f, c2.f)
        return node(f, None, [c1, c2], lambda x: c1.value(x) * c2.value(x))
    if cls == 'quotient':
        c1, c2 = child('f'), child('g')
        f = S.FunctionalQuotient(c1.f, c2.f)
        return node(f, None, [c1, c2], lambda x: c1.value(x) / c2.value(x))
    if cls == 'moreau':
        c = child()
        sig = float(fd['sigma'])
        f = S.MoreauEnvelope(c.f, sigma=sig)

        def asm(x):
            p = c.f.proximal(sig)(x)
            return c.f(p) + (p - x).norm() ** 2 / (2 * sig)
        return node(f, None, [c], asm, extra={'sigma': sig})
    if cls == 'comp':
        op, rsd, info = build_operator(space, sd, fd['op'])
        inner = build_func(op.range, rsd, fd['f'])
        f = inner.f * op
        region = {}
        if fd['op']['kind'] in ('matrix',):
            wd, wr = geo.w, inner.geo.w
            same = (wkind(wd) != 'array' and wkind(wr) != 'array' and
                    wd.flat[0] == wr.flat[0])
            region['matop'] = 'wdom={},wran={},same={}'.format(
                wkind(wd), wkind(wr), int(same))
        if fd['op']['kind'] == 'gradient':
            nob = sd.get('nodes_on_bdry', False)
            region['gradop'] = 'bdry={}'.format(
                int(wkind(geo.w) == 'array'))
        b = Built(f, None, space, sd, geo, cls, children=[inner],
                  assemble=lambda x: inner.value(op(x)), region=region,
                  extra={'op': op, 'opinfo': info, 'opkind':
                         fd['op']['kind']})
        return b
    if cls == 'sepsum':
        parts = build.space_parts(sd)
        kids = [build_func(space[i], parts[i], fd['parts'][i])
                for i in range(len(parts))]
        region = {}
        for i, j in fd.get('share', []) or []:
            # one and the same functional object as summands i and j (the
            # descriptor guarantees equal parts)
            if parts[i] != parts[j] or fd['parts'][i] != fd['parts'][j]:
                raise HarnessError('shared summands must be equal')
            kids[j] = kids[i]
            region['sepsum'] = 'shared-object'
        f = S.SeparableSum(*[k.f for k in kids])
        if f.domain != space:
            raise HarnessError('SeparableSum domain differs from descriptor')
        ref = (None if any(k.ref is None for k in kids)
               else R.SeparableSum(geo, [k.ref for k in kids]))
        return node(f, ref, kids,
                    lambda x: sum(k.value(xi) for k, xi in zip(kids, x)),
                    region=region)
    if cls == 'sepsum_power':
        m = int(fd['n'])
        kid = build_func(space[0], sd['base'], fd['f'])
        if fd.get('style', 'int') == 'repeat':
            # the same object listed m times instead of ``(f, m)``
            f = S.SeparableSum(*([kid.f] * m))
        else:
            f = S.SeparableSum(kid.f, m)
        if f.domain != space:
            raise HarnessError('SeparableSum domain differs from descriptor')
        ref = None
        if kid.ref is not None:
            # same reference node class on every component
            kids_ref = [build_func(space[0], sd['base'], fd['f']).ref
                        for _ in range(m)]
            ref = R.SeparableSum(geo, kids_ref)
        return node(f, ref, [kid],
                    lambda x: sum(kid.value(xi) for xi in x))
    raise HarnessError('unknown functional descriptor {!r}'.format(cls))


# --------------------------------------------------------------------------
# strategies: values

PALETTE = [0.0, 1.0, -1.0, 0.5, 2.0, -0.25, 1.5, -3.0, 0.75, -2.0]
POS_PALETTE = [1.0, 0.5, 2.0, 0.25, 1.5, 3.0]


def _r32(x):
    return float(np.float32(x))


def values(lo=-3.0, hi=3.0):
    return st.one_of(st.sampled_from(PALETTE),
                     st.floats(lo, hi, allow_nan=False).map(_r32))


def nz_values():
    """Values bounded away from zero (kink margins)."""
    return st.one_of(
        st.sampled_from([1.0, -1.0, 0.5, 2.0, -0.25, 1.5, -3.0, 0.75, -2.0]),
        st.floats(0.2, 3.0).map(_r32),
        st.floats(0.2, 3.0).map(lambda v: -_r32(v)))


def pos_values(lo=0.1, hi=4.0):
    return st.one_of(st.sampled_from(POS_PALETTE),
                     st.floats(lo, hi, allow_nan=False).map(_r32))


def vec(n, elements=None):
    return st.lists(elements if elements is not None else values(),
                    min_size=n, max_size=n)


def scal_pos():
    return st.one_of(st.sampled_from([2.0, 0.5, 3.0, 1.0, 0.25, 1.5]),
                     st.floats(0.1, 5.0).map(_r32))


def scal_nz():
    return st.one_of(st.sampled_from([2.0, -0.5, 3.0, -1.0, -2.5, 0.25,
                                      1.5]),
                     st.floats(0.2, 4.0).map(_r32),
                     st.floats(0.2, 4.0).map(lambda v: -_r32(v)))


# --------------------------------------------------------------------------
# strategies: spaces

@st.composite
def flat_space_descs(draw, max_size=6, min_size=1, dtypes=('float64',),
                     kinds=('rn', 'rn', 'rn_const', 'rn_array', 'discr',
                            'discr_bdry', 'rn2d')):
    kind = draw(st.sampled_from(list(kinds)))
    dtype = draw(st.sampled_from(list(dtypes)))
    n = draw(st.integers(min_size, max_size))
    if dtype == 'float32' and kind == 'rn_array':
        # an array weighting must be castable to the space dtype
        kind = 'rn_const'
    if kind.startswith('rn'):
        shape = [n]
        if kind == 'rn2d':
            a = draw(st.sampled_from([d for d in (1, 2, 3) if n % d == 0]))
            shape = [a, n // a]
        w = None
        sub = draw(st.sampled_from(['none', 'const', 'array']
                                   if dtype != 'float32'
                                   else ['none', 'const'])) \
            if kind == 'rn2d' else {'rn': 'none', 'rn_const': 'const',
                                    'rn_array': 'array'}[kind]
        if sub == 'const':
            w = {'type': 'const', 'value': draw(pos_values(0.2, 5.0))}
        elif sub == 'array':
            data = draw(vec(n, pos_values(0.2, 5.0)))
            w = {'type': 'array',
                 'data': np.asarray(data).reshape(shape).tolist()}
        return {'kind': 'tensor', 'shape': shape, 'dtype': dtype,
                'weighting': w, 'exponent': 2.0}
    # uniform_discr with cell volume != 1 (generic extent)
    nd = 1 if n < 4 or draw(st.booleans()) else 2
    if nd == 2:
        a = draw(st.sampled_from([d for d in (2, 3) if n % d == 0] or [1]))
        shape = [a, n // a]
    else:
        shape = [n]
    mins, maxs = [], []
    for s in shape:
        lo = draw(st.sampled_from([0.0, -1.0, 0.5, 2.0]))
        ext = draw(st.sampled_from([1.0, 2.0, 0.5, 3.0, float(s)]) |
                   st.floats(0.3, 4.0).map(_r32))
        mins.append(lo)
        maxs.append(lo + ext)
    sd = {'kind': 'discr', 'min': mins, 'max': maxs, 'shape': shape,
          'dtype': dtype, 'exponent': 2.0, 'weighting': None,
          'nodes_on_bdry': False}
    if kind == 'discr_bdry':
        nob = [[draw(st.booleans()), draw(st.booleans())] for _ in shape]
        if not any(any(p) for p in nob):
            nob[0][0] = True
        for i, s in enumerate(shape):
            if s == 1 and all(nob[i]):
                nob[i] = [nob[i][0], False]
        sd['nodes_on_bdry'] = nob
    return sd


@st.composite
def power_space_descs(draw, max_base=4, max_power=3, weightings=('none',
                                                                 'none',
                                                                 'const'),
                      base_kinds=('rn', 'rn_const', 'rn_array', 'discr',
                                  'discr_bdry')):
    base = draw(flat_space_descs(max_size=max_base, kinds=base_kinds))
    m = draw(st.integers(1, max_power))
    wk = draw(st.sampled_from(list(weightings)))
    w = None
    if wk == 'const':
        w = {'type': 'const', 'value': draw(pos_values(0.2, 5.0))}
    elif wk == 'array':
        w = {'type': 'array', 'data': draw(vec(m, pos_values(0.2, 5.0)))}
    return {'kind': 'pspace', 'base': base, 'power': m, 'weighting': w,
            'exponent': 2.0}


@st.composite
def matrix_space_descs(draw):
    base = draw(flat_space_descs(max_size=3, kinds=('rn', 'rn_const',
                                                    'rn_array', 'discr')))
    m1 = draw(st.integers(1, 3))
    m2 = draw(st.integers(1, 3))
    inner = {'kind': 'pspace', 'base': base, 'power': m2, 'weighting': None,
             'exponent': 2.0}
    return {'kind': 'pspace', 'base': inner, 'power': m1, 'weighting': None,
            'exponent': 2.0}


def space_kind(sd):
    if sd['kind'] == 'field':
        return 'field'
    if sd['kind'] == 'tensor':
        return 'rn'
    if sd['kind'] == 'discr':
        return 'discr'
    if sd.get('power') is not None:
        if sd['base']['kind'] == 'pspace':
            return 'matrix'
        return 'power'
    return 'product'


# --------------------------------------------------------------------------
# strategies: functionals

@st.composite
def priors(draw, n, allow_none=True, zeros=False):
    k = draw(st.sampled_from((['none'] if allow_none else []) +
                             ['pos', 'pos'] + (['zeros'] if zeros else [])))
    if k == 'none':
        return None
    p = draw(vec(n, pos_values(0.2, 4.0)))
    if k == 'zeros':
        idx = draw(st.integers(0, n - 1))
        p = list(p)
        p[idx] = 0.0
    return p


@st.composite
def spd_matrices(draw, n, symmetric=True):
    """Well-conditioned matrix M = B^T B + I (+ skew part)."""
    B = np.asarray(draw(st.lists(st.sampled_from([0.0, 1.0, -1.0, 0.5, 2.0,
                                                  -0.5]),
                                 min_size=n * n, max_size=n * n))
                   ).reshape(n, n)
    M = B.T @ B + np.eye(n)
    if not symmetric and n > 1:
        K = np.triu(np.asarray(draw(st.lists(
            st.sampled_from([0.5, -1.0, 1.0, 0.25]), min_size=n * n,
            max_size=n * n))).reshape(n, n), 1)
        M = M + K - K.T
    return M.tolist()


@st.composite
def quadratic_forms(draw, sd, n, allow_known_bad=True, for_conj=True):
    flatsp = sd['kind'] in ('tensor', 'discr') and len(sd['shape']) == 1
    kinds = ['none', 'scaling', 'multiply']
    if flatsp:
        kinds += ['matrix_sym', 'matrix_sym']
        if allow_known_bad:
            kinds += ['matrix_nonsym']
    k = draw(st.sampled_from(kinds))
    op = None
    if k == 'scaling':
        op = {'kind': 'scaling', 's': draw(scal_pos())}
    elif k == 'multiply':
        op = {'kind': 'multiply', 'v': draw(vec(n, pos_values(0.2, 4.0)))}
    elif k == 'matrix_sym':
        op = {'kind': 'matrix', 'M': draw(spd_matrices(n, True))}
    elif k == 'matrix_nonsym':
        op = {'kind': 'matrix', 'M': draw(spd_matrices(n, False))}
    with_vec = (k == 'none') or (draw(st.booleans()) and
                                 (allow_known_bad or not for_conj))
    vector = draw(vec(n)) if with_vec else None
    return {'cls': 'QuadraticForm', 'op': op, 'vector': vector,
            'constant': draw(st.sampled_from([0.0, 1.0, -2.5, 0.5]))}


def _bound_desc(n, lo):
    base = st.sampled_from([-1.0, -0.5, -2.0, 0.0] if lo
                           else [1.0, 0.5, 2.0, 3.0])
    return st.one_of(st.none(), base,
                     st.lists(base, min_size=n, max_size=n))


@st.composite
def leaf_funcs(draw, sd, purpose, top=True, full=False):
    """A leaf functional descriptor admissible on ``sd``.

    ``purpose``: 'conj' (C08: has convex_conj / proximal) or 'grad' (C09:
    has a gradient).  Leaves that sit in the region of a known root cause
    are only drawn at the top level (``top``).
    """
    sk = space_kind(sd)
    n = space_dim(sd)
    if sk == 'field':
        c = draw(st.sampled_from(['Scaling', 'Identity']))
        return ({'cls': 'Scaling', 's': draw(scal_nz())} if c == 'Scaling'
                else {'cls': 'Identity'})
    if sk in ('rn', 'discr'):
        if purpose == 'conj':
            pool = ['L1Norm', 'L2Norm', 'LpNorm', 'L2NormSquared', 'Huber',
                    'KL', 'KLConj', 'KLCE', 'KLCEConj', 'IndicatorLpUnitBall',
                    'IndicatorZero', 'Constant', 'Zero', 'QuadraticForm',
                    'IndicatorBox', 'IndicatorNonnegativity',
                    'L1Norm', 'L2NormSquared', 'Huber', 'KL', 'QuadraticForm',
                    'LinearForm', 'Simple']
            if top:
                pool += ['IndicatorSimplex', 'IndicatorSumConstraint']
        else:
            pool = ['L1Norm', 'L2Norm', 'L2NormSquared', 'Huber', 'KL',
                    'KLConj', 'KLCE', 'KLCEConj', 'Constant', 'Zero',
                    'QuadraticForm', 'QuadraticForm', 'L2NormSquared',
                    'Huber', 'LinearForm', 'LinearForm']
            if top:
                pool += ['LpNorm']
    elif sk == 'power':
        if purpose == 'conj':
            pool = ['GroupL1Norm', 'GroupL1Norm', 'IndicatorGroupL1UnitBall',
                    'Huber', 'L2NormSquared', 'L1Norm', 'L2Norm',
                    'sepsum_power', 'IndicatorZero', 'Constant',
                    'QuadraticForm', 'LinearForm', 'Simple', 'sepsum_power']
        else:
            pool = ['GroupL1Norm', 'GroupL1Norm', 'Huber', 'L2NormSquared',
                    'L1Norm', 'L2Norm', 'sepsum_power', 'Constant',
                    'QuadraticForm', 'LinearForm']
    elif sk == 'matrix':
        pool = (['NuclearNorm', 'NuclearNorm',
                 'IndicatorNuclearNormUnitBall', 'L2NormSquared']
                if purpose == 'conj' else ['L2NormSquared', 'Constant'])
    else:
        pool = ['sepsum']
    if sk == 'power' and sd.get('weighting') is not None:
        # SeparableSum builds its own (unweighted) product domain
        pool = [c for c in pool if c != 'sepsum_power']
    if full:
        # functionals that are finite and differentiable a.e. on the whole
        # space (inner parts of compositions, sums, products, quotients)
        pool = [c for c in pool if c not in ('KL', 'KLConj', 'KLCE',
                                             'LpNorm')]
    cls = draw(st.sampled_from(pool))
    if cls in ('L1Norm', 'L2Norm', 'L2NormSquared', 'Zero',
               'IndicatorNonnegativity', 'IndicatorSimplex',
               'IndicatorSumConstraint'):
        fd = {'cls': cls}
        if cls == 'L1Norm':
            fd['fill'] = draw(st.sampled_from([0.0, 1.0, -1.0, 0.5, -0.3]))
        return fd
    if cls == 'LpNorm':
        return {'cls': cls, 'p': draw(st.sampled_from(
            [INF, 1.5, 3.0, 1.0, 2.0] if purpose == 'conj'
            else [INF, 1.5, 3.0]))}
    if cls == 'Huber':
        gammas = [0.5, 1.0, 0.1, 2.0, 0.3]
        if purpose == 'conj':
            gammas.append(0.0)
        return {'cls': cls, 'gamma': draw(st.sampled_from(gammas)),
                'fill': draw(st.sampled_from([0.0, 1.0, -0.5]))}
    if cls in ('KL', 'KLConj'):
        return {'cls': cls, 'prior': draw(priors(n, zeros=True))}
    if cls in ('KLCE', 'KLCEConj'):
        return {'cls': cls, 'prior': draw(priors(n))}
    if cls == 'IndicatorLpUnitBall':
        return {'cls': cls, 'p': draw(st.sampled_from([1.0, 2.0, INF, 1.5,
                                                       3.0]))}
    if cls == 'IndicatorZero':
        return {'cls': cls,
                'constant': draw(st.sampled_from([0.0, 2.0, -1.5]))}
    if cls == 'Constant':
        return {'cls': cls,
                'constant': draw(st.sampled_from([0.0, 2.0, -1.5, 0.5]))}
    if cls == 'IndicatorBox':
        return {'cls': cls, 'lower': draw(_bound_desc(n, True)),
                'upper': draw(_bound_desc(n, False))}
    if cls == 'LinearForm':
        return {'cls': cls, 'vector': draw(vec(n, nz_values()))}
    if cls == 'Simple':
        return {'cls': cls, 'a': draw(st.sampled_from([2.0, 0.5, 3.0, 0.25])),
                'b': draw(st.one_of(st.none(), vec(n))),
                'c': draw(st.sampled_from([0.0, 1.0, -2.5])),
                'with_prox': draw(st.integers(0, 3)) > 0,
                'with_grad': draw(st.integers(0, 3)) > 0,
                'grad_op': draw(st.booleans())}
    if cls == 'QuadraticForm':
        return draw(quadratic_forms(sd, n, allow_known_bad=top,
                                    for_conj=(purpose == 'conj')))
    if cls in ('GroupL1Norm', 'IndicatorGroupL1UnitBall'):
        ps = [1.0, 2.0, 2.0, INF]
        if purpose == 'grad':
            ps = [1.0, 2.0, 2.0, 1.5, 3.0] + ([INF] if top else [])
        elif top:
            ps += [1.5, 3.0]
        return {'cls': cls, 'p': draw(st.sampled_from(ps)),
                'fill': draw(st.sampled_from([0.0, 1.0, -0.5]))}
    if cls in ('NuclearNorm', 'IndicatorNuclearNormUnitBall'):
        return {'cls': cls, 'outer': draw(st.sampled_from([1.0, 2.0, INF])),
                'sing': draw(st.sampled_from([1.0, 2.0, INF]))}
    if cls == 'sepsum_power':
        fd = {'cls': cls, 'n': int(sd['power']),
              'f': draw(leaf_funcs(sd['base'], purpose, top=False,
                                   full=full))}
        if purpose == 'conj':
            # SeparableSum(f, n) or the same object listed n times
            fd['style'] = draw(st.sampled_from(['int', 'repeat']))
        return fd
    if cls == 'sepsum':
        return {'cls': cls, 'parts': [draw(func_descs(p, purpose, 1,
                                                      top=False, full=full))
                                      for p in build.space_parts(sd)]}
    raise HarnessError(cls)


CONJ_RULES = ['leftscal', 'rightscal', 'rightvec', 'scalarsum', 'translated',
              'quadperturb0', 'quadperturb', 'infconv', 'bregman',
              'leftscal', 'rightscal', 'translated', 'quadperturb0']
GRAD_RULES = ['leftscal', 'rightscal', 'rightvec', 'scalarsum', 'translated',
              'quadperturb', 'sum', 'comp', 'product', 'quotient', 'bregman',
              'moreau', 'comp', 'sum', 'rightscal', 'quadperturb', 'comp',
              'comp']


@st.composite
def op_descs(draw, sd, n, top):
    """Operator with domain ``sd`` for ``f o A``; returns (opdesc, range sd)."""
    sk = space_kind(sd)
    kinds = ['scaling', 'multiply', 'affine']
    if sk in ('rn', 'discr'):
        kinds += ['ufunc', 'ufunc', 'power', 'matrix_same', 'ufunc_matrix']
        if top and sd['kind'] == 'tensor':
            kinds += ['matrix'] * 4
        if sd['kind'] == 'discr' and top and min(sd['shape']) >= 2:
            kinds += ['gradient'] * 6
        if sd['kind'] == 'tensor' and len(sd['shape']) == 1 and \
                sd.get('weighting') is None:
            kinds += ['ufunc_matrix']
    k = draw(st.sampled_from(kinds))
    if k == 'scaling':
        return {'kind': 'scaling', 's': draw(scal_nz())}, sd
    if k == 'multiply':
        return {'kind': 'multiply', 'v': draw(vec(n, nz_values()))}, sd
    if k == 'affine':
        return {'kind': 'affine', 's': draw(scal_nz()),
                'v': draw(vec(n))}, sd
    if k == 'ufunc':
        return {'kind': 'ufunc', 'name': draw(st.sampled_from(
            ['exp', 'sin', 'cos', 'square', 'sinh', 'cosh']))}, sd
    if k == 'power':
        return {'kind': 'power', 'p': draw(st.sampled_from([2.0, 3.0]))}, sd
    mvals = st.sampled_from([0.0, 1.0, -1.0, 0.5, 2.0, -0.5, 1.5])
    if k == 'matrix_same':
        # square matrix on the same (possibly weighted) space: adjoint is
        # the transpose only for constant weights -> region tag decides
        M = draw(st.lists(mvals, min_size=n * n, max_size=n * n))
        od = {'kind': 'matrix', 'M': np.asarray(M).reshape(n, n).tolist(),
              'ran': None}
        if sd['kind'] != 'tensor':
            # MatrixOperator needs tensor spaces with a 1-d shape
            return {'kind': 'scaling', 's': draw(scal_nz())}, sd
        if len(sd['shape']) != 1:
            return {'kind': 'scaling', 's': draw(scal_nz())}, sd
        return od, sd
    if k == 'ufunc_matrix':
        if sd['kind'] != 'tensor' or len(sd['shape']) != 1 or \
                sd.get('weighting') is not None:
            return {'kind': 'ufunc', 'name': 'sin'}, sd
        M = draw(st.lists(mvals, min_size=n * n, max_size=n * n))
        return {'kind': 'ufunc_matrix', 'name': draw(st.sampled_from(
            ['sin', 'exp', 'square'])),
            'M': np.asarray(M).reshape(n, n).tolist()}, sd
    if k == 'matrix':
        if len(sd['shape']) != 1:
            return {'kind': 'scaling', 's': draw(scal_nz())}, sd
        m = draw(st.integers(1, 4))
        rsd = draw(flat_space_descs(min_size=m, max_size=m,
                                    dtypes=(sd['dtype'],),
                                    kinds=('rn', 'rn', 'rn_const',
                                           'rn_array')))
        M = draw(st.lists(mvals, min_size=n * m, max_size=n * m))
        return {'kind': 'matrix', 'M': np.asarray(M).reshape(m, n).tolist(),
                'ran': rsd}, rsd
    if k == 'gradient':
        nd = len(sd['shape'])
        rsd = {'kind': 'pspace', 'base': sd, 'power': nd, 'weighting': None,
               'exponent': 2.0}
        return {'kind': 'gradient', 'pad_mode': draw(st.sampled_from(
            ['constant', 'symmetric', 'periodic']))}, rsd
    raise HarnessError(k)


def scal_chain():
    """Argument scalings that are neither 0 nor 1."""
    return st.sampled_from([2.0, -0.5, 3.0, -1.0, -2.5, 0.25, 1.5, 0.5,
                            -2.0])


@st.composite
def linear_descs(draw, sd, purpose):
    """A functional that ODL flags as linear (and that is linear): <v, .>,
    scalar multiples / sums of such, compositions with linear operators,
    ScalingFunctional / IdentityFunctional on the field."""
    sk = space_kind(sd)
    n = space_dim(sd)
    if sk == 'field':
        return draw(leaf_funcs(sd, purpose))
    lin = {'cls': 'LinearForm', 'vector': draw(vec(n, nz_values()))}
    kinds = ['leaf', 'leaf', 'leftscal']
    if purpose == 'grad':
        kinds += ['sum']
        if sk in ('rn', 'discr'):
            kinds += ['comp']
    k = draw(st.sampled_from(kinds))
    if k == 'leftscal':
        return {'cls': 'leftscal', 's': draw(scal_chain()), 'f': lin}
    if k == 'sum':
        return {'cls': 'sum', 'f': lin,
                'g': {'cls': 'LinearForm',
                      'vector': draw(vec(n, nz_values()))}}
    if k == 'comp':
        od = draw(st.sampled_from(['scaling', 'multiply', 'matrix']))
        if od == 'scaling':
            op = {'kind': 'scaling', 's': draw(scal_chain())}
        elif od == 'multiply' or sd['kind'] != 'tensor' or \
                len(sd['shape']) != 1:
            op = {'kind': 'multiply', 'v': draw(vec(n, nz_values()))}
        else:
            M = draw(st.lists(st.sampled_from([0.0, 1.0, -1.0, 0.5, 2.0]),
                              min_size=n * n, max_size=n * n))
            op = {'kind': 'matrix', 'ran': None,
                  'M': np.asarray(M).reshape(n, n).tolist()}
        return {'cls': 'comp', 'op': op, 'f': lin}
    return lin


@st.composite
def chain_descs(draw, sd, purpose, depth):
    """Three-step derivations around an argument scaling: translation ->
    scaling, scaling -> translation, (f + c) -> scaling, linear/constant
    perturbation -> scaling; the innermost functional is linear in half of
    the cases (the arithmetic takes short-cuts for functionals flagged
    linear)."""
    sk = space_kind(sd)
    n = space_dim(sd)
    if sk == 'field' or draw(st.booleans()):
        inner = draw(linear_descs(sd, purpose))
    else:
        inner = draw(func_descs(sd, purpose, max(depth - 2, 0), top=False,
                                full=(purpose == 'grad')))
    s = draw(scal_chain())
    chains = ['trans-scale', 'scale-trans', 'sum-scale']
    if sk != 'field':
        chains += ['pert-scale']
    ch = draw(st.sampled_from(chains))
    t = draw(vec(n, nz_values()))
    if ch == 'trans-scale':
        return {'cls': 'rightscal', 's': s, 'chain': ch,
                'f': {'cls': 'translated', 't': t, 'f': inner}}
    if ch == 'scale-trans':
        return {'cls': 'translated', 't': t, 'chain': ch,
                'f': {'cls': 'rightscal', 's': s, 'f': inner}}
    if ch == 'sum-scale':
        return {'cls': 'rightscal', 's': s, 'chain': ch,
                'f': {'cls': 'scalarsum',
                      'c': draw(st.sampled_from([1.0, -2.5, 0.5, 3.0])),
                      'f': inner}}
    return {'cls': 'rightscal', 's': s, 'chain': ch,
            'f': {'cls': 'quadperturb', 'a': 0.0,
                  'u': draw(st.one_of(st.none(), vec(n))),
                  'c': draw(st.sampled_from([0.0, 1.0, -0.5, 0.0])),
                  'f': inner}}


@st.composite
def func_descs(draw, sd, purpose, depth, top=True, full=False):
    """Functional descriptor on ``sd`` of expression depth <= ``depth``."""
    sk = space_kind(sd)
    n = space_dim(sd)
    if top and depth >= 2 and sk != 'product' and \
            draw(st.integers(0, 3 if sk != 'field' else 1)) == 0:
        return draw(chain_descs(sd, purpose, depth))
    if depth <= 0 or sk in ('field',) or draw(st.integers(0, 3)) == 0:
        return draw(leaf_funcs(sd, purpose, top=top, full=full))
    if sk == 'product':
        return draw(leaf_funcs(sd, purpose, top=top, full=full))
    rules = CONJ_RULES if purpose == 'conj' else GRAD_RULES
    rule = draw(st.sampled_from(rules))
    if sk == 'matrix' and rule in ('comp', 'rightvec'):
        rule = 'rightscal'

    def sub(d=depth - 1, full_=None):
        return draw(func_descs(sd, purpose, d, top=False,
                               full=full if full_ is None else full_))

    if rule == 'leftscal':
        s = draw(scal_pos()) if purpose == 'conj' else draw(scal_nz())
        return {'cls': 'leftscal', 's': s, 'f': sub()}
    if rule == 'rightscal':
        return {'cls': 'rightscal', 's': draw(scal_nz()), 'f': sub()}
    if rule == 'rightvec':
        return {'cls': 'rightvec', 'v': draw(vec(n, nz_values())),
                'f': sub()}
    if rule == 'scalarsum':
        return {'cls': 'scalarsum',
                'c': draw(st.sampled_from([1.0, -2.5, 0.5, 3.0])),
                'f': sub()}
    if rule == 'translated':
        return {'cls': 'translated', 't': draw(vec(n)), 'f': sub()}
    if rule == 'quadperturb0':
        return {'cls': 'quadperturb', 'a': 0.0,
                'u': draw(st.one_of(st.none(), vec(n))),
                'c': draw(st.sampled_from([0.0, 1.0, -0.5])), 'f': sub()}
    if rule == 'quadperturb':
        a = draw(st.sampled_from([0.5, 1.0, 2.0, 5.0, 0.1])) \
            if purpose == 'conj' else \
            draw(st.sampled_from([0.5, 1.0, 2.0, 5.0, 0.1, -0.5, 0.0]))
        return {'cls': 'quadperturb', 'a': a,
                'u': draw(st.one_of(st.none(), vec(n))),
                'c': draw(st.sampled_from([0.0, 1.0, -0.5])), 'f': sub()}
    if rule == 'infconv':
        return {'cls': 'infconv', 'f': sub(0), 'g': sub(0)}
    if rule == 'sum':
        return {'cls': 'sum', 'f': sub(full_=True), 'g': sub(0, True)}
    if rule == 'bregman':
        return {'cls': 'bregman', 'f': sub(0), 'point': draw(vec(
            n, nz_values())),
            'subgrad': draw(st.sampled_from(['ref', 'grad']))
            if purpose == 'grad' else 'ref'}
    if rule == 'product':
        return {'cls': rule, 'f': sub(0, True), 'g': sub(0, True)}
    if rule == 'quotient':
        # divisor bounded away from zero: c + (non-negative functional)
        pos = [{'cls': 'L2NormSquared'}, {'cls': 'L2Norm'},
               {'cls': 'Huber', 'gamma': 0.5}] if sk != 'matrix' \
            else [{'cls': 'L2NormSquared'}]
        if sk in ('rn', 'discr', 'power'):
            pos.append({'cls': 'L1Norm'})
        return {'cls': rule, 'f': sub(0, True),
                'g': {'cls': 'scalarsum',
                      'c': draw(st.sampled_from([1.0, 2.0, 0.5, 3.0])),
                      'f': draw(st.sampled_from(pos))}}
    if rule == 'moreau':
        if sk in ('rn', 'discr'):
            base = draw(st.sampled_from(
                [{'cls': 'L1Norm'}, {'cls': 'L2NormSquared'},
                 {'cls': 'L2Norm'}, {'cls': 'IndicatorBox', 'lower': -1.0,
                                     'upper': 1.5},
                 {'cls': 'IndicatorNonnegativity'},
                 {'cls': 'LpNorm', 'p': 1.0}]))
        elif sk == 'power':
            base = draw(st.sampled_from(
                [{'cls': 'L2NormSquared'}, {'cls': 'GroupL1Norm', 'p': 2.0},
                 {'cls': 'GroupL1Norm', 'p': 1.0}]))
        else:
            base = {'cls': 'L2NormSquared'}
        return {'cls': 'moreau', 'sigma': draw(scal_pos()), 'f': base}
    if rule == 'comp':
        od, rsd = draw(op_descs(sd, n, top))
        lin = od['kind'] in ('scaling', 'multiply', 'matrix', 'gradient')
        if lin:
            inner = draw(func_descs(rsd, purpose, min(depth - 1, 1),
                                    top=False, full=True))
        else:
            # nonlinear inner operator: smooth outer functional only
            m = space_dim(rsd)
            inner = draw(st.sampled_from(
                [{'cls': 'L2NormSquared'},
                 {'cls': 'KLCEConj', 'prior': None},
                 {'cls': 'L2NormSquared'},
                 {'cls': 'QuadraticForm', 'op': {'kind': 'scaling',
                                                 's': 1.5},
                  'vector': [0.5] * m, 'constant': 1.0}]))
        return {'cls': 'comp', 'op': od, 'f': inner}
    raise HarnessError(rule)


@st.composite
def product_space_with_funcs(draw, purpose):
    """Non-power product space + SeparableSum of leaves on the parts."""
    k = draw(st.integers(2, 3))
    parts = [draw(flat_space_descs(max_size=3)) for _ in range(k)]
    sd = {'kind': 'pspace', 'parts': parts, 'power': None, 'weighting': None,
          'exponent': 2.0}
    fd = {'cls': 'sepsum',
          'parts': [draw(func_descs(p, purpose, 1, top=False))
                    for p in parts]}
    return sd, fd


def is_linear_desc(fd):
    """Descriptor of a functional that ODL flags as linear."""
    c = fd['cls']
    if c in ('Zero', 'Scaling', 'Identity', 'LinearForm'):
        return True
    if c == 'Constant':
        return float(fd['constant']) == 0
    if c == 'QuadraticForm':
        return fd.get('op') is None and float(fd.get('constant', 0)) == 0
    if c in ('leftscal', 'rightscal'):
        return is_linear_desc(fd['f'])
    if c == 'sum':
        return is_linear_desc(fd['f']) and is_linear_desc(fd['g'])
    if c == 'quadperturb':
        return is_linear_desc(fd['f']) and float(fd.get('a', 0)) == 0
    return False


def classes_in(fd):
    """All ``cls`` names of a functional descriptor (depth first)."""
    out = [fd['cls']]
    for key in ('f', 'g'):
        if key in fd and isinstance(fd[key], dict):
            out.extend(classes_in(fd[key]))
    for p in fd.get('parts', []) or []:
        out.extend(classes_in(p))
    return out
