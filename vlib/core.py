"""Core types shared by all checks: outcomes, violations, canonical JSON."""
import hashlib
import json
import math
import os
import sys
import traceback

VERIF_DIR = os.path.dirname(os.path.dirname(os.path.abspath(__file__)))


class Violation(Exception):
    """The property does not hold for this case.

    ``signature`` is the root-cause key (``Cxx|clause|site|region``): two
    failures with the same signature are counted as one defect, and the
    known-findings file lists signatures (fnmatch patterns).
    """

    def __init__(self, signature, detail=''):
        super().__init__('{}: {}'.format(signature, detail))
        self.signature = str(signature)
        self.detail = str(detail)


class HarnessError(Exception):
    """The harness itself is at fault (exit 2, never a VIOLATION)."""


class Outcome(object):
    """Result of one executed case that did not violate the property."""

    __slots__ = ('status', 'strata', 'nontrivial', 'notes')

    def __init__(self, status='ok', strata=(), nontrivial=True, notes=None):
        assert status in ('ok', 'trivial', 'excluded', 'rejected')
        self.status = status
        self.strata = list(strata)
        self.nontrivial = bool(nontrivial) and status == 'ok'
        self.notes = notes or {}


def _canon(obj):
    """Make ``obj`` JSON-able deterministically (floats by repr)."""
    if isinstance(obj, dict):
        return {str(k): _canon(v) for k, v in sorted(obj.items(),
                                                      key=lambda kv: str(kv[0]))}
    if isinstance(obj, (list, tuple)):
        return [_canon(v) for v in obj]
    if isinstance(obj, bool) or obj is None or isinstance(obj, (int, str)):
        return obj
    if isinstance(obj, float):
        if math.isnan(obj):
            return {'__float__': 'nan'}
        if math.isinf(obj):
            return {'__float__': 'inf' if obj > 0 else '-inf'}
        return obj
    if isinstance(obj, complex):
        return {'__complex__': [_canon(obj.real), _canon(obj.imag)]}
    # numpy scalars
    try:
        import numpy as np
        if isinstance(obj, np.bool_):
            return bool(obj)
        if isinstance(obj, np.integer):
            return int(obj)
        if isinstance(obj, np.floating):
            return _canon(float(obj))
        if isinstance(obj, np.complexfloating):
            return _canon(complex(obj))
        if isinstance(obj, np.ndarray):
            return _canon(obj.tolist())
    except ImportError:
        pass
    raise HarnessError('descriptor holds non-JSON-able value {!r}'.format(obj))


def decode(obj):
    """Inverse of the special encodings of `_canon` (nan/inf/complex)."""
    if isinstance(obj, dict):
        if set(obj) == {'__float__'}:
            return float(obj['__float__'])
        if set(obj) == {'__complex__'}:
            re, im = obj['__complex__']
            return complex(decode(re), decode(im))
        return {k: decode(v) for k, v in obj.items()}
    if isinstance(obj, list):
        return [decode(v) for v in obj]
    return obj


def canonical_json(desc):
    return json.dumps(_canon(desc), sort_keys=True, separators=(',', ':'))


def case_hash(desc):
    return hashlib.sha1(canonical_json(desc).encode()).hexdigest()[:16]


def derive_seed(*parts):
    h = hashlib.sha256('|'.join(str(p) for p in parts).encode()).hexdigest()
    return int(h[:12], 16)


def odl_root():
    return os.path.abspath(os.environ.get('VERIF_ODL_PATH', '/repo'))


def import_odl():
    """Import odl from the tree under test and make sure it is that tree."""
    root = odl_root()
    if root not in sys.path[:1]:
        sys.path.insert(0, root)
    import odl
    got = os.path.abspath(odl.__file__)
    if not got.startswith(root + os.sep):
        raise HarnessError('odl imported from {} instead of {}'
                           ''.format(got, root))
    return odl


def crash_signature(prop, exc, tb=None):
    """Classify an unexpected exception by its innermost relevant frame.

    Returns ``(where, signature)`` with ``where`` in {'odl', 'harness'}: the
    deepest frame that belongs either to the odl tree or to /verif decides.
    """
    root = odl_root()
    frames = traceback.extract_tb(tb if tb is not None else exc.__traceback__)
    where, site = 'harness', '?'
    for fr in frames:
        if not os.path.isabs(fr.filename):
            # e.g. Cython frames ('pyfftw/pyfftw.pyx'): neither odl nor verif
            continue
        fn = os.path.abspath(fr.filename)
        if fn.startswith(os.path.join(root, 'odl') + os.sep):
            where = 'odl'
            site = '{}:{}'.format(os.path.relpath(fn, root), fr.name)
        elif fn.startswith(VERIF_DIR + os.sep):
            where = 'harness'
            site = '{}:{}'.format(os.path.relpath(fn, VERIF_DIR), fr.name)
    sig = '{}|crash|{}|{}'.format(prop, type(exc).__name__, site)
    return where, sig
