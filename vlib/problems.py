"""Problem builders for the solver properties C11 / C12.

Everything here turns *plain-data descriptors* into live ODL objects
(operators, functionals, step sizes, start points) together with the NumPy
side that the oracles need (operator matrices obtained by forward evaluation
only, Gram matrices through the library's ``inner``, reference
sub-differentials written from the definitions of the functionals -- the
reference side never calls a proximal, a gradient, an adjoint or a solver).

Sections
--------
1. flat helpers (diagonal Gram matrices, weighted norms / adjoints)
2. operator descriptors   -> ODL operators        (+ Hypothesis strategies)
3. functional descriptors -> ODL functionals + reference sub-differentials
4. non-smooth problems **built backwards from their solution** (KKT by
   construction)
5. distance of a vector to a product of intervals / balls under a linear map
   (sub-gradient inclusion distance)
6. linear systems (SPD w.r.t. the space's inner product, consistent systems)
7. Hypothesis strategies for the descriptors

Operator descriptors (``domain`` is a space descriptor of vlib.build)::

    {"kind": "matrix", "m": 3, "svals": [2.0, 0.5], "seed": 7}   U diag(s) V^T
    {"kind": "matrix", "data": [[1, 0], [2, -1]]}                 explicit
    {"kind": "posmatrix", "m": 3, "seed": 7}      entries in [0.1, 1]
    {"kind": "identity"} | {"kind": "scaling", "scalar": -2.0}
    {"kind": "multiply", "seed": 3}               MultiplyOperator(vector)
    {"kind": "gradient", "method": "forward", "pad_mode": "symmetric"}
    {"kind": "divergence", ...}                   (domain: power space)
    {"kind": "pso", "blocks": [[od | null, ...], ...]}   (domain: pspace)
    {"kind": "reduction", "ops": [od, ...]}              (domain: pspace)
    {"kind": "broadcast", "ops": [od, ...]}
    {"kind": "pso_square", "blocks": [[od, od], [od, od]]}  on X x X
    {"kind": "pso_cut", "svals": [...], "seed": 7}   blocks of one matrix
                                  with prescribed singular values, X = rn(n)
    {"kind": "partial" | "laplacian" | "sqmatrix" | "sum" | "comp", ...}
                                  same-space operators

Functional descriptors::

    {"kind": "l1" | "l2" | "groupl1" | "l2sq" | "box" | "nonneg" | "huber" |
             "kl" | "zero" | "indzero",
     "lam": 0.7, "form": "left" | "right" | "plain", "gamma": 0.5,
     "scalar_bounds": false}

The *data* of a functional (translation, bounds, prior) is passed separately
as flat NumPy vectors: C11 draws it from a seed, C12 derives it from the
solution so that the optimality system holds.
"""
import numpy as np
from hypothesis import strategies as st

from . import build, flat
from .core import HarnessError, import_odl

odl = import_odl()
from odl.space.pspace import ProductSpace  # noqa: E402

S = odl.solvers


# --------------------------------------------------------------------------
# 1. flat helpers

def unflat(v, space):
    return flat.unflat(np.asarray(v, dtype=float), space)


def toflat(x, space):
    return flat.flat(x, space)


def gram_diag(space):
    """Diagonal of the Gram matrix of ``space`` (all spaces drawn here have
    diagonal Gram matrices: constant / cell-volume weights, unweighted
    products); one random off-diagonal probe guards that assumption."""
    n = flat.rdim(space)
    eye = np.eye(n)
    d = np.empty(n)
    for k in range(n):
        e = unflat(eye[k], space)
        d[k] = float(space.inner(e, e))
    rng = np.random.RandomState(n)
    u, v = rng.standard_normal(n), rng.standard_normal(n)
    got = float(space.inner(unflat(u, space), unflat(v, space)))
    ref = float(np.sum(d * u * v))
    if abs(got - ref) > 1e-10 * (np.sum(d * np.abs(u * v)) + 1e-300):
        raise HarnessError('space {!r} has a non-diagonal Gram matrix'
                           ''.format(space))
    if not np.all(d > 0):
        raise HarnessError('non-positive Gram diagonal')
    return d


def wnorm(v, d):
    """Norm of the flat vector ``v`` in the space with Gram diagonal d."""
    return float(np.sqrt(np.sum(d * v * v)))


def true_adjoint(M, dX, dY):
    """Matrix of the adjoint of M w.r.t. the inner products dX, dY."""
    return (M.T * dY[None, :]) / dX[:, None]


def sym_matrix(M, dX, dY):
    """G_Y^{1/2} M G_X^{-1/2}: its singular values are those of the operator
    between the weighted spaces."""
    return (np.sqrt(dY)[:, None] * M) / np.sqrt(dX)[None, :]


def true_opnorm(M, dX, dY):
    if M.size == 0:
        return 0.0
    return float(np.linalg.svd(sym_matrix(M, dX, dY), compute_uv=False)[0])


def adjoint_defect(op, M, dX, dY):
    """Relative defect of the library adjoint against the true adjoint
    (C05's Gram identity, restricted to diagonal Gram matrices)."""
    N, offa = flat.opmatrix(op.adjoint, domain=op.range, range=op.domain)
    T = true_adjoint(M, dX, dY)
    scale = max(np.abs(T).max(initial=0.0), np.abs(N).max(initial=0.0), 1e-300)
    return float(np.abs(N - T).max(initial=0.0) / scale)


# --------------------------------------------------------------------------
# 2. operators

def matrix_from_svals(m, n, svals, seed):
    rng = np.random.RandomState(int(seed) % (2 ** 32))
    U, _ = np.linalg.qr(rng.standard_normal((m, m)))
    V, _ = np.linalg.qr(rng.standard_normal((n, n)))
    r = min(m, n)
    s = np.zeros(r)
    sv = np.asarray(svals, dtype=float)[:r]
    s[:len(sv)] = sv
    return (U[:, :r] * s[None, :]) @ V[:, :r].T


def _tensor_weight_kw(space):
    """Keyword for a tensor space carrying the same constant weight."""
    w = getattr(space, 'weighting', None)
    const = getattr(w, 'const', None)
    if const is None or const == 1.0:
        return {}
    return {'weighting': float(const)}


def build_operator(od, domain):
    """ODL operator described by ``od`` on the (already built) ``domain``."""
    kind = od['kind']
    if kind in ('matrix', 'posmatrix'):
        if isinstance(domain, ProductSpace) or domain.ndim != 1:
            raise HarnessError('matrix operator needs a 1d tensor domain')
        n = domain.size
        if 'data' in od:
            M = np.array(od['data'], dtype=float)
            if M.ndim != 2 or M.shape[1] != n:
                raise HarnessError('matrix data shape mismatch')
        elif kind == 'posmatrix':
            rng = np.random.RandomState(int(od['seed']) % (2 ** 32))
            M = rng.uniform(0.1, 1.0, size=(int(od['m']), n))
        else:
            M = matrix_from_svals(int(od['m']), n, od['svals'], od['seed'])
        kw = _tensor_weight_kw(domain)
        if od.get('range_weight') is not None:
            kw = {'weighting': float(od['range_weight'])}
        ran = odl.rn(M.shape[0], **kw)
        return odl.MatrixOperator(M, domain=domain, range=ran)
    if kind == 'identity':
        return odl.IdentityOperator(domain)
    if kind == 'scaling':
        return odl.ScalingOperator(domain, float(od['scalar']))
    if kind == 'multiply':
        rng = np.random.RandomState(int(od['seed']) % (2 ** 32))
        n = flat.rdim(domain)
        lo_ = 0.6 if od.get('narrow') else 0.3
        vec = np.round(rng.uniform(lo_, 1.8 if od.get('narrow') else 2.0, n)
                       * rng.choice([-1, 1], n), 3)
        if od.get('positive'):
            vec = np.abs(vec)
        return odl.MultiplyOperator(unflat(vec, domain), domain=domain,
                                    range=domain)
    if kind == 'gradient':
        return odl.Gradient(domain, method=od.get('method', 'forward'),
                            pad_mode=od.get('pad_mode', 'constant'))
    if kind == 'divergence':
        return odl.Divergence(domain, method=od.get('method', 'forward'),
                              pad_mode=od.get('pad_mode', 'constant'))
    if kind == 'partial':
        return odl.PartialDerivative(domain, int(od['axis']),
                                     method=od.get('method', 'forward'),
                                     pad_mode=od.get('pad_mode', 'constant'))
    if kind == 'laplacian':
        return odl.Laplacian(domain, pad_mode=od.get('pad_mode', 'constant'))
    if kind == 'sqmatrix':
        # square matrix on a 1d tensor space (same-space operator)
        n = domain.size
        M = matrix_from_svals(n, n, od['svals'], od['seed'])
        return odl.MatrixOperator(M, domain=domain, range=domain)
    if kind == 'sum':
        ops = [build_operator(o, domain) for o in od['ops']]
        out = ops[0]
        for o in ops[1:]:
            out = out + o
        return out
    if kind == 'comp':
        # ops[0] o ops[1] o ...  (all same-space here)
        ops = [build_operator(o, domain) for o in od['ops']]
        out = ops[-1]
        for o in reversed(ops[:-1]):
            out = o * out
        return out
    if kind == 'pso_square':
        # full block operator [[A, B], [C, D]] on X x X
        if not isinstance(domain, ProductSpace) or \
                not domain.is_power_space:
            raise HarnessError('pso_square needs a power-space domain')
        rows = [[None if o is None else build_operator(o, domain[0])
                 for o in row] for row in od['blocks']]
        return odl.ProductSpaceOperator(rows, domain=domain, range=domain)
    if kind == 'pso_cut':
        # (2n x 2n) matrix U diag(s) V^T with prescribed singular values,
        # cut into four n x n blocks: a full block operator on X x X
        # (X = rn(n)) whose conditioning is known
        if not isinstance(domain, ProductSpace) or \
                not domain.is_power_space or len(domain) != 2 or \
                isinstance(domain[0], ProductSpace) or domain[0].ndim != 1:
            raise HarnessError('pso_cut needs a domain rn(n) x rn(n)')
        n = domain[0].size
        M = matrix_from_svals(2 * n, 2 * n, od['svals'], od['seed'])
        rows = [[odl.MatrixOperator(M[i * n:(i + 1) * n, j * n:(j + 1) * n],
                                    domain=domain[0], range=domain[0])
                 for j in range(2)] for i in range(2)]
        return odl.ProductSpaceOperator(rows, domain=domain, range=domain)
    if kind == 'broadcast':
        return odl.BroadcastOperator(*[build_operator(o, domain)
                                       for o in od['ops']])
    if kind == 'reduction':
        if not isinstance(domain, ProductSpace):
            raise HarnessError('reduction needs a product-space domain')
        return odl.ReductionOperator(*[build_operator(o, domain[i])
                                       for i, o in enumerate(od['ops'])])
    if kind == 'pso':
        if not isinstance(domain, ProductSpace):
            raise HarnessError('pso needs a product-space domain')
        rows = []
        for row in od['blocks']:
            rows.append([None if o is None else build_operator(o, domain[j])
                         for j, o in enumerate(row)])
        return odl.ProductSpaceOperator(rows, domain=domain)
    raise HarnessError('unknown operator kind {!r}'.format(kind))


class LinOp(object):
    """An ODL operator with its matrix and the exact quantities the oracles
    need (all obtained without touching ``op.adjoint`` / ``op.norm``)."""

    def __init__(self, op, dX=None):
        self.op = op
        self.M, off = flat.opmatrix(op)
        if np.abs(off).max(initial=0.0) != 0.0:
            raise HarnessError('operator is not linear (offset)')
        self.dX = gram_diag(op.domain) if dX is None else dX
        self.dY = gram_diag(op.range)
        self.norm = true_opnorm(self.M, self.dX, self.dY)
        self.adj = true_adjoint(self.M, self.dX, self.dY)

    def defect(self):
        return adjoint_defect(self.op, self.M, self.dX, self.dY)


# --------------------------------------------------------------------------
# 3. functionals

NORMLIKE = ('l1', 'l2', 'groupl1')
SMOOTH = ('l2sq', 'huber', 'zero')


def random_func_data(fd, space, rng):
    """Data (flat vectors) for a functional in C11 (no optimality needed)."""
    n = flat.rdim(space)
    kind = fd['kind']
    if kind == 'sepsum':
        return {'parts': [random_func_data(p, space[i], rng)
                          for i, p in enumerate(fd['parts'])]}
    if kind in ('l2sq', 'indzero'):
        return {'b': np.round(rng.standard_normal(n), 3)}
    if kind == 'box':
        lo = -np.round(rng.uniform(0.1, 1.5, n), 3)
        hi = np.round(rng.uniform(0.1, 1.5, n), 3)
        if fd.get('scalar_bounds'):
            lo[:] = lo[0]
            hi[:] = hi[0]
        return {'lo': lo, 'hi': hi}
    if kind == 'kl':
        return {'prior': np.round(rng.uniform(0.2, 2.0, n), 3)}
    return {}


def make_functional(fd, space, data=None):
    """ODL functional for descriptor ``fd`` on ``space``."""
    data = data or {}
    kind = fd['kind']
    if kind == 'sepsum':
        return S.SeparableSum(*[make_functional(p, space[i],
                                                data['parts'][i])
                                for i, p in enumerate(fd['parts'])])
    lam = float(fd.get('lam', 1.0))
    form = fd.get('form', 'left')

    def scaled(base):
        if form == 'plain':
            if lam != 1.0:
                raise HarnessError('form plain needs lam == 1')
            return base
        if form == 'right' and kind in NORMLIKE:
            return base * lam          # f(lam x) = lam f(x), lam > 0
        return lam * base

    if kind == 'l1':
        return scaled(S.L1Norm(space))
    if kind == 'l2':
        return scaled(S.L2Norm(space))
    if kind == 'groupl1':
        return scaled(S.GroupL1Norm(space))
    if kind == 'l2sq':
        b = unflat(data['b'], space)
        if form == 'right':            # scale the translated functional
            return lam * S.L2NormSquared(space).translated(b)
        return (lam * S.L2NormSquared(space)).translated(b)
    if kind == 'box':
        lo, hi = data['lo'], data['hi']
        if fd.get('scalar_bounds'):
            return S.IndicatorBox(space, float(lo[0]), float(hi[0]))
        return S.IndicatorBox(space, unflat(lo, space), unflat(hi, space))
    if kind == 'nonneg':
        return S.IndicatorNonnegativity(space)
    if kind == 'huber':
        return scaled(S.Huber(space, float(fd['gamma'])))
    if kind == 'kl':
        return scaled(S.KullbackLeibler(space, unflat(data['prior'], space)))
    if kind == 'zero':
        return S.ZeroFunctional(space)
    if kind == 'indzero':
        return S.IndicatorZero(space).translated(unflat(data['b'], space))
    raise HarnessError('unknown functional kind {!r}'.format(kind))


def func_class_name(fd):
    return {'l1': 'L1Norm', 'l2': 'L2Norm', 'groupl1': 'GroupL1Norm',
            'l2sq': 'L2NormSquared', 'box': 'IndicatorBox',
            'nonneg': 'IndicatorNonnegativity', 'huber': 'Huber',
            'kl': 'KullbackLeibler', 'zero': 'ZeroFunctional',
            'indzero': 'IndicatorZero', 'sepsum': 'SeparableSum'}[fd['kind']]


def group_layout(space):
    """(k, npts) for a power space of k identical leaf spaces."""
    if not isinstance(space, ProductSpace) or not space.is_power_space:
        raise HarnessError('group functional needs a power space')
    return len(space), flat.rdim(space[0])


class SetDesc(object):
    """Product of intervals [lo, hi] (possibly degenerate / infinite) with
    some coordinate groups replaced by Euclidean balls ``|v[idx]| <= r``
    (``balls``: list of (index array, radius)); ``feasible`` False means the
    sub-differential is empty (point outside the domain)."""

    def __init__(self, lo, hi, balls=(), feasible=True, lip=0.0):
        self.lo = np.asarray(lo, dtype=float)
        self.hi = np.asarray(hi, dtype=float)
        self.balls = list(balls)
        self.feasible = bool(feasible)
        self.lip = float(lip)      # Lipschitz constant of the smooth part

    def project(self, v):
        out = np.clip(v, self.lo, self.hi)
        for idx, r in self.balls:
            nv = np.sqrt(np.sum(v[idx] ** 2))
            out[idx] = v[idx] if nv <= r else v[idx] * (r / nv)
        return out

    def contains(self, v, tol):
        return bool(np.max(np.abs(self.project(v) - v), initial=0.0) <= tol)

    def box_relaxation(self):
        lo, hi = self.lo.copy(), self.hi.copy()
        for idx, r in self.balls:
            lo[idx], hi[idx] = -r, r
        return lo, hi


def ref_subdiff(fd, data, space, dY, z, delta=0.0):
    """delta-enlarged Riesz sub-differential of the functional at ``z``:
    the union of the sub-differentials over the sup-norm ball of radius
    ``delta`` around z (outer description, exact for delta = 0).

    The spaces used here carry constant weights per leaf, for which the
    Riesz representatives of the integral-type functionals coincide with the
    unweighted formulas; the L2 norm uses the space norm explicitly.
    """
    kind = fd['kind']
    lam = float(fd.get('lam', 1.0))
    z = np.asarray(z, dtype=float)
    n = z.size
    if kind == 'zero':
        return SetDesc(np.zeros(n), np.zeros(n))
    if kind == 'l1':
        lo = np.where(z > delta, lam, -lam)
        hi = np.where(z < -delta, -lam, lam)
        return SetDesc(lo, hi)
    if kind == 'l2':
        nz = wnorm(z, dY)
        dn = delta * np.sqrt(np.sum(dY))
        if nz <= dn:
            if not np.allclose(dY, dY[0]):
                raise HarnessError('l2 reference needs a constant weight')
            return SetDesc(np.full(n, -np.inf), np.full(n, np.inf),
                           balls=[(np.arange(n), lam / np.sqrt(dY[0]))])
        g = lam * z / nz
        return SetDesc(g, g, lip=2 * lam / max(nz - dn, 1e-300))
    if kind == 'groupl1':
        k, npts = group_layout(space)
        zz = z.reshape(k, npts)
        pn = np.sqrt(np.sum(zz ** 2, axis=0))
        lo = np.empty((k, npts))
        balls = []
        lip = 0.0
        for p in range(npts):
            if pn[p] <= delta * np.sqrt(k):
                lo[:, p] = 0.0
                balls.append((np.arange(k) * npts + p, lam))
            else:
                lo[:, p] = lam * zz[:, p] / pn[p]
                lip = max(lip, 2 * lam / max(pn[p] - delta * np.sqrt(k),
                                              1e-300))
        lo = lo.ravel()
        return SetDesc(lo, lo.copy(), balls=balls, lip=lip)
    if kind == 'l2sq':
        g = 2 * lam * (z - data['b'])
        return SetDesc(g, g, lip=2 * lam)
    if kind in ('box', 'nonneg'):
        lob = data['lo'] if kind == 'box' else np.zeros(n)
        hib = data['hi'] if kind == 'box' else np.full(n, np.inf)
        feas = bool(np.all(z >= lob - delta) and np.all(z <= hib + delta))
        lo = np.where(z <= lob + delta, -np.inf, 0.0)
        hi = np.where(z >= hib - delta, np.inf, 0.0)
        return SetDesc(lo, hi, feasible=feas)
    if kind == 'huber':
        gam = float(fd['gamma'])
        g = lam * np.where(np.abs(z) <= gam, z / gam, np.sign(z))
        return SetDesc(g, g, lip=lam / gam)
    if kind == 'kl':
        # gradient lam (1 - p / z) is increasing in z > 0: the enlarged set
        # is the interval between its values at z - delta and z + delta
        # (unbounded below where the ball touches z <= 0)
        p = data['prior']
        if np.any(z + delta <= 0):
            return SetDesc(np.zeros(n), np.zeros(n), feasible=False)
        zl = z - delta
        lo = np.where(zl > 0, lam * (1.0 - p / np.where(zl > 0, zl, 1.0)),
                      -np.inf)
        hi = lam * (1.0 - p / (z + delta))
        lip = 0.0 if delta > 0 else lam * float(np.max(
            p / np.maximum(z, 1e-150) ** 2))
        return SetDesc(lo, hi, lip=lip)
    if kind == 'indzero':
        feas = bool(np.all(np.abs(z - data['b']) <= delta))
        return SetDesc(np.full(n, -np.inf), np.full(n, np.inf),
                       feasible=feas)
    raise HarnessError('no reference sub-differential for {!r}'.format(kind))


def ref_value(fd, data, space, dY, z):
    """Reference value of the functional (long double sums)."""
    kind = fd['kind']
    lam = float(fd.get('lam', 1.0))
    z = np.asarray(z, dtype=np.longdouble)
    w = np.asarray(dY, dtype=np.longdouble)
    if kind == 'zero':
        return 0.0
    if kind == 'l1':
        return float(lam * np.sum(w * np.abs(z)))
    if kind == 'l2':
        return float(lam * np.sqrt(np.sum(w * z * z)))
    if kind == 'l2sq':
        r = z - data['b']
        return float(lam * np.sum(w * r * r))
    if kind == 'huber':
        gam = float(fd['gamma'])
        a = np.abs(z)
        v = np.where(a <= gam, a * a / (2 * gam), a - gam / 2)
        return float(lam * np.sum(w * v))
    if kind == 'groupl1':
        k, npts = group_layout(space)
        zz = z.reshape(k, npts)
        return float(lam * np.sum(w[:npts] * np.sqrt(np.sum(zz * zz,
                                                            axis=0))))
    raise HarnessError('no reference value for {!r}'.format(kind))


def certificate(fd, space, dY, z, rng, zero_cert=False, zero_tol=0.0,
                max_active=None):
    """Choose the data of the functional and a dual certificate
    ``y in subdiff g(z)`` (Riesz representative, flat).

    Returns ``(data, y, active)``; ``active`` says whether the non-smooth
    part is active at z (kink of a norm, active bound).  With ``zero_cert``
    the data is chosen so that ``0 in subdiff g(z)`` and y = 0 is returned
    (norm-like functionals then need z = 0, which the caller arranged).
    """
    kind = fd['kind']
    lam = float(fd.get('lam', 1.0))
    z = np.asarray(z, dtype=float)
    n = z.size
    if kind == 'zero':
        return {}, np.zeros(n), False
    if kind == 'l1':
        zero = np.abs(z) <= zero_tol
        if zero_cert:
            if not np.all(zero):
                raise HarnessError('zero certificate needs z = 0')
            return {}, np.zeros(n), True
        y = lam * np.sign(z)
        y[zero] = lam * np.round(rng.uniform(-0.9, 0.9, int(zero.sum())), 3)
        return {}, y, bool(zero.any())
    if kind == 'l2':
        nz = wnorm(z, dY)
        if nz <= zero_tol * np.sqrt(np.sum(dY)):
            if zero_cert:
                return {}, np.zeros(n), True
            u = rng.standard_normal(n)
            u *= rng.uniform(0.1, 0.9) * lam / max(wnorm(u, dY), 1e-300)
            return {}, u, True
        if zero_cert:
            raise HarnessError('zero certificate needs z = 0')
        return {}, lam * z / nz, False
    if kind == 'groupl1':
        k, npts = group_layout(space)
        zz = z.reshape(k, npts)
        pn = np.sqrt(np.sum(zz ** 2, axis=0))
        y = np.zeros((k, npts))
        act = False
        for p in range(npts):
            if pn[p] <= zero_tol * np.sqrt(k):
                act = True
                if not zero_cert:
                    u = rng.standard_normal(k)
                    u *= rng.uniform(0.1, 0.9) * lam / np.sqrt(np.sum(u * u))
                    y[:, p] = u
            else:
                if zero_cert:
                    raise HarnessError('zero certificate needs z = 0')
                y[:, p] = lam * zz[:, p] / pn[p]
        return {}, y.ravel(), act
    if kind == 'l2sq':
        y = np.zeros(n) if zero_cert else np.round(
            rng.standard_normal(n) * rng.choice([0.3, 1.0, 2.0]), 3)
        return {'b': z - y / (2 * lam)}, y, False
    if kind == 'indzero':
        y = np.zeros(n) if zero_cert else np.round(rng.standard_normal(n), 3)
        return {'b': z.copy()}, y, True
    if kind == 'box':
        # 0: strictly inside, 1: lower bound active, 2: upper bound active
        pat = rng.randint(0, 3, n)
        if max_active is not None:
            act = np.flatnonzero(pat)
            if len(act) > max(max_active, 0):
                drop = rng.choice(act, size=len(act) - max(max_active, 0),
                                  replace=False)
                pat[drop] = 0
        if fd.get('scalar_bounds'):
            # scalar bounds: the extreme entries may be active
            lo = np.full(n, z.min() - (0.0 if pat[0] == 1 else 0.5))
            hi = np.full(n, z.max() + (0.0 if pat[0] == 2 else 0.7))
            pat = np.where(z <= lo, 1, np.where(z >= hi, 2, 0))
        else:
            marg_lo = np.round(rng.uniform(0.2, 1.5, n), 3)
            marg_hi = np.round(rng.uniform(0.2, 1.5, n), 3)
            lo = np.where(pat == 1, z, z - marg_lo)
            hi = np.where(pat == 2, z, z + marg_hi)
        y = np.zeros(n)
        if not zero_cert:
            mag = np.round(rng.uniform(0.1, 1.5, n), 3)
            y = np.where(pat == 1, -mag, np.where(pat == 2, mag, 0.0))
        return {'lo': lo, 'hi': hi}, y, bool(np.any(pat != 0))
    if kind == 'nonneg':
        if np.any(z < 0):
            raise HarnessError('nonneg needs z >= 0')
        zero = z <= zero_tol
        y = np.zeros(n)
        if not zero_cert:
            y[zero] = -np.round(rng.uniform(0.1, 1.5, int(zero.sum())), 3)
        return {}, y, bool(zero.any())
    if kind == 'huber':
        gam = float(fd['gamma'])
        y = lam * np.where(np.abs(z) <= gam, z / gam, np.sign(z))
        if zero_cert and np.any(y != 0):
            raise HarnessError('zero certificate needs z = 0')
        return {}, y, bool(np.any(np.abs(z) > gam))
    if kind == 'kl':
        if np.any(z <= 0):
            raise HarnessError('kl needs z > 0')
        u = np.zeros(n) if zero_cert else np.round(
            rng.uniform(-1.0, 0.8, n), 3)
        # y = lam (1 - p / z)  <=>  p = z (1 - y / lam)
        return {'prior': z * (1.0 - u)}, lam * u, False
    raise HarnessError('no certificate rule for {!r}'.format(kind))


# --------------------------------------------------------------------------
# 4. non-smooth problems built backwards from their solution

class Term(object):
    __slots__ = ('lin', 'fd', 'data', 'g', 'ystar', 'active')


class NonsmoothProblem(object):
    """min_x  phi(x) + 1/2 ||A x - b||^2 + sum_i g_i(L_i x)

    with the unique minimiser ``xstar`` (A injective) known by construction:
    certificates ``s in subdiff phi(x*)``, ``y_i in subdiff g_i(L_i x*)`` are
    chosen first, then ``b`` is solved from
    ``0 = s + A^*(A x* - b) + sum_i L_i^* y_i`` (adjoints w.r.t. the inner
    products of the spaces, from matrices and Gram diagonals).
    """

    def data_term(self, as_g=False):
        """ODL functional 1/2||A . - b||^2 (on X) or, with ``as_g``, the
        functional 1/2||. - b||^2 on the range of A (to be paired with A)."""
        Z = self.X if self.A is None else self.A.op.range
        q = (0.5 * S.L2NormSquared(Z)).translated(unflat(self.b, Z))
        if as_g or self.A is None:
            return q
        return q * self.A.op

    def data_op(self):
        return odl.IdentityOperator(self.X) if self.A is None else self.A.op

    def err(self, x):
        """||x - x*|| in the norm of X (x: ODL element)."""
        return wnorm(toflat(x, self.X) - self.xstar, self.dX)


def _partial_rows(kind, m, rng, budget, space):
    """Random subset of the rows of an operator that shall vanish at x* so
    that the kink of a norm-like functional is active there."""
    none = np.zeros(0, dtype=int)
    if m == 0 or budget <= 0:
        return none
    if kind == 'l1':
        cnt = min(int(rng.randint(0, m + 1)), budget)
        return np.sort(rng.choice(m, size=cnt, replace=False))
    if kind == 'l2':
        return np.arange(m) if (rng.randint(0, 3) == 0 and m <= budget) \
            else none
    if kind == 'groupl1':
        k, npts = group_layout(space)
        cnt = min(int(rng.randint(0, npts + 1)), budget // k)
        if cnt <= 0:
            return none
        pts = rng.choice(npts, size=cnt, replace=False)
        return np.sort(np.concatenate(
            [np.arange(k) * npts + p for p in pts]).astype(int))
    return none


KINKED = ('l1', 'l2', 'groupl1', 'huber')


def build_nonsmooth(pd):
    """Descriptor -> `NonsmoothProblem`.

    ``pd`` keys: ``domain`` (space descriptor), ``A`` (operator descriptor
    or None = identity), ``phi`` (functional descriptor), ``terms`` (list of
    ``{"L": od, "g": fd}``), ``seed``, ``xscale``, ``xclass`` ('free' |
    'pos'), ``zero_cert`` (all certificates zero), ``nullspace`` (all
    ``L_i x* = 0`` as well), ``start_scale``.
    """
    rng = np.random.RandomState(int(pd['seed']) % (2 ** 32))
    P = NonsmoothProblem()
    P.desc = pd
    P.X = X = build.build_space(pd['domain'])
    P.dX = dX = gram_diag(X)
    n = dX.size
    P.A = None if pd.get('A') is None else LinOp(
        build_operator(pd['A'], X), dX)
    P.has_data = bool(pd.get('data', True))
    zero_cert = bool(pd.get('zero_cert'))
    nullspace = bool(pd.get('nullspace'))

    lins = [LinOp(build_operator(t['L'], X), dX) for t in pd['terms']]

    # ---- x*: raw values, then make the chosen rows of the L_i vanish
    xs = float(pd.get('xscale', 1.0))
    xraw = np.round(rng.standard_normal(n) * xs, 3)
    pos = pd.get('xclass', 'free') == 'pos' or pd['phi']['kind'] == 'nonneg'
    if pos:
        xraw = np.abs(xraw) + 0.2 * xs
    rows = []
    budget = n - 1
    phi_fd = pd['phi']
    pk = phi_fd['kind']
    if pk in ('l1', 'nonneg', 'groupl1', 'l2'):
        jz = _partial_rows('l1' if pk == 'nonneg' else pk, n, rng, budget, X)
        if len(jz):
            rows.append(np.eye(n)[jz])
            budget -= len(jz)
    for t, lin in zip(pd['terms'], lins):
        gk = t['g']['kind']
        if nullspace or (zero_cert and gk in KINKED):
            if pos:
                raise HarnessError('positive x* cannot meet row constraints')
            rows.append(lin.M)
        elif not pos and not zero_cert:
            jz = _partial_rows(gk, lin.M.shape[0], rng, budget, lin.op.range)
            if len(jz):
                rows.append(lin.M[jz])
                budget -= len(jz)
    if pos and rows:
        # coordinates only: keep positivity of the rest
        R = np.vstack(rows)
        xstar = np.where(np.any(R != 0, axis=0), 0.0, xraw)
    elif rows:
        R = np.vstack(rows)
        xstar = xraw - np.linalg.pinv(R, rcond=1e-10) @ (R @ xraw)
    else:
        xstar = xraw
    P.xstar = xstar
    xn = max(np.max(np.abs(xstar), initial=0.0), xs)
    ztol = 1e-12 * xn

    # ---- certificates and data
    P.terms = []
    c = np.zeros(n)
    for t, lin in zip(pd['terms'], lins):
        T = Term()
        T.lin, T.fd = lin, t['g']
        z = lin.M @ xstar
        zt = ztol * max(lin.norm, 1.0) * np.sqrt(n)
        z = np.where(np.abs(z) <= zt, 0.0, z)
        T.data, T.ystar, T.active = certificate(
            t['g'], lin.op.range, lin.dY, z, rng, zero_cert=zero_cert,
            zero_tol=0.0, max_active=budget)
        if t['g']['kind'] == 'box':
            budget -= int(np.count_nonzero(T.ystar)) if not zero_cert \
                else 0
        T.g = make_functional(t['g'], lin.op.range, T.data)
        c += lin.adj @ T.ystar
        P.terms.append(T)
    xz = np.where(np.abs(xstar) <= ztol, 0.0, xstar)
    P.xstar = xstar = xz
    P.phi_fd = phi_fd
    P.phi_data, P.sstar, P.phi_active = certificate(
        phi_fd, X, dX, xstar, rng, zero_cert=False, zero_tol=0.0,
        max_active=budget)
    P.phi = make_functional(phi_fd, X, P.phi_data)
    c += P.sstar

    # ---- data term: A^* r = -c,  b = A x* - r
    if not P.has_data:
        # equality-constrained family: the (single) constraint term
        # L x = b with injective L makes x* the only feasible point; its
        # multiplier balances the optimality system
        eq = [T for T in P.terms if T.fd['kind'] == 'indzero']
        if len(eq) != 1 or P.A is not None:
            raise HarnessError('no-data problems need one indzero term')
        T = eq[0]
        sv = np.linalg.svd(sym_matrix(T.lin.M, dX, T.lin.dY),
                           compute_uv=False)
        if len(sv) < n or sv[n - 1] <= 1e-9 * sv[0]:
            raise HarnessError('constraint operator must be injective')
        c -= T.lin.adj @ T.ystar
        T.ystar = -np.linalg.pinv(T.lin.adj) @ c
        P.b = None
        P.normA, P.sminA = 0.0, 0.0
        P.cond_eq = float(sv[0] / sv[n - 1])
    elif P.A is None:
        P.b = xstar + c
        P.normA, P.sminA = 1.0, 1.0
    else:
        sv = np.linalg.svd(sym_matrix(P.A.M, dX, P.A.dY), compute_uv=False)
        if len(sv) < n or sv[n - 1] <= 1e-9 * sv[0]:
            raise HarnessError('data operator must be injective')
        P.normA, P.sminA = float(sv[0]), float(sv[n - 1])
        r = -np.linalg.pinv(P.A.adj) @ c
        P.b = P.A.M @ xstar - r
    # smooth part constants
    P.lip_data = P.normA ** 2
    P.mu = P.sminA ** 2                  # strong convexity modulus

    # ---- start point
    ss = float(pd.get('start_scale', 1.0))
    x0 = xstar + ss * xn * np.round(rng.standard_normal(n), 3)
    if pos or any(T.fd['kind'] == 'kl' for T in P.terms):
        x0 = np.abs(x0) + 0.1 * xn
    P.x0 = x0
    P.scale = float(max(xn, np.max(np.abs(P.b), initial=0.0)
                        if P.b is not None else 0.0))
    return P


def kkt_sets(P, x, delta):
    """Matrix blocks and sets of the inclusion
    ``0 in s + A^*(A x - b) + sum L_i^* y_i`` at the flat point ``x``.

    Returns ``(const, blocks)`` with ``blocks`` = list of (B, SetDesc): the
    KKT residual is ``min ||const + sum B v||`` over v in the sets.
    """
    n = x.size
    if not P.has_data:
        const = np.zeros(n)
    elif P.A is None:
        const = x - P.b
    else:
        const = P.A.adj @ (P.A.M @ x - P.b)
    blocks = [(np.eye(n), ref_subdiff(P.phi_fd, P.phi_data, P.X, P.dX, x,
                                       delta))]
    for T in P.terms:
        dl = delta * max(np.abs(T.lin.M).sum(axis=1).max(initial=0.0), 1.0)
        blocks.append((T.lin.adj, ref_subdiff(
            T.fd, T.data, T.lin.op.range, T.lin.dY, T.lin.M @ x, dl)))
    return const, blocks


# --------------------------------------------------------------------------
# 5. inclusion distance:  min || c + sum_j B_j v_j ||_W,  v_j in C_j

def inclusion_distance(const, blocks, dX, tol, maxiter=4000):
    """Distance (norm with Gram diagonal dX) of 0 to ``const + sum B_j C_j``.

    Returns ``(dist, feasible)``.  Degenerate intervals are substituted,
    the rest is solved by bounded least squares (scipy ``lsq_linear``);
    ball constraints are handled by accelerated projected gradients with the
    box relaxation as a sound fall-back (the relaxation can only under-
    estimate the distance, so it never produces a false alarm).
    """
    from scipy.optimize import lsq_linear
    if not all(s.feasible for _, s in blocks):
        return np.inf, False
    sq = np.sqrt(dX)
    B = np.hstack([b for b, _ in blocks]) * sq[:, None]
    c = const * sq
    lo = np.concatenate([s.lo for _, s in blocks])
    hi = np.concatenate([s.hi for _, s in blocks])
    balls = []
    pos = 0
    for b, s in blocks:
        for idx, r in s.balls:
            balls.append((idx + pos, r))
        pos += b.shape[1]
    if float(np.sqrt(np.sum(c * c))) <= tol and not balls and \
            np.all(lo <= 0) and np.all(hi >= 0):
        return float(np.sqrt(np.sum(c * c))), True

    def solve_box(lo, hi):
        fixed = lo == hi
        cc = c + B[:, fixed] @ lo[fixed]
        free = ~fixed
        if not free.any():
            return float(np.sqrt(np.sum(cc * cc)))
        Bf, lf, hf = B[:, free], lo[free], hi[free]
        # every feasible point bounds the distance from above, so the best
        # of several solvers is taken (BVLS alone can stop early on
        # rank-deficient systems with unbounded variables)
        cands = [np.clip(np.zeros(Bf.shape[1]), lf, hf)]
        if np.all(np.isinf(lf)) and np.all(np.isinf(hf)):
            cands.append(np.linalg.lstsq(Bf, -cc, rcond=None)[0])
        else:
            for method in ('bvls', 'trf'):
                try:
                    res = lsq_linear(Bf, -cc, bounds=(lf, hf), method=method,
                                     tol=1e-14, max_iter=400)
                    cands.append(np.clip(res.x, lf, hf))
                except Exception:  # noqa
                    pass
            # unbounded variables: polish by an unconstrained solve for them
            unb = np.isinf(lf) & np.isinf(hf)
            if unb.any() and len(cands) > 1:
                v = cands[-1].copy()
                v[unb] = np.linalg.lstsq(
                    Bf[:, unb], -(cc + Bf[:, ~unb] @ v[~unb]),
                    rcond=None)[0]
                cands.append(v)
        best = np.inf
        for v in cands:
            r = Bf @ v + cc
            best = min(best, float(np.sqrt(np.sum(r * r))))
        return best

    if not balls:
        return solve_box(lo, hi), True

    # accelerated projected gradient for the ball-constrained problem
    lo2, hi2 = lo.copy(), hi.copy()
    for idx, r in balls:
        lo2[idx], hi2[idx] = -np.inf, np.inf

    def proj(v):
        out = np.clip(v, lo2, hi2)
        for idx, r in balls:
            nv = np.sqrt(np.sum(out[idx] ** 2))
            if nv > r:
                out[idx] *= r / nv
        return out

    Lc = max(np.linalg.norm(B, 2) ** 2, 1e-300)
    v = proj(np.zeros(B.shape[1]))
    w, t = v.copy(), 1.0
    best = np.inf
    for it in range(maxiter):
        res = B @ w + c
        vn = proj(w - (B.T @ res) / Lc)
        tn = (1 + np.sqrt(1 + 4 * t * t)) / 2
        w = vn + ((t - 1) / tn) * (vn - v)
        v, t = vn, tn
        if it % 10 == 9:
            best = min(best, float(np.linalg.norm(B @ v + c)))
            if best <= tol:
                return best, True
    best = min(best, float(np.linalg.norm(B @ v + c)))
    if best <= tol:
        return best, True
    # sound fall-back: relax the balls to boxes
    for idx, r in balls:
        lo[idx], hi[idx] = -r, r
    return min(best, solve_box(lo, hi)), True


# --------------------------------------------------------------------------
# 6. linear systems

def spd_system(domain, svals, seed):
    """Operator that is self-adjoint positive definite w.r.t. the inner
    product of ``domain`` (constant weights: any symmetric matrix is), its
    matrix, a solution and the right-hand side."""
    n = domain.size
    rng = np.random.RandomState(int(seed) % (2 ** 32))
    Q, _ = np.linalg.qr(rng.standard_normal((n, n)))
    lamv = np.zeros(n)
    lamv[:len(svals)] = np.asarray(svals, dtype=float)[:n]
    A = (Q * lamv[None, :]) @ Q.T
    A = (A + A.T) / 2
    op = odl.MatrixOperator(A, domain=domain, range=domain)
    xsol = np.round(rng.standard_normal(n), 3)
    return op, A, xsol, A @ xsol, rng


# --------------------------------------------------------------------------
# 7. strategies

COND_STRATA = [1.0, 3.0, 10.0, 1e2, 1e3, 1e4]


def cond_label(c):
    return 'cond<=1e{}'.format(int(np.ceil(np.log10(max(c, 1.0)) - 1e-4)))


@st.composite
def svals_st(draw, r, conds=COND_STRATA, rank_deficient=False):
    cond = draw(st.sampled_from(list(conds)))
    smax = draw(st.sampled_from([1.0, 0.5, 3.0]))
    if r == 1:
        sv = [smax]
    else:
        sv = [float(smax * cond ** (-i / (r - 1.0))) for i in range(r)]
    if rank_deficient and r >= 2:
        k = draw(st.integers(1, r - 1))
        sv = sv[:k] + [0.0] * (r - k)
    return [float(np.float32(s)) for s in sv]


@st.composite
def tensor_domain_st(draw, nmin=2, nmax=8, weighted=True):
    n = draw(st.integers(nmin, nmax))
    w = None
    if weighted and draw(st.integers(0, 2)) == 0:
        w = {'type': 'const',
             'value': draw(st.sampled_from([0.5, 2.0, 0.1, 3.0]))}
    return {'kind': 'tensor', 'shape': [n], 'dtype': 'float64',
            'weighting': w, 'exponent': 2.0}


@st.composite
def discr_domain_st(draw, two_d=True):
    if two_d and draw(st.booleans()):
        shape = draw(st.sampled_from([[2, 2], [2, 3], [3, 2], [3, 3],
                                      [2, 4]]))
    else:
        shape = [draw(st.integers(2, 8))]
    mins = [draw(st.sampled_from([0.0, -1.0, 0.5])) for _ in shape]
    cell = [draw(st.sampled_from([1.0, 0.5, 0.25, 2.0])) for _ in shape]
    maxs = [lo + c * s for lo, c, s in zip(mins, cell, shape)]
    return {'kind': 'discr', 'min': mins, 'max': maxs, 'shape': shape,
            'dtype': 'float64', 'exponent': 2.0, 'nodes_on_bdry': False,
            'weighting': None}


@st.composite
def matrix_op_st(draw, n, conds=COND_STRATA, mmin=1, mmax=8,
                 rank_deficient=False, injective=False, explicit=True):
    if injective:
        m = draw(st.integers(n, max(n, mmax)))
    else:
        m = draw(st.integers(mmin, mmax))
    if explicit and not injective and m * n <= 24 and \
            draw(st.integers(0, 3)) == 0:
        data = draw(st.lists(st.lists(st.integers(-3, 3), min_size=n,
                                      max_size=n), min_size=m, max_size=m))
        if any(any(v != 0 for v in row) for row in data):
            return {'kind': 'matrix', 'data': data}
    r = min(m, n)
    return {'kind': 'matrix', 'm': m,
            'svals': draw(svals_st(r, conds, rank_deficient)),
            'seed': draw(st.integers(0, 2 ** 20))}


GRAD_METHODS = ['forward', 'backward', 'central']
GRAD_PADS = ['constant', 'symmetric', 'periodic', 'order0', 'order1']


@st.composite
def gradient_op_st(draw, pads=GRAD_PADS):
    return {'kind': 'gradient', 'method': draw(st.sampled_from(GRAD_METHODS)),
            'pad_mode': draw(st.sampled_from(list(pads)))}


@st.composite
def simple_op_st(draw):
    k = draw(st.sampled_from(['identity', 'scaling', 'multiply']))
    if k == 'identity':
        return {'kind': 'identity'}
    if k == 'scaling':
        return {'kind': 'scaling',
                'scalar': draw(st.sampled_from([2.0, -1.5, 0.5, -0.25, 3.0]))}
    return {'kind': 'multiply', 'seed': draw(st.integers(0, 2 ** 20))}


LAMS = [1.0, 0.7, 0.25, 2.0, 1.5]


@st.composite
def func_desc_st(draw, kinds, power_space=False, leaf=True):
    """Functional descriptor with a kind from ``kinds`` admissible on the
    space (group-L1 only on power spaces, Huber only on leaf spaces)."""
    ok = [k for k in kinds
          if (k != 'groupl1' or power_space) and (k != 'huber' or leaf)
          and (k != 'kl' or leaf)]
    kind = draw(st.sampled_from(ok))
    fd = {'kind': kind}
    if kind in ('l1', 'l2', 'groupl1', 'huber', 'kl', 'l2sq'):
        fd['lam'] = draw(st.sampled_from(LAMS))
        forms = ['left', 'right'] if kind in NORMLIKE + ('l2sq',) \
            else ['left']
        fd['form'] = draw(st.sampled_from(forms))
        if fd['lam'] == 1.0 and fd['form'] == 'left':
            fd['form'] = 'plain'
    if kind == 'huber':
        fd['gamma'] = draw(st.sampled_from([0.5, 0.1, 1.0, 2.0]))
    if kind == 'box':
        fd['scalar_bounds'] = draw(st.integers(0, 3)) == 0
    return fd


# --------------------------------------------------------------------------
# space classes (structure of a space known at strategy time)
#   {'t': 'leaf', 'n': n} | {'t': 'power', 'k': k, 'base': cls}
#   | {'t': 'prod', 'parts': [cls, ...]}

def space_class(sd):
    if sd['kind'] == 'pspace':
        if sd.get('power') is not None:
            return {'t': 'power', 'k': int(sd['power']),
                    'base': space_class(sd['base'])}
        parts = [space_class(p) for p in sd['parts']]
        return {'t': 'prod', 'parts': parts}
    return {'t': 'leaf', 'n': build.space_size(sd),
            'ndim': len(build.space_shape(sd)), 'kind': sd['kind']}


def class_dim(cls):
    if cls['t'] == 'leaf':
        return cls['n']
    if cls['t'] == 'power':
        return cls['k'] * class_dim(cls['base'])
    return sum(class_dim(p) for p in cls['parts'])


def range_class(od, dom):
    """Class of the range of the operator ``od`` on a domain of class
    ``dom``."""
    kind = od['kind']
    if kind in ('matrix', 'posmatrix'):
        m = len(od['data']) if 'data' in od else int(od['m'])
        return {'t': 'leaf', 'n': m, 'ndim': 1, 'kind': 'tensor'}
    if kind in ('identity', 'scaling', 'multiply', 'partial', 'laplacian',
                'sqmatrix', 'sum', 'comp', 'pso_square', 'pso_cut'):
        return dom
    if kind == 'gradient':
        return {'t': 'power', 'k': dom['ndim'], 'base': dom}
    if kind == 'divergence':
        return dom['base']
    if kind == 'broadcast':
        parts = [range_class(o, dom) for o in od['ops']]
        if all(p == parts[0] for p in parts):
            return {'t': 'power', 'k': len(parts), 'base': parts[0]}
        return {'t': 'prod', 'parts': parts}
    if kind == 'reduction':
        comps = dom['parts'] if dom['t'] == 'prod' else \
            [dom['base']] * dom['k']
        return range_class(od['ops'][0], comps[0])
    if kind == 'pso':
        comps = dom['parts'] if dom['t'] == 'prod' else \
            [dom['base']] * dom['k']
        parts = []
        for row in od['blocks']:
            j = [i for i, o in enumerate(row) if o is not None][0]
            parts.append(range_class(row[j], comps[j]))
        if all(p == parts[0] for p in parts):
            return {'t': 'power', 'k': len(parts), 'base': parts[0]}
        return {'t': 'prod', 'parts': parts}
    raise HarnessError('unknown operator kind {!r}'.format(kind))


ALL_KINDS = ('l1', 'l2', 'l2sq', 'box', 'nonneg', 'huber', 'kl', 'zero',
             'groupl1')


@st.composite
def func_on_class_st(draw, cls, kinds=ALL_KINDS, sepsum=True):
    """Functional descriptor admissible on a space of class ``cls``."""
    leaf = cls['t'] == 'leaf'
    power = cls['t'] == 'power' and cls['base']['t'] == 'leaf'
    if not leaf and sepsum and draw(st.integers(0, 3)) == 0:
        comps = cls['parts'] if cls['t'] == 'prod' else \
            [cls['base']] * cls['k']
        return {'kind': 'sepsum',
                'parts': [draw(func_on_class_st(c, kinds, sepsum=False))
                          for c in comps]}
    fd = draw(func_desc_st(kinds, power_space=power, leaf=leaf))
    if not leaf and fd.get('scalar_bounds'):
        fd['scalar_bounds'] = False
    return fd


LAPL_PADS = ['constant', 'symmetric', 'periodic', 'order0']


@st.composite
def stencil_op_st(draw, sd, compound=True):
    """Same-space finite-difference operator on the discretized space sd:
    PartialDerivative, Laplacian, or a sum / composition of them."""
    nd = len(sd['shape'])

    def one():
        if draw(st.integers(0, 2)) == 0:
            return {'kind': 'laplacian',
                    'pad_mode': draw(st.sampled_from(LAPL_PADS))}
        return {'kind': 'partial', 'axis': draw(st.integers(0, nd - 1)),
                'method': draw(st.sampled_from(GRAD_METHODS)),
                'pad_mode': draw(st.sampled_from(GRAD_PADS))}

    if compound and draw(st.integers(0, 3)) == 0:
        second = draw(st.one_of(st.just(None), simple_op_st()))
        return {'kind': draw(st.sampled_from(['sum', 'comp'])),
                'ops': [one(), second if second is not None else one()]}
    return one()


@st.composite
def square_block_op_st(draw, base_sd):
    """Full block operator [[A, B], [C, D]] on X x X (X = base_sd), off-
    diagonal blocks present."""
    def blk():
        if base_sd['kind'] == 'tensor':
            if draw(st.integers(0, 3)) == 0:
                return draw(simple_op_st())
            n = base_sd['shape'][0]
            return {'kind': 'sqmatrix',
                    'svals': draw(svals_st(n, [1.0, 3.0, 10.0])),
                    'seed': draw(st.integers(0, 2 ** 20))}
        if draw(st.integers(0, 2)) == 0:
            return draw(simple_op_st())
        return draw(stencil_op_st(base_sd, compound=False))

    rows = [[blk(), blk()], [blk(), blk()]]
    if draw(st.integers(0, 3)) == 0:
        rows[draw(st.integers(0, 1))][draw(st.integers(0, 1))] = None
        if all(o is None for o in rows[0]) or \
                all(o is None for o in rows[1]):
            rows = [[blk(), blk()], [blk(), blk()]]
    return {'kind': 'pso_square', 'blocks': rows}


def op_shape_stratum(od):
    """'L=stencil-square' / 'L=block-square' / None for an operator."""
    k = od['kind']
    if k in ('pso_square', 'pso_cut'):
        return 'L=block-square'
    if k in ('partial', 'laplacian'):
        return 'L=stencil-square'
    if k in ('sum', 'comp') and any(
            o['kind'] in ('partial', 'laplacian') for o in od['ops']):
        return 'L=stencil-square'
    return None
