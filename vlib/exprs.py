"""Typed operator-expression grammar shared by C04 and C06.

Three pieces, all working on *plain data*:

* ``trees(...)`` -- Hypothesis strategy producing well-typed expression trees
  (nested dicts) over a small *type table* (``types``: key -> space/field
  descriptor).  Typing is done on the descriptors (domain key, range key,
  field key, "is a true ``Functional``" bookkeeping) so every generated tree
  is well typed by construction -- no ``assume``.
* ``build(env, node)`` -- tree -> live ODL operator, using the documented
  overloads (``+ - * @ / **``, reflected variants) or the expression classes'
  constructors, as the node's ``how`` says.
* ``Interp`` -- an independent reference interpreter: it evaluates the same
  tree by applying the documented algebra table recursively on NumPy values
  (arrays / nested lists of arrays for product spaces / scalars for fields)
  and calls ODL only for *leaf* operators.

Type descriptors (``types[key]``)::

    <space descriptor of vlib.build>           (leaf space)
    {"kind": "field_of", "of": key}            field of a space
    {"kind": "reals"}                          RealNumbers()
    {"kind": "real_of" | "complex_of", "of": key}
    {"kind": "prod", "of": [key, ...], "weighting": None|const|array}
    {"kind": "power", "of": key, "n": n, "weighting": ..., "exponent": p}

every entry carries ``"fkey"``: the key of its scalar field.

Node descriptors::

    {"op": "leaf", "kind": k, "dom": key, "ran": key, "args": {...}, "fk": ..}
    {"op": <ctor>, "dom": .., "ran": .., "a": node[, "b": node], "how": ..,
     ["s": scalar-desc] ["v": element-desc] ["n": int] "fk": "op"|"func"}
"""
import numpy as np
from hypothesis import strategies as st

from . import build as vbuild
from .core import HarnessError, Violation, import_odl

odl = import_odl()
from odl.space.pspace import ProductSpace  # noqa: E402
from odl.set.sets import Field  # noqa: E402
from odl.solvers.functional.functional import Functional  # noqa: E402
from odl.operator.operator import (  # noqa: E402
    Operator, OperatorSum, OperatorVectorSum, OperatorComp,
    OperatorLeftScalarMult, OperatorRightScalarMult, OperatorLeftVectorMult,
    OperatorRightVectorMult, FunctionalLeftVectorMult,
    OperatorPointwiseProduct)

EXPLICIT_LIMIT = 24


# --------------------------------------------------------------------------
# type table

class TInfo(object):
    __slots__ = ('cat', 'cplx', 'dtype', 'shape', 'parts', 'discr', 'key')

    def __init__(self, cat, cplx, dtype, shape=(), parts=(), discr=False,
                 key=None):
        self.cat, self.cplx, self.dtype = cat, cplx, dtype
        self.shape, self.parts, self.discr = tuple(shape), list(parts), discr
        self.key = key

    @property
    def size(self):
        return int(np.prod(self.shape, dtype=int))


def _real_dtype(dt):
    return {'complex128': 'float64', 'complex64': 'float32'}.get(dt, dt)


def _cplx_dtype(dt):
    return {'float64': 'complex128', 'float32': 'complex64'}.get(dt, dt)


def tinfo(types, key):
    td = types[key]
    kind = td['kind']
    if kind in ('tensor', 'discr'):
        dt = td.get('dtype', 'float64')
        return TInfo('leaf', np.dtype(dt).kind == 'c', dt, td['shape'],
                     discr=(kind == 'discr'), key=key)
    if kind == 'field_of':
        base = tinfo(types, td['of'])
        return TInfo('field', base.cplx,
                     'complex128' if base.cplx else 'float64', key=key)
    if kind == 'reals':
        return TInfo('field', False, 'float64', key=key)
    if kind == 'real_of':
        base = tinfo(types, td['of'])
        return TInfo('leaf', False, _real_dtype(base.dtype), base.shape,
                     discr=base.discr, key=key)
    if kind == 'complex_of':
        base = tinfo(types, td['of'])
        return TInfo('leaf', True, _cplx_dtype(base.dtype), base.shape,
                     discr=base.discr, key=key)
    if kind == 'resize_of':
        base = tinfo(types, td['of'])
        return TInfo('leaf', base.cplx, base.dtype, td['shape'], discr=True,
                     key=key)
    if kind == 'prod':
        parts = list(td['of'])
        infos = [tinfo(types, p) for p in parts]
        return TInfo('prod', all(i.cplx for i in infos), infos[0].dtype,
                     parts=parts, key=key)
    if kind == 'power':
        parts = [td['of']] * int(td['n'])
        base = tinfo(types, td['of'])
        return TInfo('prod', base.cplx, base.dtype, parts=parts, key=key)
    raise HarnessError('unknown type descriptor {!r}'.format(td))


def rdim(types, key):
    ti = tinfo(types, key)
    if ti.cat == 'field':
        return 2 if ti.cplx else 1
    if ti.cat == 'leaf':
        return ti.size * (2 if ti.cplx else 1)
    return sum(rdim(types, p) for p in ti.parts)


class Env(object):
    """Type table with lazily built ODL sets (one object per key)."""

    def __init__(self, types):
        self.types = types
        self._sets = {}
        self.vec_pool = {}

    def info(self, key):
        return tinfo(self.types, key)

    @property
    def eps(self):
        """Machine epsilon of the coarsest leaf-space dtype of the table
        (field values carry no dtype of their own)."""
        e = np.finfo(float).eps
        for key in self.types:
            ti = self.info(key)
            if ti.cat == 'leaf':
                e = max(e, float(np.finfo(np.dtype(ti.dtype)).eps))
        return e

    def set(self, key):
        if key in self._sets:
            return self._sets[key]
        td = self.types[key]
        kind = td['kind']
        if kind in ('tensor', 'discr'):
            s = vbuild.build_space(td)
        elif kind == 'field_of':
            s = self.set(td['of']).field
        elif kind == 'reals':
            s = odl.RealNumbers()
        elif kind == 'real_of':
            s = self.set(td['of']).real_space
        elif kind == 'complex_of':
            s = self.set(td['of']).complex_space
        elif kind == 'resize_of':
            s = odl.ResizingOperator(self.set(td['of']),
                                     ran_shp=tuple(td['shape']),
                                     offset=tuple(td['offset'])).range
        elif kind in ('prod', 'power'):
            kwargs = {}
            w = td.get('weighting')
            if w is not None:
                kwargs['weighting'] = (float(w['value'])
                                       if w['type'] == 'const'
                                       else [float(v) for v in w['data']])
            if td.get('exponent', 2.0) != 2.0:
                kwargs['exponent'] = float(td['exponent'])
            if kind == 'power':
                s = ProductSpace(self.set(td['of']), int(td['n']), **kwargs)
            else:
                s = ProductSpace(*[self.set(k) for k in td['of']], **kwargs)
        else:
            raise HarnessError('unknown type descriptor {!r}'.format(td))
        self._sets[key] = s
        return s

    # -- values ----------------------------------------------------------
    def np_value(self, key, ed):
        """NumPy value (array / scalar / nested list) described by ``ed``."""
        ti = self.info(key)
        if ti.cat == 'field':
            return complex(ed) if ti.cplx else float(ed)
        if ti.cat == 'prod':
            if len(ed) != len(ti.parts):
                raise HarnessError('element descriptor length mismatch')
            return [self.np_value(p, e) for p, e in zip(ti.parts, ed)]
        return vbuild.array_values(ed, dtype=ti.dtype, shape=ti.shape)

    def element(self, key, val):
        """ODL element of ``set(key)`` holding NumPy value ``val`` (copy)."""
        return to_odl(self.set(key), val)

    def zero_value(self, key):
        ti = self.info(key)
        if ti.cat == 'field':
            return 0j if ti.cplx else 0.0
        if ti.cat == 'prod':
            return [self.zero_value(p) for p in ti.parts]
        return np.zeros(ti.shape, dtype=ti.dtype)


def to_odl(space, val):
    if isinstance(space, Field):
        return space.element(val)
    if isinstance(space, ProductSpace):
        return space.element([to_odl(si, vi) for si, vi in zip(space.spaces,
                                                               val)])
    return space.element(np.array(val, dtype=space.dtype, copy=True))


def to_np(x, space):
    if isinstance(space, Field):
        c = complex(x)
        return c if space == odl.ComplexNumbers() else float(c.real)
    if isinstance(space, ProductSpace):
        return [to_np(xi, si) for xi, si in zip(x, space.spaces)]
    return np.array(x.asarray(), copy=True)


# nested-value arithmetic ---------------------------------------------------

def vmap(f, *vals):
    if isinstance(vals[0], list):
        return [vmap(f, *parts) for parts in zip(*vals)]
    return f(*vals)


def vadd(a, b):
    return vmap(lambda p, q: p + q, a, b)


def vsub(a, b):
    return vmap(lambda p, q: p - q, a, b)


def vmul(a, b):
    return vmap(lambda p, q: p * q, a, b)


def vscale(s, a):
    """``s * a`` in the working precision of ``a`` (``s`` a Python number)."""
    def f(p):
        if isinstance(p, np.ndarray):
            if isinstance(s, complex) and p.dtype.kind != 'c':
                if s.imag != 0:
                    raise HarnessError('complex scalar on real value')
                return p * p.dtype.type(s.real)
            return p * p.dtype.type(s)
        return s * p
    return vmap(f, a)


def vflat(a):
    """1-D complex/float array of all entries."""
    if isinstance(a, list):
        parts = [vflat(p) for p in a]
        return np.concatenate(parts) if parts else np.zeros(0)
    return np.atleast_1d(np.asarray(a)).ravel()


def vmaxabs(a):
    f = vflat(a)
    return float(np.max(np.abs(f))) if f.size else 0.0


def vfinite(a):
    return bool(np.all(np.isfinite(vflat(a))))


def veps(a):
    """Machine epsilon of the working precision of value ``a``."""
    if isinstance(a, list):
        return max(veps(p) for p in a) if a else np.finfo(float).eps
    if isinstance(a, np.ndarray) and a.dtype.kind in 'fc':
        return float(np.finfo(a.dtype).eps)
    return float(np.finfo(float).eps)


# --------------------------------------------------------------------------
# scalars

def build_scalar(sd):
    """Scalar object (Python or NumPy scalar type) described by ``sd``."""
    v = sd['v']
    t = sd.get('np')
    if t is None:
        return v
    if t == 'pyint':
        return int(v)
    return np.dtype(t).type(v)


def scalar_value(sd):
    """The mathematical value of the built scalar as Python number."""
    s = build_scalar(sd)
    c = complex(s)
    return c if isinstance(s, (complex, np.complexfloating)) else float(c.real)


@st.composite
def scalars(draw, cplx, nonzero=False, classes=None):
    classes = classes or (['one', 'mone', 'generic', 'generic', 'generic']
                          + ([] if nonzero else ['zero']))
    cls = draw(st.sampled_from(classes))
    if cls == 'zero':
        v = 0.0
    elif cls == 'one':
        v = 1.0
    elif cls == 'mone':
        v = -1.0
    else:
        v = draw(st.sampled_from([2.0, -0.5, 3.0, 0.25, -2.5, 1.5, -1.25,
                                  0.75]))
    t = None
    if cplx:
        if cls == 'generic' and draw(st.booleans()):
            v = complex(v, draw(st.sampled_from([1.0, -0.5, 2.0, 0.25])))
        if isinstance(v, complex):
            t = draw(st.sampled_from([None, None, 'complex128']))
        else:
            t = draw(st.sampled_from([None, None, 'float64', 'complex128']))
    else:
        opts = [None, None, None, 'float64', 'float32']
        if float(v).is_integer():
            opts += ['pyint', 'int64', 'int32']
        t = draw(st.sampled_from(opts))
    return {'v': v, 'np': t, 'cls': cls}


# --------------------------------------------------------------------------
# element descriptors (bounded values; own palette, see module docstring)

PALETTE = [0.0, 1.0, -1.0, 0.5, -0.25, 2.0, 1.5, -0.3, 0.7, -1.75, 0.125]


def _r3(x):
    return float(np.round(x, 3))


def _entry(lo, hi, positive=False):
    if positive:
        return st.one_of(st.sampled_from([1.0, 0.5, 2.0, 1.5, 0.7, 0.3]),
                         st.floats(max(lo, 0.25), hi).map(_r3))
    pal = [p for p in PALETTE if lo <= p <= hi]
    return st.one_of(st.sampled_from(pal), st.floats(lo, hi).map(_r3))


@st.composite
def array_descs(draw, shape, dtype, lo=-2.0, hi=2.0, positive=False,
                orders=('C',)):
    shape = tuple(int(s) for s in shape)
    size = int(np.prod(shape, dtype=int))
    dt = np.dtype(dtype)
    ad = {'dtype': str(dt), 'shape': list(shape),
          'order': draw(st.sampled_from(list(orders)))}
    if size <= EXPLICIT_LIMIT:
        ent = _entry(lo, hi, positive)
        if dt.kind == 'c':
            if positive:
                # positive real part, free imaginary part
                ent = st.tuples(ent, _entry(lo, hi)).map(
                    lambda t: complex(t[0], t[1]))
            else:
                ent = st.tuples(ent, ent).map(lambda t: complex(t[0], t[1]))
        vals = draw(st.lists(ent, min_size=size, max_size=size))
        arr = np.empty(size, dtype=object)
        for i, v in enumerate(vals):
            arr[i] = v
        ad['data'] = arr.reshape(shape).tolist() if shape else vals[0]
    else:
        ad['gen'] = {'seed': draw(st.integers(0, 2 ** 31 - 1)),
                     'scale': float(hi),
                     'kind': 'pos' if positive else 'uniform'}
    return ad


@st.composite
def values(draw, types, key, lo=-2.0, hi=2.0, positive=False):
    """Element descriptor for type ``key``."""
    ti = tinfo(types, key)
    if ti.cat == 'field':
        v = draw(_entry(lo, hi, positive))
        if ti.cplx:
            v = complex(v, draw(_entry(lo, hi)))
        return v
    if ti.cat == 'prod':
        return [draw(values(types, p, lo, hi, positive)) for p in ti.parts]
    orders = ('C',) if len(ti.shape) < 2 else ('C', 'C', 'F')
    return draw(array_descs(ti.shape, ti.dtype, lo, hi, positive, orders))


# --------------------------------------------------------------------------
# type tables

@st.composite
def weighting_descs(draw, shape, kinds):
    k = draw(st.sampled_from(kinds))
    if k == 'none':
        return None
    if k == 'const':
        return {'type': 'const',
                'value': draw(st.sampled_from([2.0, 0.5, 1.5, 3.0, 0.25]))}
    size = int(np.prod(shape, dtype=int))
    vals = draw(st.lists(st.sampled_from([1.0, 2.0, 0.5, 1.5, 3.0]),
                         min_size=size, max_size=size))
    return {'type': 'array', 'data': np.array(vals).reshape(shape).tolist()}


@st.composite
def base_types(draw, precs=('64', '64', '64', '32'), pspaces=False):
    """Type table: X (tensor / discr, real / complex, weighted), Y (second
    1-D tensor space), F (field of X) and, for complex X, Xr (real space of
    X) and R (the reals).  With ``pspaces``: XX (power of X, weighted or
    not), P (X x Y), Pw (X x Y with array weighting) and, for discretized X,
    G (range of the gradient)."""
    cplx = draw(st.sampled_from([False, False, True]))
    prec = draw(st.sampled_from(list(precs)))
    dtype = ('complex' + {'64': '128', '32': '64'}[prec]) if cplx \
        else 'float' + prec
    skind = draw(st.sampled_from(['tensor', 'tensor', 'discr']))
    if draw(st.sampled_from([True] + [False] * 4)):
        shape = draw(st.sampled_from([[2, 2], [2, 3], [3, 2], [1, 3],
                                      [3, 3]]))
    else:
        shape = [draw(st.sampled_from([1, 2, 3, 3, 4, 5]))]
    if skind == 'tensor':
        X = {'kind': 'tensor', 'shape': shape, 'dtype': dtype,
             'exponent': 2.0,
             'weighting': draw(weighting_descs(
                 shape, ['none', 'none', 'const', 'array'] if prec == '64'
                 else ['none', 'const']))}
    else:
        nob = draw(st.booleans()) and min(shape) > 1
        cell = draw(st.sampled_from([1.0, 0.5, 0.25, 2.0]))
        X = {'kind': 'discr', 'min': [0.0] * len(shape),
             'max': [cell * (s - 1 if nob else s) for s in shape],
             'shape': shape, 'dtype': dtype, 'exponent': 2.0,
             'nodes_on_bdry': nob,
             'weighting': draw(weighting_descs(
                 shape, ['none', 'none', 'none', 'const']))}
    m = draw(st.sampled_from([1, 2, 3, 4]))
    Y = {'kind': 'tensor', 'shape': [m], 'dtype': dtype, 'exponent': 2.0,
         'weighting': draw(weighting_descs([m], ['none', 'none', 'const']))}
    X['fkey'] = Y['fkey'] = 'F'
    types = {'X': X, 'Y': Y,
             'F': {'kind': 'field_of', 'of': 'X', 'fkey': 'F'}}
    if cplx:
        types['Xr'] = {'kind': 'real_of', 'of': 'X', 'fkey': 'R'}
        types['R'] = {'kind': 'reals', 'fkey': 'R'}
    if pspaces:
        n = draw(st.sampled_from([2, 2, 3, 1]))
        wk = draw(st.sampled_from(['none', 'none', 'const', 'array']))
        w = None
        if wk == 'const':
            w = {'type': 'const', 'value': draw(st.sampled_from([2.0, 0.5]))}
        elif wk == 'array':
            w = {'type': 'array', 'data': [1.5, 0.5, 2.0][:n]}
        types['XX'] = {'kind': 'power', 'of': 'X', 'n': n, 'weighting': w,
                       'exponent': 2.0, 'fkey': 'F', 'default': w is None}
        types['P'] = {'kind': 'prod', 'of': ['X', 'Y'], 'weighting': None,
                      'fkey': 'F', 'default': True}
        types['Pw'] = {'kind': 'prod', 'of': ['X', 'Y'], 'fkey': 'F',
                       'weighting': {'type': 'array', 'data': [2.0, 0.5]},
                       'default': False}
        if skind == 'discr' and min(shape) >= 3:
            types['G'] = {'kind': 'power', 'of': 'X', 'n': len(shape),
                          'weighting': None, 'exponent': 2.0, 'fkey': 'F',
                          'default': True, 'grad_of': 'X'}
    return types


# --------------------------------------------------------------------------
# leaves

UFUNCS_SMOOTH = ['sin', 'cos', 'exp', 'square', 'sinh', 'cosh']
UFUNCS_C04_EXTRA = ['arctan', 'tanh']       # no derivative in ODL
UFUNCS_LINEAR = ['negative']
FUNCTIONAL_KINDS = ['l2sq', 'l1', 'l2', 'quadlin', 'quad', 'constf', 'zerof']
DIFF_METHODS = ['forward', 'backward', 'central']
DIFF_PADS = ['constant', 'symmetric', 'periodic', 'order0', 'order1',
             'order2']
LAP_PADS = ['constant', 'symmetric', 'periodic', 'order0']

# leaf kinds that are linear maps (true linearity, used for bookkeeping only)
LINEAR_LEAVES = {'identity', 'flatten', 'scaling', 'matrix', 'multiply', 'multiply_field',
                 'zero', 'partial', 'laplacian', 'inner', 'realpart',
                 'imagpart', 'cembed', 'negative', 'fscaling', 'quadlin',
                 'fscalingfunc', 'zerof', 'pwinner', 'pwsum', 'lincomb',
                 'ufunc_add', 'ufunc_subtract', 'gradient', 'divergence',
                 'resize', 'compproj'}


def _is_real_of(types, a, b):
    """True if type ``a`` is the real space of type ``b``."""
    ta = types[a]
    return ta['kind'] == 'real_of' and ta['of'] == b


def _plain_unweighted(types, key):
    """The leaf space ``key`` (followed through real_of / complex_of) is a
    tensor space without weighting and with exponent 2."""
    td = types[key]
    while td['kind'] in ('real_of', 'complex_of'):
        td = types[td['of']]
    return (td['kind'] == 'tensor' and td.get('weighting') is None and
            td.get('exponent', 2.0) == 2.0)


def leaf_kinds(types, dom, ran, mode='c04'):
    """Leaf kinds available for the (dom, ran) pair."""
    D, R = tinfo(types, dom), tinfo(types, ran)
    same = dom == ran
    c06 = mode == 'c06'
    out = []
    if D.cat == 'leaf' and same:
        out += ['identity', 'scaling', 'multiply', 'zero', 'ufunc', 'ufunc',
                'ufunc', 'ufunc', 'power', 'power', 'constant', 'negative']
        if len(D.shape) >= 1:
            out += ['matrix', 'matrix']
        if len(D.shape) == 1 and _plain_unweighted(types, dom):
            # FlatteningOperator: on an unweighted 1-d tensor space it maps
            # the space to itself and its out-of-place result is a *view* of
            # the evaluation point
            out += ['flatten', 'flatten']
        if D.discr and max(D.shape) >= 3:
            out.append('partial')
        if D.discr and min(D.shape) >= 3:
            out.append('laplacian')
        if D.cplx:
            out.append('cembed')
        else:
            out += ['cmod', 'cmodsq', 'realpart']
        if not c06:
            # operators implementing only the out-of-place ``_call(self, x)``
            # (as RealPart / ComplexModulus do): gradient operators
            out += ['compgrad', 'compgrad']
            # (Huber cannot be evaluated on array-weighted spaces, C09)
            if not D.cplx and not any(
                    (t.get('weighting') or {}).get('type') == 'array'
                    for t in types.values()
                    if t['kind'] in ('tensor', 'discr')):
                out.append('hubergrad')
    elif D.cat == 'leaf' and R.cat == 'leaf':
        if _is_real_of(types, ran, dom):
            out += ['realpart', 'imagpart', 'cmod', 'cmodsq']
            if not c06:
                out.append('ufunc_abs')
        elif _is_real_of(types, dom, ran):
            out.append('cembed')
        elif D.cplx == R.cplx and D.dtype == R.dtype:
            out += ['zero', 'constant']
            if len(D.shape) == 1 and len(R.shape) == 1:
                out += ['matrix', 'matrix', 'matrix']
    elif D.cat == 'leaf' and R.cat == 'field':
        if ran == types[dom]['fkey']:
            out += ['inner', 'inner']
            if not c06:
                # LpNorm is not usable on complex spaces (its evaluation
                # mixes the real |x| with the complex one())
                out += ['l2sq', 'constf', 'zerof']
                if not D.cplx:
                    out += ['l1', 'l2', 'quadlin']
                    if len(D.shape) == 1:
                        out.append('quad')
        if not R.cplx and (ran == types[dom]['fkey'] or
                           types[ran]['kind'] == 'reals') and \
                not (c06 and D.cplx):
            # (C06: on complex spaces the derivative of Norm/DistOperator is
            # known finding C06-K1; kept out of trees, present in the zoo)
            out += ['norm', 'dist']
    elif D.cat == 'field' and R.cat == 'leaf':
        if types[ran]['fkey'] == dom:
            out.append('multiply_field')
    elif D.cat == 'prod' and same:
        out += ['identity', 'scaling', 'zero']
    elif D.cat == 'prod' and R.cat == 'leaf':
        td = types[dom]
        if td['kind'] == 'power' and td['of'] == ran:
            out += ['pwinner', 'pwsum']
            if not D.cplx:
                out += ['pwnorm', 'pwnorm', 'pwnorm']
            if int(td['n']) == 2 and td.get('default'):
                out += ['lincomb', 'ufunc_add', 'ufunc_subtract']
            if td.get('grad_of') == ran:
                out += ['divergence', 'divergence']
        if ran in D.parts:
            out.append('compproj')
    elif D.cat == 'leaf' and R.cat == 'prod':
        if types[ran].get('grad_of') == dom:
            out += ['gradient', 'gradient']
    elif D.cat == 'prod' and R.cat == 'field':
        if ran == types[dom]['fkey']:
            out += ['inner']
            if not R.cplx:
                out += ['norm', 'dist']
    elif D.cat == 'field' and same:
        out += ['fscaling', 'fpower']
        if not c06:
            out.append('fscalingfunc')
            if not D.cplx:
                out.append('ffunc')
    return out


@st.composite
def leaves(draw, types, dom, ran, mode='c04', kinds=None):
    kinds = kinds or leaf_kinds(types, dom, ran, mode)
    if not kinds:
        raise HarnessError('no leaf for {} -> {}'.format(dom, ran))
    kind = draw(st.sampled_from(kinds))
    D, R = tinfo(types, dom), tinfo(types, ran)
    args = {}
    fk = 'op'
    if kind == 'scaling':
        args['s'] = draw(scalars(D.cplx))
    elif kind == 'fscaling':
        args['s'] = draw(scalars(D.cplx))
    elif kind == 'matrix':
        n_in = D.shape[0]
        n_out = R.shape[0]
        args['m'] = draw(array_descs((n_out, n_in), D.dtype, -1.5, 1.5))
    elif kind in ('multiply', 'inner', 'dist'):
        args['v'] = draw(values(types, dom))
        if kind == 'inner':
            args['how'] = draw(st.sampled_from(['ctor', 'T']))
    elif kind == 'multiply_field':
        args['v'] = draw(values(types, ran))
    elif kind == 'constant':
        args['v'] = draw(values(types, ran))
        args['zero'] = draw(st.sampled_from([False] * 5 + [True]))
    elif kind == 'ufunc':
        names = list(UFUNCS_SMOOTH)
        if mode == 'c04' and not D.cplx:
            # (on complex spaces only entire functions: arctan has branch
            # cuts where the sign of a zero decides the value)
            names += UFUNCS_C04_EXTRA
        args['name'] = draw(st.sampled_from(names))
    elif kind == 'compgrad':
        args['name'] = draw(st.sampled_from(['sin', 'cos', 'square']))
    elif kind == 'hubergrad':
        args['gamma'] = draw(st.sampled_from([0.5, 1.0, 0.25]))
    elif kind == 'power':
        args['p'] = draw(st.sampled_from([2, 3, 2, 1]))
    elif kind == 'fpower':
        args['p'] = draw(st.sampled_from([2, 3, 1]))
    elif kind == 'partial':
        args['axis'] = draw(st.sampled_from(
            [i for i, n in enumerate(D.shape) if n >= 3]))
        args['method'] = draw(st.sampled_from(DIFF_METHODS))
        args['pad_mode'] = draw(st.sampled_from(DIFF_PADS))
        args['pad_const'] = 0.0
        if args['pad_mode'] == 'constant' and draw(st.booleans()):
            args['pad_const'] = draw(st.sampled_from([1.0, -0.5, 2.0]))
    elif kind == 'laplacian':
        args['pad_mode'] = draw(st.sampled_from(LAP_PADS))
        args['pad_const'] = 0.0
        if args['pad_mode'] == 'constant' and draw(st.booleans()):
            args['pad_const'] = draw(st.sampled_from([1.0, -0.5, 2.0]))
    elif kind == 'cembed':
        args['s'] = draw(scalars(True, nonzero=True))
    elif kind in FUNCTIONAL_KINDS:
        fk = 'func'
        if kind == 'quadlin':
            args['v'] = draw(values(types, dom))
        elif kind == 'quad':
            n = D.shape[0]
            args['m'] = draw(array_descs((n, n), D.dtype, -1.5, 1.5))
            args['v'] = draw(st.none() | values(types, dom))
            args['c'] = draw(st.sampled_from([0.0, 1.5, -2.0]))
        elif kind == 'constf':
            args['c'] = draw(st.sampled_from([0.0, 1.5, -2.0, 3.0]))
    elif kind == 'pwnorm':
        td = types[dom]
        n = int(td['n'])
        args['exponent'] = draw(st.sampled_from([None, 2.0, 2.0, 1.0, 1.5,
                                                 3.0]))
        args['weighting'] = draw(st.sampled_from(
            [None, None, 2.0, [1.0, 2.0, 0.5][:n], [3.0, 1.0, 1.5][:n]]))
    elif kind == 'pwinner':
        args['v'] = draw(values(types, dom))
        n = int(types[dom]['n'])
        args['weighting'] = draw(st.sampled_from(
            [None, None, 2.0, [1.0, 2.0, 0.5][:n]]))
    elif kind == 'pwsum':
        n = int(types[dom]['n'])
        args['weighting'] = draw(st.sampled_from(
            [None, None, 2.0, [1.0, 2.0, 0.5][:n]]))
    elif kind == 'lincomb':
        args['a'] = draw(scalars(D.cplx))
        args['b'] = draw(scalars(D.cplx))
    elif kind in ('gradient', 'divergence'):
        args['method'] = draw(st.sampled_from(DIFF_METHODS))
        args['pad_mode'] = draw(st.sampled_from(DIFF_PADS))
        args['pad_const'] = 0.0
        if args['pad_mode'] == 'constant' and draw(st.booleans()):
            args['pad_const'] = draw(st.sampled_from([1.0, -0.5, 2.0]))
    elif kind == 'compproj':
        args['index'] = draw(st.sampled_from(
            [i for i, p in enumerate(D.parts) if p == ran]))
    elif kind == 'fscalingfunc':
        fk = 'func'
        args['s'] = draw(scalars(D.cplx))
    elif kind == 'ffunc':
        fk = 'func'
        args['name'] = draw(st.sampled_from(['sin', 'cos', 'exp', 'square',
                                             'arctan']))
    return {'op': 'leaf', 'kind': kind, 'dom': dom, 'ran': ran,
            'args': args, 'fk': fk}


def build_leaf(env, node):
    """ODL operator of a leaf node."""
    kind, a = node['kind'], node['args']
    D, R = env.set(node['dom']), env.set(node['ran'])
    S = odl.solvers
    if kind == 'identity':
        return odl.IdentityOperator(D)
    if kind == 'flatten':
        op = odl.FlatteningOperator(D)
        if op.range != R:
            raise HarnessError('flatten leaf: range {!r} != {!r}'.format(
                op.range, R))
        return op
    if kind in ('scaling', 'fscaling'):
        return odl.ScalingOperator(D, scalar_value(a['s']))
    if kind == 'matrix':
        ti = env.info(node['dom'])
        shp = tuple(a['m']['shape'])
        m = vbuild.array_values(a['m'], dtype=ti.dtype, shape=shp)
        return odl.MatrixOperator(m, domain=D, range=R)
    if kind == 'multiply':
        return odl.MultiplyOperator(env.element(node['dom'],
                                                env.np_value(node['dom'],
                                                             a['v'])))
    if kind == 'multiply_field':
        v = env.element(node['ran'], env.np_value(node['ran'], a['v']))
        return odl.MultiplyOperator(v, domain=D)
    if kind == 'zero':
        return odl.ZeroOperator(D, R) if node['dom'] != node['ran'] \
            else odl.ZeroOperator(D)
    if kind == 'partial':
        return odl.PartialDerivative(D, axis=a['axis'], method=a['method'],
                                     pad_mode=a['pad_mode'],
                                     pad_const=a['pad_const'])
    if kind == 'laplacian':
        return odl.Laplacian(D, pad_mode=a['pad_mode'],
                             pad_const=a['pad_const'])
    if kind == 'inner':
        v = env.element(node['dom'], env.np_value(node['dom'], a['v']))
        return v.T if a.get('how') == 'T' else odl.InnerProductOperator(v)
    if kind == 'realpart':
        return odl.RealPart(D)
    if kind == 'imagpart':
        return odl.ImagPart(D)
    if kind == 'cembed':
        return odl.ComplexEmbedding(D, scalar=scalar_value(a['s']))
    if kind == 'negative':
        return odl.ufunc_ops.negative(D)
    if kind == 'ufunc':
        return getattr(odl.ufunc_ops, a['name'])(D)
    if kind == 'ufunc_abs':
        return odl.ufunc_ops.absolute(D)
    if kind in ('power', 'fpower'):
        return odl.PowerOperator(D, a['p'])
    if kind == 'constant':
        val = env.np_value(node['ran'], a['v'])
        if a.get('zero'):
            val = vscale(0.0, val)
        return odl.ConstantOperator(env.element(node['ran'], val), domain=D)
    if kind == 'compgrad':
        return (S.L2NormSquared(D) * getattr(odl.ufunc_ops, a['name'])(D)
                ).gradient
    if kind == 'hubergrad':
        return S.Huber(D, a['gamma']).gradient
    if kind == 'cmod':
        return odl.ComplexModulus(D)
    if kind == 'cmodsq':
        return odl.ComplexModulusSquared(D)
    if kind == 'norm':
        return odl.NormOperator(D)
    if kind == 'dist':
        return odl.DistOperator(env.element(node['dom'],
                                            env.np_value(node['dom'],
                                                         a['v'])))
    if kind == 'l2sq':
        return S.L2NormSquared(D)
    if kind == 'l1':
        return S.L1Norm(D)
    if kind == 'l2':
        return S.L2Norm(D)
    if kind == 'quadlin':
        v = env.element(node['dom'], env.np_value(node['dom'], a['v']))
        return S.QuadraticForm(vector=v)
    if kind == 'quad':
        ti = env.info(node['dom'])
        m = vbuild.array_values(a['m'], dtype=ti.dtype,
                                shape=tuple(a['m']['shape']))
        op = odl.MatrixOperator(m, domain=D, range=D)
        v = None if a['v'] is None else env.element(
            node['dom'], env.np_value(node['dom'], a['v']))
        return S.QuadraticForm(operator=op, vector=v, constant=a['c'])
    if kind == 'constf':
        return S.ConstantFunctional(D, a['c'])
    if kind == 'zerof':
        return S.ZeroFunctional(D)
    if kind == 'fscalingfunc':
        return S.ScalingFunctional(D, scalar_value(a['s']))
    if kind == 'ffunc':
        return getattr(odl.ufunc_ops, a['name'])(D)
    if kind == 'pwnorm':
        return odl.PointwiseNorm(D, exponent=a.get('exponent'),
                                 weighting=a.get('weighting'))
    if kind == 'pwinner':
        v = env.element(node['dom'], env.np_value(node['dom'], a['v']))
        return odl.PointwiseInner(D, v, weighting=a.get('weighting'))
    if kind == 'pwsum':
        return odl.PointwiseSum(D, weighting=a.get('weighting'))
    if kind == 'lincomb':
        return odl.LinCombOperator(R, scalar_value(a['a']),
                                   scalar_value(a['b']))
    if kind == 'ufunc_add':
        return odl.ufunc_ops.add(R)
    if kind == 'ufunc_subtract':
        return odl.ufunc_ops.subtract(R)
    if kind == 'gradient':
        return odl.Gradient(D, method=a['method'], pad_mode=a['pad_mode'],
                            pad_const=a['pad_const'])
    if kind == 'divergence':
        return odl.Divergence(range=R, method=a['method'],
                              pad_mode=a['pad_mode'],
                              pad_const=a['pad_const'])
    if kind == 'compproj':
        return odl.ComponentProjection(D, int(a['index']))
    ext = EXTRA_LEAF_BUILDERS.get(kind)
    if ext is not None:
        return ext(env, node)
    raise HarnessError('unknown leaf kind {!r}'.format(kind))


# extension points used by the C06 zoo (kind -> function)
EXTRA_LEAF_BUILDERS = {}
EXTRA_MARGINS = {}


def leaf_is_linear(node):
    """True linearity of a leaf as a *map* (independent of ODL's flag)."""
    kind, a = node['kind'], node['args']
    if kind in ('power', 'fpower'):
        return a['p'] == 1
    if kind == 'constant':
        return bool(a.get('zero'))
    if kind == 'constf':
        return a['c'] == 0
    if kind in ('partial', 'laplacian', 'gradient', 'divergence', 'resize'):
        return not (a.get('pad_mode') == 'constant' and
                    a.get('pad_const', 0) != 0)
    return kind in LINEAR_LEAVES


# --------------------------------------------------------------------------
# trees

def pspace_ctors(types, dom, ran, pairs):
    """Product-space constructors able to produce ``dom -> ran``."""
    D, R = tinfo(types, dom), tinfo(types, ran)
    out = []
    # (the product-space operator classes are documented to support neither
    # weighted product spaces nor fields as components)
    ddef = D.cat == 'prod' and bool(types[dom].get('default'))
    rdef = R.cat == 'prod' and bool(types[ran].get('default'))
    if rdef and D.cat != 'field' and \
            all((dom, p) in pairs for p in R.parts):
        out.append('broadcast')
    if ddef and R.cat != 'field' and \
            all((p, ran) in pairs for p in D.parts):
        out.append('reduction')
    if ddef and rdef and \
            len(D.parts) == len(R.parts) and \
            all((p, q) in pairs for p, q in zip(D.parts, R.parts)):
        out.append('diagonal')
    if ddef and rdef and \
            all(any((p, q) in pairs for p in D.parts) for q in R.parts) and \
            all(any((p, q) in pairs for q in R.parts) for p in D.parts):
        out.append('pspaceop')
    return out


def inhabited_pairs(types, mode):
    keys = sorted(types)
    pairs = {(d, r) for d in keys for r in keys
             if leaf_kinds(types, d, r, mode)}
    if any(tinfo(types, k).cat == 'prod' for k in keys):
        changed = True
        while changed:
            changed = False
            for d in keys:
                for r in keys:
                    if (d, r) not in pairs and \
                            pspace_ctors(types, d, r, pairs):
                        pairs.add((d, r))
                        changed = True
    return pairs


def _field_of(types, key):
    return types[key]['fkey']


def _maybe_share(draw, node):
    """With probability 1/4 mark the vector of this node as *shared*: the
    build then reuses the element object of an earlier vector node of the same
    space (if any) instead of creating a fresh element."""
    if draw(st.integers(0, 3)) == 0:
        node['vshare'] = draw(st.integers(0, 3))


@st.composite
def trees(draw, types, dom, ran, depth, mode='c04', pairs=None,
          ctor_weights=None):
    """Well-typed expression tree ``dom -> ran`` of depth <= ``depth``."""
    if pairs is None:
        pairs = inhabited_pairs(types, mode)
    if (dom, ran) not in pairs:
        raise HarnessError('uninhabited type {} -> {}'.format(dom, ran))
    D, R = tinfo(types, dom), tinfo(types, ran)
    pctors = pspace_ctors(types, dom, ran, pairs) \
        if 'prod' in (D.cat, R.cat) else []
    has_leaf = bool(leaf_kinds(types, dom, ran, mode))
    if depth <= 0 and has_leaf:
        return draw(leaves(types, dom, ran, mode))
    if depth <= 0 or (pctors and draw(st.sampled_from([True, False, False]))):
        return draw(_pspace_node(types, dom, ran, max(depth, 1), mode, pairs,
                                 pctors))

    fkey_ran = _field_of(types, ran)
    fkey_dom = _field_of(types, dom)
    ran_space = R.cat != 'field'
    dom_space = D.cat != 'field'

    rules = ['sum', 'sum', 'diff', 'neg', 'pos', 'lscal', 'lscal',
             'rscal', 'rscal', 'rscal', 'div', 'pwprod', 'addscal']
    if has_leaf:
        rules.append('leaf')
    mids = [m for m in sorted(types) if (dom, m) in pairs and (m, ran) in pairs]
    # prefer space-valued intermediate types (field mids funnel everything
    # through the few field leaves)
    mids = [m for m in mids for _ in range(
        1 if tinfo(types, m).cat == 'field' else 4)]
    if mids:
        rules += ['comp'] * 4
    if dom_space:
        rules += ['rvec', 'rvec']
    if ran_space:
        rules += ['lvec', 'addvec', 'addvec']
        if (dom, fkey_ran) in pairs:
            # v * f; more often when the vector space is the functional's
            # domain (aliased in-place evaluation is then possible)
            rules += ['flvec'] * (3 if dom == ran else 1)
    if dom == ran:
        rules += ['pow'] * (3 if D.discr and mode == 'c04' else 1)
    if R.cat == 'field' and dom_space and ran == fkey_dom and mode == 'c04':
        rules += ['translated']
    if mode == 'c06' and R.cat == 'leaf' and depth >= 2:
        rules += ['comp_pos'] * 4
    if ctor_weights:
        rules = [r for r in rules for _ in range(ctor_weights.get(r, 1))]
    rule = draw(st.sampled_from(rules))
    if not has_leaf and not pctors:
        raise HarnessError('uninhabited {} -> {}'.format(dom, ran))

    def sub(d=dom, r=ran, dep=None):
        dep = depth - 1 if dep is None else dep
        return draw(trees(types, d, r, draw(st.sampled_from(
            list(range(dep + 1)))), mode, pairs))

    def sub_full(d=dom, r=ran):
        return draw(trees(types, d, r, depth - 1, mode, pairs))

    node = {'op': rule, 'dom': dom, 'ran': ran, 'fk': 'op'}

    def flvec_child():
        """v * f as operand of a*(.), (.)+w, -(.) (vector space == domain
        of f), drawn on purpose for a third of these nodes."""
        if mode == 'c04' and dom == ran and ran_space and \
                (dom, fkey_ran) in pairs and \
                draw(st.sampled_from([True, False, False])):
            return {'op': 'flvec', 'dom': dom, 'ran': ran, 'fk': 'op',
                    'a': draw(trees(types, dom, fkey_ran,
                                    max(depth - 2, 0), mode, pairs)),
                    'v': draw(values(types, ran)),
                    'how': draw(st.sampled_from(['op', 'op', 'rmatmul',
                                                 'ctor']))}
        return None
    if rule == 'leaf':
        return draw(leaves(types, dom, ran, mode))
    if rule == 'comp_pos':
        # ufuncs / powers with a restricted domain, applied to a positive
        # (real part) inner expression: chain rule at the inner point
        inner = draw(trees(types, dom, ran, depth - 2, mode, pairs))
        posname = draw(st.sampled_from(['cosh', 'cosh', 'exp']))
        pos = {'op': 'comp', 'how': 'mul', 'dom': dom, 'ran': ran,
               'fk': 'op', 'b': inner,
               'a': {'op': 'leaf', 'kind': 'ufunc', 'dom': ran, 'ran': ran,
                     'args': {'name': posname}, 'fk': 'op'}}
        if draw(st.booleans()):
            outer = {'op': 'leaf', 'kind': 'ufunc', 'dom': ran, 'ran': ran,
                     'fk': 'op', 'args': {'name': draw(st.sampled_from(
                         ['sqrt', 'log', 'reciprocal']))}}
        else:
            ps = [-1, -2] if R.cplx else [0.5, -1, 2.5, 1.5]
            outer = {'op': 'leaf', 'kind': 'power', 'dom': ran, 'ran': ran,
                     'fk': 'op', 'args': {'p': draw(st.sampled_from(ps))}}
        node.update({'op': 'comp', 'how': draw(st.sampled_from(
            ['mul', 'ctor'])), 'a': outer, 'b': pos})
        return node
    if rule in ('sum', 'diff', 'pwprod'):
        a, b = sub_full(), sub()
        if draw(st.booleans()):
            a, b = b, a
        view_ok = mode == 'c04' and dom == ran and D.cat == 'leaf' and \
            'flatten' in leaf_kinds(types, dom, ran, mode)
        if rule == 'sum' and mode == 'c04' and dom == ran and \
                D.cat == 'leaf' and \
                draw(st.sampled_from([True, False, False, False])):
            # a summand that implements only the out-of-place _call, in
            # either position (OperatorSum then mixes both call styles), or
            # one whose out-of-place result is a view of the evaluation point
            kinds = ['compgrad', 'compgrad'] + (
                [] if D.cplx else ['realpart', 'cmod', 'cmodsq']) + (
                ['flatten', 'flatten'] if view_ok else [])
            k = draw(st.sampled_from(kinds))
            lf = {'op': 'leaf', 'kind': k, 'dom': dom, 'ran': ran,
                  'fk': 'op', 'args': {}}
            if k == 'compgrad':
                lf['args']['name'] = draw(st.sampled_from(['sin', 'cos',
                                                           'square']))
            if draw(st.sampled_from(['left', 'right'])) == 'left':
                a = lf
            else:
                b = lf
        elif rule in ('diff', 'pwprod') and view_ok and \
                draw(st.integers(0, 5)) == 0:
            lf = {'op': 'leaf', 'kind': 'flatten', 'dom': dom, 'ran': ran,
                  'fk': 'op', 'args': {}}
            if draw(st.booleans()):
                a = lf
            else:
                b = lf
        node['a'], node['b'] = a, b
        both = a['fk'] == 'func' and b['fk'] == 'func'
        if rule == 'sum':
            hows = ['op', 'op', 'op', 'ctor']
            if dom_space and ran_space:
                hows.append('ctor_tmp')
            node['how'] = draw(st.sampled_from(hows))
            node['fk'] = 'func' if both and node['how'] == 'op' else 'op'
        elif rule == 'diff':
            node['how'] = 'op'
            node['fk'] = 'func' if both else 'op'
        else:
            node['how'] = draw(st.sampled_from(['fprod', 'ctor'])) \
                if both else 'ctor'
            node['fk'] = 'func' if node['how'] == 'fprod' else 'op'
        return node
    if rule in ('neg', 'pos'):
        node['a'] = sub_full()
        node['how'] = 'op'
        node['fk'] = node['a']['fk']
        return node
    if rule == 'lscal':
        node['a'] = flvec_child() or sub_full()
        node['s'] = draw(scalars(tinfo(types, fkey_ran).cplx))
        node['how'] = draw(st.sampled_from(['op', 'op', 'rmatmul', 'ctor']))
        node['fk'] = node['a']['fk'] if node['how'] != 'ctor' else 'op'
        return node
    if rule in ('rscal', 'div'):
        node['a'] = sub_full()
        scplx = tinfo(types, fkey_dom).cplx
        if scplx and true_linear(node['a']) and (
                not tinfo(types, fkey_ran).cplx or
                real_linear_only(types, node['a'])):
            # operators C^n -> R^n flagged linear are only real-linear; ODL
            # rewrites A*a -> a*A for them, which needs a real scalar
            scplx = False
        classes = None
        if D.cat == 'field' and node['a']['fk'] == 'func':
            # known finding C04-K3: f*0 on field domains; excluded by
            # construction (its regress replay keeps it visible)
            classes = ['one', 'mone', 'generic', 'generic']
        node['s'] = draw(scalars(scplx, nonzero=(rule == 'div'),
                                 classes=classes))
        hows = ['op', 'op', 'op']
        if rule == 'rscal':
            hows += ['matmul', 'ctor']
            if dom_space:
                hows.append('ctor_tmp')
        node['how'] = draw(st.sampled_from(hows))
        node['fk'] = node['a']['fk'] if node['how'] in ('op', 'matmul') \
            else 'op'
        return node
    if rule == 'comp':
        mid = draw(st.sampled_from(mids))
        node['a'] = sub_full(mid, ran)
        node['b'] = sub(dom, mid)
        if draw(st.booleans()):
            # make the inner operand the deep one instead
            node['a'] = sub(mid, ran)
            node['b'] = sub_full(dom, mid)
        hows = ['mul', 'mul', 'matmul', 'ctor']
        if tinfo(types, mid).cat != 'field':
            hows.append('ctor_tmp')
        if node['a']['fk'] == 'func' and fkey_dom != ran:
            # Functional ranges are by design the field of the *domain*;
            # f o A across fields is built as a plain OperatorComp
            hows = ['ctor']
        node['how'] = draw(st.sampled_from(hows))
        node['fk'] = 'func' if (node['a']['fk'] == 'func' and
                                node['how'] in ('mul', 'matmul')) else 'op'
        return node
    if rule == 'rvec':
        node['a'] = sub_full()
        node['v'] = draw(values(types, dom))
        _maybe_share(draw, node)
        node['how'] = draw(st.sampled_from(['op', 'op', 'matmul', 'ctor']))
        node['fk'] = node['a']['fk'] if node['how'] != 'ctor' else 'op'
        return node
    if rule == 'lvec':
        node['a'] = sub_full()
        node['v'] = draw(values(types, ran))
        _maybe_share(draw, node)
        node['how'] = draw(st.sampled_from(['op', 'op', 'rmatmul', 'ctor']))
        return node
    if rule == 'flvec':
        node['a'] = sub_full(dom, fkey_ran)
        node['v'] = draw(values(types, ran))
        _maybe_share(draw, node)
        node['how'] = draw(st.sampled_from(['op', 'op', 'rmatmul', 'ctor']))
        return node
    if rule == 'addvec':
        node['a'] = flvec_child() or sub_full()
        node['v'] = draw(values(types, ran))
        _maybe_share(draw, node)
        node['how'] = draw(st.sampled_from(['A+v', 'v+A', 'A-v', 'v-A',
                                            'ctor']))
        return node
    if rule == 'addscal':
        child = sub_full()
        if not ran_space and child['fk'] != 'func':
            # plain operators with field range do not offer ``A + c``
            return child
        node['a'] = child
        node['s'] = draw(scalars(tinfo(types, fkey_ran).cplx))
        node['how'] = draw(st.sampled_from(['A+c', 'c+A', 'A-c', 'c-A']))
        node['fk'] = child['fk'] if not ran_space else 'op'
        return node
    if rule == 'pow':
        stencils = [k for k in leaf_kinds(types, dom, ran, mode)
                    if k in ('partial', 'laplacian')]
        if mode == 'c04' and stencils and \
                draw(st.sampled_from([True, True, False])):
            # A ** n, n in 3..5, over a finite-difference leaf or a small
            # expression of it (their in-place code is not alias-safe, so
            # sharing of temporaries between the nested compositions shows)
            lf = draw(leaves(types, dom, ran, mode,
                             kinds=sorted(set(stencils))))
            shape = draw(st.sampled_from(['leaf', 'affine', 'scaled']))
            if shape != 'leaf':
                lf = {'op': 'lscal', 'dom': dom, 'ran': ran, 'fk': 'op',
                      'how': 'op', 'a': lf,
                      's': draw(scalars(tinfo(types, fkey_ran).cplx,
                                        classes=['generic']))}
            if shape == 'affine':
                lf = {'op': 'addscal', 'dom': dom, 'ran': ran, 'fk': 'op',
                      'how': 'A+c', 'a': lf,
                      's': draw(scalars(tinfo(types, fkey_ran).cplx,
                                        classes=['one', 'generic']))}
            node['a'] = lf
            node['n'] = draw(st.sampled_from([3, 4, 5]))
            node['how'] = 'op'
            return node
        node['a'] = sub_full()
        node['n'] = draw(st.sampled_from([1, 2, 2, 3, 3, 4, 5]))
        node['how'] = 'op'
        node['fk'] = node['a']['fk'] if node['n'] == 1 else 'op'
        return node
    if rule == 'translated':
        child = sub_full()
        if child['fk'] != 'func':
            return child
        node['a'] = child
        node['v'] = draw(values(types, dom))
        _maybe_share(draw, node)
        node['how'] = 'op'
        node['fk'] = 'func'
        return node
    raise HarnessError('unknown rule ' + rule)


@st.composite
def _pspace_node(draw, types, dom, ran, depth, mode, pairs, pctors):
    """Node built by a product-space operator class."""
    D, R = tinfo(types, dom), tinfo(types, ran)
    ctor = draw(st.sampled_from(pctors))
    node = {'op': ctor, 'dom': dom, 'ran': ran, 'fk': 'op', 'how': 'ctor'}

    def sub(d, r):
        return draw(trees(types, d, r, draw(st.sampled_from(
            list(range(depth)))), mode, pairs))

    if ctor == 'broadcast':
        node['kids'] = [sub(dom, p) for p in R.parts]
    elif ctor == 'reduction':
        node['kids'] = [sub(p, ran) for p in D.parts]
    elif ctor == 'diagonal':
        node['kids'] = [sub(p, q) for p, q in zip(D.parts, R.parts)]
        node['how'] = draw(st.sampled_from(['ctor', 'kwargs']))
        if not (types[dom].get('default') and types[ran].get('default')):
            node['how'] = 'kwargs'
    else:
        nr, nc = len(R.parts), len(D.parts)
        node['shape'] = [nr, nc]
        kids = [None] * (nr * nc)
        # one entry per row and per column at least, then random extras
        for i, q in enumerate(R.parts):
            cols = [j for j, p in enumerate(D.parts) if (p, q) in pairs]
            kids[i * nc + draw(st.sampled_from(cols))] = True
        for j, p in enumerate(D.parts):
            if not any(kids[i * nc + j] for i in range(nr)):
                rows = [i for i, q in enumerate(R.parts) if (p, q) in pairs]
                kids[draw(st.sampled_from(rows)) * nc + j] = True
        for i, q in enumerate(R.parts):
            for j, p in enumerate(D.parts):
                if kids[i * nc + j] is None and (p, q) in pairs and \
                        draw(st.sampled_from([False, False, True])):
                    kids[i * nc + j] = True
        node['kids'] = [sub(D.parts[k % nc], R.parts[k // nc]) if kids[k]
                        else None for k in range(nr * nc)]
        node['how'] = draw(st.sampled_from(['kwargs', 'kwargs', 'infer']))
        if not (types[dom].get('default') and types[ran].get('default')):
            node['how'] = 'kwargs'
    return node


# --------------------------------------------------------------------------
# builder

class BNode(object):
    """A tree node together with its live ODL object."""
    __slots__ = ('node', 'obj', 'kids', 'vec', 'vec_np', 'vec_shared', 'scal',
                 'scal_val',
                 'shortcut')

    def __init__(self, node):
        self.node = node
        self.obj = None
        self.kids = []
        self.vec = self.vec_np = self.scal = self.scal_val = None
        self.vec_shared = False
        self.shortcut = None


class BuildFailure(Exception):
    """Constructing one node failed.  ``where`` is 'odl' if the exception
    came out of ODL (or out of Python's operator dispatch because every
    overload refused the operands), 'harness' otherwise."""

    def __init__(self, site, exc, where, pattern='', node=None):
        super(BuildFailure, self).__init__('{}: {!r}'.format(pattern, exc))
        self.site, self.exc, self.where = site, exc, where
        self.pattern, self.node = pattern, node


def node_pattern(b):
    """Root-cause pattern of a node: constructor, syntax, operand classes."""
    node = b.node
    if node['op'] == 'leaf':
        return 'leaf:' + node['kind']
    kids = ','.join('0' if k is None else type(k.obj).__name__
                    for k in b.kids)
    return '{}:{}({})'.format(node['op'], node.get('how', 'op'), kids)


_OVERLOAD = {
    ('sum', 'op'): '__add__(Operator)', ('diff', 'op'): '__sub__(Operator)',
    ('neg', 'op'): '__neg__', ('pos', 'op'): '__pos__',
    ('lscal', 'op'): '__rmul__(scalar)', ('rscal', 'op'): '__mul__(scalar)',
    ('div', 'op'): '__truediv__(scalar)',
    ('comp', 'mul'): '__mul__(Operator)',
    ('comp', 'matmul'): '__matmul__(Operator)',
    ('lscal', 'rmatmul'): '__rmatmul__(scalar)',
    ('rscal', 'matmul'): '__matmul__(scalar)',
    ('rvec', 'matmul'): '__matmul__(vector)',
    ('lvec', 'rmatmul'): '__rmatmul__(vector)',
    ('flvec', 'rmatmul'): '__rmatmul__(vector)',
    ('rvec', 'op'): '__mul__(vector)', ('lvec', 'op'): '__rmul__(vector)',
    ('flvec', 'op'): '__rmul__(vector)',
    ('addvec', 'A+v'): '__add__(vector)', ('addvec', 'v+A'): '__radd__(vector)',
    ('addvec', 'A-v'): '__sub__(vector)', ('addvec', 'v-A'): '__rsub__(vector)',
    ('addscal', 'A+c'): '__add__(scalar)',
    ('addscal', 'c+A'): '__radd__(scalar)',
    ('addscal', 'A-c'): '__sub__(scalar)',
    ('addscal', 'c-A'): '__rsub__(scalar)',
    ('pow', 'op'): '__pow__', ('translated', 'op'): 'translated',
}
_CTOR_CLASS = {'sum': 'OperatorSum', 'pwprod': 'OperatorPointwiseProduct',
               'lscal': 'OperatorLeftScalarMult',
               'rscal': 'OperatorRightScalarMult', 'comp': 'OperatorComp',
               'rvec': 'OperatorRightVectorMult',
               'lvec': 'OperatorLeftVectorMult',
               'flvec': 'FunctionalLeftVectorMult',
               'addvec': 'OperatorVectorSum'}


def node_site(b):
    """Dispatch site that produced the node's object -- the root-cause key
    of a failure of this node: ``<class of first operand>.<overload>`` for
    operator syntax (the overload that runs is chosen by that class), the
    expression class for explicit constructor calls, the kind for leaves."""
    node = b.node
    op, how = node['op'], node.get('how', 'op')
    if op == 'leaf':
        return 'leaf:' + node['kind']
    first = type(b.kids[0].obj).__name__ if b.kids and b.kids[0] is not None \
        else '0'
    meth = _OVERLOAD.get((op, how))
    if meth is not None:
        # the class that *defines* the overload which ran (Operator,
        # Functional, OperatorRightScalarMult ...)
        name = meth.split('(')[0]
        owner = first
        if b.kids and b.kids[0] is not None:
            for klass in type(b.kids[0].obj).__mro__:
                if name in klass.__dict__:
                    owner = klass.__name__
                    break
        return '{}.{}'.format(owner, meth)
    if how == 'fprod':
        return 'FunctionalProduct(ctor)'
    if op in _CTOR_CLASS:
        return '{}({})({})'.format(_CTOR_CLASS[op], how, first)
    return '{}:{}({})'.format(op, how, first)


def build(env, node):
    """Tree -> BNode tree with ODL operators (documented API only)."""
    from .core import crash_signature
    b = BNode(node)
    for k in ('a', 'b'):
        if k in node:
            b.kids.append(build(env, node[k]))
    for k in node.get('kids', []):
        b.kids.append(None if k is None else build(env, k))
    try:
        _build_node(env, b)
    except (BuildFailure, HarnessError):
        raise
    except Exception as e:  # noqa
        where, _ = crash_signature('X', e)
        if isinstance(e, TypeError) and \
                str(e).startswith('unsupported operand type'):
            where = 'odl'
        raise BuildFailure(node_site(b), e, where, node_pattern(b), node)
    return b


def _build_node(env, b):
    node = b.node
    op = node['op']
    if op == 'leaf':
        b.obj = build_leaf(env, node)
        return b
    if op in ('broadcast', 'reduction', 'diagonal', 'pspaceop'):
        ops = [None if k is None else k.obj for k in b.kids]
        if op == 'broadcast':
            b.obj = odl.BroadcastOperator(*ops)
        elif op == 'reduction':
            b.obj = odl.ReductionOperator(*ops)
        elif op == 'diagonal':
            if node['how'] == 'kwargs':
                b.obj = odl.DiagonalOperator(*ops,
                                             domain=env.set(node['dom']),
                                             range=env.set(node['ran']))
            else:
                b.obj = odl.DiagonalOperator(*ops)
        else:
            nr, nc = node['shape']
            mat = [[ops[i * nc + j] for j in range(nc)] for i in range(nr)]
            if node['how'] == 'kwargs':
                b.obj = odl.ProductSpaceOperator(
                    mat, domain=env.set(node['dom']),
                    range=env.set(node['ran']))
            else:
                b.obj = odl.ProductSpaceOperator(mat)
        return b
    A = b.kids[0].obj
    B = b.kids[1].obj if len(b.kids) > 1 else None
    how = node.get('how', 'op')
    if 's' in node:
        b.scal = build_scalar(node['s'])
        b.scal_val = scalar_value(node['s'])
    dom, ran = node['dom'], node['ran']

    def vec(key):
        # 'vshare': k -- use the very element *object* of an earlier vector
        # node of the same space (children are built before parents), as a
        # user does who passes one element to several sub-expressions. The
        # reference keeps the values the object had when it was created.
        pool = env.vec_pool.setdefault(key, [])
        k = node.get('vshare')
        if k is not None and pool:
            b.vec_np, b.vec = pool[int(k) % len(pool)]
            b.vec_shared = True
        else:
            b.vec_np = env.np_value(key, node['v'])
            b.vec = env.element(key, b.vec_np)
            pool.append((b.vec_np, b.vec))
        return b.vec

    if op == 'sum':
        if how == 'op':
            b.obj = A + B
        elif how == 'ctor':
            b.obj = OperatorSum(A, B)
        else:
            b.obj = OperatorSum(A, B, tmp_ran=env.set(ran).element(),
                                tmp_dom=env.set(dom).element())
    elif op == 'diff':
        b.obj = A - B
    elif op == 'pwprod':
        b.obj = (odl.solvers.FunctionalProduct(A, B) if how == 'fprod'
                 else OperatorPointwiseProduct(A, B))
    elif op == 'neg':
        b.obj = -A
    elif op == 'pos':
        b.obj = +A
    elif op == 'lscal':
        if isinstance(A, OperatorLeftScalarMult):
            b.shortcut = 'LeftScalar(LeftScalar)'
        if how == 'op':
            b.obj = b.scal * A
        elif how == 'rmatmul':
            b.obj = b.scal @ A
        else:
            b.obj = OperatorLeftScalarMult(A, b.scal)
    elif op == 'rscal':
        if isinstance(A, OperatorRightScalarMult):
            b.shortcut = ('RightScalar.__mul__' if how in ('op', 'matmul')
                          else 'RightScalar(RightScalar)')
        if how == 'op':
            b.obj = A * b.scal
        elif how == 'matmul':
            b.obj = A @ b.scal
        elif how == 'ctor':
            b.obj = OperatorRightScalarMult(A, b.scal)
        else:
            b.obj = OperatorRightScalarMult(A, b.scal,
                                            tmp=env.set(dom).element())
    elif op == 'div':
        if isinstance(A, OperatorRightScalarMult):
            b.shortcut = 'RightScalar.__mul__'
        b.obj = A / b.scal
    elif op == 'comp':
        if isinstance(A, OperatorRightScalarMult):
            b.shortcut = 'RightScalar*Operator'
        if how == 'mul':
            b.obj = A * B
        elif how == 'matmul':
            b.obj = A @ B
        elif how == 'ctor':
            b.obj = OperatorComp(A, B)
        else:
            b.obj = OperatorComp(A, B, tmp=B.range.element())
    elif op == 'rvec':
        if isinstance(A, OperatorRightScalarMult):
            b.shortcut = 'RightScalar*vector'
        v = vec(dom)
        b.obj = (A * v if how == 'op' else A @ v if how == 'matmul'
                 else OperatorRightVectorMult(A, v))
    elif op == 'lvec':
        v = vec(ran)
        b.obj = (v * A if how == 'op' else v @ A if how == 'rmatmul'
                 else OperatorLeftVectorMult(A, v))
    elif op == 'flvec':
        v = vec(ran)
        b.obj = (v * A if how == 'op' else v @ A if how == 'rmatmul'
                 else FunctionalLeftVectorMult(A, v))
    elif op == 'addvec':
        v = vec(ran)
        b.obj = {'A+v': lambda: A + v, 'v+A': lambda: v + A,
                 'A-v': lambda: A - v, 'v-A': lambda: v - A,
                 'ctor': lambda: OperatorVectorSum(A, v)}[how]()
    elif op == 'addscal':
        c = b.scal
        b.obj = {'A+c': lambda: A + c, 'c+A': lambda: c + A,
                 'A-c': lambda: A - c, 'c-A': lambda: c - A}[how]()
    elif op == 'pow':
        b.obj = A ** int(node['n'])
    elif op == 'translated':
        b.obj = A.translated(vec(dom))
    else:
        ext = EXTRA_CTOR_BUILDERS.get(op)
        if ext is None:
            raise HarnessError('unknown constructor {!r}'.format(op))
        ext(env, b)
    return b


EXTRA_CTOR_BUILDERS = {}
EXTRA_CTOR_EVAL = {}


def walk(b):
    """All BNodes, parents before children."""
    yield b
    for k in b.kids:
        if k is None:
            continue
        for x in walk(k):
            yield x


def tree_depth(node):
    kids = [node[k] for k in ('a', 'b') if k in node] + [
        k for k in node.get('kids', []) if k is not None]
    return 0 if not kids else 1 + max(tree_depth(k) for k in kids)


def tree_nodes(node):
    yield node
    for k in ('a', 'b'):
        if k in node:
            for x in tree_nodes(node[k]):
                yield x
    for k in node.get('kids', []):
        if k is not None:
            for x in tree_nodes(k):
                yield x


def true_linear(node):
    """Whether the expression is a linear map by construction (sound
    under-approximation: ``True`` only if certainly linear)."""
    op = node['op']
    if op == 'leaf':
        return leaf_is_linear(node)
    if op in ('sum', 'diff', 'comp'):
        return true_linear(node['a']) and true_linear(node['b'])
    if op in ('neg', 'pos', 'lscal', 'rscal', 'div', 'rvec', 'lvec', 'flvec',
              'pow'):
        return true_linear(node['a'])
    if op in EXTRA_LINEAR:
        return all(true_linear(k) for k in node.get('kids', [])
                   if k is not None)
    return False


EXTRA_LINEAR = {'broadcast', 'reduction', 'diagonal', 'pspaceop'}


NONHOLO_LEAVES = {'realpart', 'imagpart', 'cmod', 'cmodsq', 'norm', 'dist',
                  'ufunc_abs', 'l1', 'l2', 'l2sq', 'pwnorm'}


def nonholomorphic(types, node):
    """True if the tree contains a leaf on a complex domain that is not
    complex-differentiable (its derivative is only real-linear)."""
    return any(n['op'] == 'leaf' and n['kind'] in NONHOLO_LEAVES
               and tinfo(types, n['dom']).cplx for n in tree_nodes(node))


def real_linear_only(types, node):
    """True if the tree contains a leaf that ODL flags linear although it is
    only real-linear (documented "C = R^2 sense": RealPart / ImagPart on a
    complex space).  For such expressions ODL's rewriting A*a -> a*A and the
    homogeneity test are meaningful for real scalars only."""
    return any(n['op'] == 'leaf' and n['kind'] in ('realpart', 'imagpart')
               and tinfo(types, n['dom']).cplx for n in tree_nodes(node))


# --------------------------------------------------------------------------
# reference interpreter

class RefOverflow(Exception):
    """The *reference* evaluation of a leaf left the floating-point range
    (Python floats on field domains raise instead of returning inf): an
    input-range matter, the case is to be counted trivial."""


class NearNondiff(Exception):
    """A leaf is evaluated too close to its non-differentiable set."""


class Interp(object):
    """Evaluate a built tree by the documented table on NumPy values.

    ``noise``: if not None, every node result is multiplied entry-wise by
    ``1 + noise*eps*(+-1)`` (deterministic signs) -- used to measure how
    rounding errors of size ``eps`` propagate through *this* tree at *this*
    point (the tolerance of C04 is derived from that).
    ``margin``: if not None, leaves check the distance of their argument
    from their non-differentiable set and raise `NearNondiff`.
    """

    def __init__(self, env, noise=None, margin=None, seed=0):
        self.env = env
        self.noise = noise
        self.margin = margin
        self.rng = np.random.RandomState(seed) if noise else None
        self.leaf_calls = 0

    def _perturb(self, val):
        def f(p):
            if isinstance(p, np.ndarray):
                eps = np.finfo(p.dtype).eps
                sg = self.rng.randint(0, 2, size=p.shape) * 2 - 1
                if p.dtype.kind == 'c':
                    # real and imaginary parts round independently
                    sg2 = self.rng.randint(0, 2, size=p.shape) * 2 - 1
                    return (p.real * (1 + self.noise * eps * sg) + 1j *
                            p.imag * (1 + self.noise * eps * sg2)
                            ).astype(p.dtype)
                return (p * (1 + self.noise * eps * sg)).astype(p.dtype)
            sg = self.rng.randint(0, 2) * 2 - 1
            if isinstance(p, complex):
                sg2 = self.rng.randint(0, 2) * 2 - 1
                return complex(
                    p.real * (1 + self.noise * self.env.eps * sg),
                    p.imag * (1 + self.noise * self.env.eps * sg2))
            return p * (1 + self.noise * self.env.eps * sg)
        return vmap(f, val)

    def ev(self, b, x):
        r = self._ev(b, x)
        if self.noise:
            r = self._perturb(r)
        return r

    def _arg(self, val):
        """A computed argument (a*x, v*x, x - v): carries rounding errors of
        its own, so it is perturbed in noise mode like a node result."""
        return self._perturb(val) if self.noise else val

    def leaf(self, b, x):
        node = b.node
        if self.margin is not None:
            dist = leaf_margin(self.env, node, x)
            if dist is not None and not (dist >= self.margin):
                raise NearNondiff('{} at distance {:.3g}'.format(
                    node['kind'], dist))
        self.leaf_calls += 1
        try:
            xe = self.env.element(node['dom'], x)
            y = b.obj(xe)
            return to_np(y, self.env.set(node['ran']))
        except (OverflowError, ZeroDivisionError, FloatingPointError) as e:
            raise RefOverflow('{}: {}'.format(type(e).__name__, e))

    def _ev(self, b, x):
        node = b.node
        op = node['op']
        if op == 'leaf':
            return self.leaf(b, x)
        A = b.kids[0]
        B = b.kids[1] if len(b.kids) > 1 else None
        how = node.get('how')
        if op == 'sum':
            return vadd(self.ev(A, x), self.ev(B, x))
        if op == 'diff':
            return vsub(self.ev(A, x), self.ev(B, x))
        if op == 'pwprod':
            return vmul(self.ev(A, x), self.ev(B, x))
        if op == 'neg':
            return vscale(-1.0, self.ev(A, x))
        if op == 'pos':
            return self.ev(A, x)
        if op == 'lscal':
            return vscale(b.scal_val, self.ev(A, x))
        if op == 'rscal':
            return self.ev(A, self._arg(vscale(b.scal_val, x)))
        if op == 'div':
            return self.ev(A, self._arg(vscale(1.0 / b.scal_val, x)))
        if op == 'comp':
            return self.ev(A, self.ev(B, x))
        if op == 'rvec':
            return self.ev(A, self._arg(vmul(b.vec_np, x)))
        if op == 'lvec':
            return vmul(b.vec_np, self.ev(A, x))
        if op == 'flvec':
            s = self.ev(A, x)
            return vscale(s, b.vec_np)
        if op == 'addvec':
            y = self.ev(A, x)
            if how in ('A+v', 'v+A', 'ctor'):
                return vadd(y, b.vec_np)
            if how == 'A-v':
                return vsub(y, b.vec_np)
            return vsub(b.vec_np, y)
        if op == 'addscal':
            y = self.ev(A, x)
            c = b.scal_val

            def f(p):
                cc = p.dtype.type(c) if isinstance(p, np.ndarray) else c
                return {'A+c': p + cc, 'c+A': cc + p, 'A-c': p - cc,
                        'c-A': cc - p}[how]
            return vmap(f, y)
        if op == 'pow':
            y = x
            for _ in range(int(node['n'])):
                y = self.ev(A, y)
            return y
        if op == 'translated':
            return self.ev(A, self._arg(vsub(x, b.vec_np)))
        if op == 'broadcast':
            return [self.ev(k, x) for k in b.kids]
        if op == 'diagonal':
            return [self.ev(k, xi) for k, xi in zip(b.kids, x)]
        if op == 'reduction':
            acc = None
            for k, xi in zip(b.kids, x):
                y = self.ev(k, xi)
                acc = y if acc is None else vadd(acc, y)
            return acc
        if op == 'pspaceop':
            nr, nc = node['shape']
            R = self.env.info(node['ran'])
            out = []
            for i in range(nr):
                acc = None
                for j in range(nc):
                    k = b.kids[i * nc + j]
                    if k is None:
                        continue
                    y = self.ev(k, x[j])
                    acc = y if acc is None else vadd(acc, y)
                out.append(self.env.zero_value(R.parts[i]) if acc is None
                           else acc)
            return out
        ext = EXTRA_CTOR_EVAL.get(op)
        if ext is None:
            raise HarnessError('unknown constructor {!r}'.format(op))
        return ext(self, b, x)


# --------------------------------------------------------------------------
# non-differentiable sets of the leaves (distance of the argument from it)

def _minabs(x):
    f = vflat(x)
    return float(np.min(np.abs(f))) if f.size else np.inf


def leaf_margin(env, node, x):
    """Distance of ``x`` from the set where the leaf is not differentiable
    (None: differentiable everywhere)."""
    kind, a = node['kind'], node['args']
    if kind in ('cmod', 'ufunc_abs', 'l1'):
        return _minabs(x)
    if kind == 'pwnorm':
        p = a.get('exponent')
        p = 2.0 if p is None else float(p)
        arrs = [np.abs(np.asarray(c)) for c in x]
        if p < 2:
            # every component must stay away from zero
            return float(min(np.min(c) for c in arrs))
        return float(np.min(np.sqrt(sum(c ** 2 for c in arrs))))
    if kind in ('norm', 'l2'):
        return float(np.sqrt(np.sum(np.abs(vflat(x)) ** 2)))
    if kind == 'dist':
        v = env.np_value(node['dom'], a['v'])
        return float(np.sqrt(np.sum(np.abs(vflat(vsub(x, v))) ** 2)))
    if kind in ('power', 'fpower'):
        p = float(a['p'])
        if p == int(p) and p >= 1:
            return None
        f = vflat(x)
        if p == int(p):        # negative integer / zero: pole at 0
            return _minabs(x)
        # non-integer: needs positive real arguments
        if np.iscomplexobj(f):
            return float(np.min(f.real)) if f.size else np.inf
        return float(np.min(f)) if f.size else np.inf
    if kind == 'ufunc':
        name = a['name']
        f = vflat(x)
        if name in ('sqrt', 'log'):
            return float(np.min(f.real)) if f.size else np.inf
        if name == 'reciprocal':
            return _minabs(x)
        if name == 'tan':
            # poles at pi/2 + k pi
            if not f.size:
                return np.inf
            r = np.abs(np.cos(f))
            return float(np.min(r))
        return None
    ext = EXTRA_MARGINS.get(kind)
    if ext is not None:
        return ext(env, node, x)
    return None
