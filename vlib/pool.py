"""C20 helper: object descriptors for sets / grids / partitions / weightings /
spaces, their Hypothesis strategies, builders, named mutations (twins and
near-twins) and the independent membership model of the basic sets.

Object descriptors are plain dicts with a key ``k``:

  {"k": "R"|"C"|"Z"|"Empty"|"Univ"}              fields and trivial sets
  {"k": "Strings", "n": 3}
  {"k": "Cart"|"Union"|"Inter", "sets": [<set desc>, ...]}
  {"k": "Finite", "elems": [1, "a", 2.5]}
  {"k": "Intv", "min": [..], "max": [..]}        IntervalProd, 0-3 dims
  {"k": "Grid", "coords": [[..], ..]}            RectGrid
  {"k": "Part", "min": [..], "max": [..], "coords": [[..], ..]}
  {"k": "UPart", "min": [..], "max": [..], "shape": [..], "nob": ..}
  {"k": "W", "level": "tensor"|"pspace"|"base", "type": "const"|"array"|
        "custom"|"matrix", "value": c, "arr": <array ref>, "which": ..,
        "exponent": p}
  {"k": "Space", "sd": <space descriptor>}       see ``space_desc``

Space descriptors are those of ``vlib.spacex`` with one extension: an array
weighting may carry ``"id": n``.  Array weightings compare by *identity*
(documented), so the builder keeps one ndarray per (id, dtype, data) and
case: equal ids share the array object, different ids do not.
"""
import numbers

import numpy as np
from hypothesis import strategies as st

from . import build, spacex, strategies as vs
from .core import HarnessError, import_odl

odl = import_odl()
from odl.set import sets as osets  # noqa: E402
from odl.space import weighting as oweighting  # noqa: E402
from odl.space import npy_tensors, pspace as opspace  # noqa: E402

INF = float('inf')
LIMITS = [0.0, 1.0, -1.0, 2.0, 0.5, -0.5, 3.0, -2.0, 0.25]
EXPS = [2.0, 2.0, 1.0, INF, 1.5]
WCONST = [1.0, 2.0, 0.5, 3.0]
FINITE_ELEMS = [1, 2, 3, 'a', 'bc', 2.5, -1, 0, (1, 2), None, True]


# --------------------------------------------------------------------------
# builders

VIEW_KINDS = ('same', 'strided', 'offset', 'reversed', 'forder',
              'transposed')
WRAP_KINDS = ('tensor',)


def view_kinds(shape, matrix=False):
    """Aliasing kinds that give a *distinct array object of the same shape
    and dtype* on the memory block of the array with the same id:

    same        ``a[...]``: same memory, same layout, same values
    strided     same start address, other strides (``buf[:n]`` against
                ``buf[::2]``), other values
    offset      overlapping memory, start address one item later
    reversed    same memory walked backwards (other start, negative stride)
    forder      same start address and memory, Fortran instead of C strides
                (ndim >= 2; other values)
    transposed  ``a.T`` (shapes that read the same backwards, ndim >= 2)
    """
    shape = tuple(shape)
    n = int(np.prod(shape, dtype=int))
    if n == 0:
        return []
    if matrix:
        # a weighting matrix has to stay Hermitian: only the views of a
        # (diagonal) matrix that keep its values
        return ['same', 'transposed']
    kinds = ['same', 'strided', 'offset', 'reversed']
    if len(shape) >= 2:
        kinds.append('forder')
        if shape == shape[::-1]:
            kinds.append('transposed')
    return kinds


class Arrays(object):
    """Per-case table of weighting arrays (identity semantics).

    Every array with an ``id`` is the head ``buf[:n]`` of a buffer of
    ``2 n + 1`` items kept per (id, dtype, data, shape); the items behind
    the head hold values that do not occur in any descriptor (4.0, 4.25,
    ...).  ``"view": kind`` in the array reference asks for a *new* ndarray
    object aliasing that buffer (see `view_kinds`), ``"wrap": "tensor"``
    for an ODL tensor that wraps the very array object (documented: native
    tensors are stored without copying)."""

    def __init__(self):
        self.tab = {}

    def get(self, wd, shape, dtype):
        if wd.get('as64'):
            dtype = 'float64'      # weights as given, whatever the space
        shape = tuple(int(s) for s in shape)
        key = (wd.get('id', None), str(np.dtype(dtype)),
               repr(wd['data']), shape)
        if wd.get('id') is None:
            # anonymous: a fresh array every time
            return np.asarray(wd['data'], dtype=float).reshape(
                shape).astype(dtype)
        n = int(np.prod(shape, dtype=int))
        if key not in self.tab:
            buf = np.empty(2 * n + 1, dtype=dtype)
            buf[:n] = np.asarray(wd['data'], dtype=float).reshape(-1)
            buf[n:] = 4.0 + 0.25 * np.arange(n + 1)
            self.tab[key] = (buf, buf[:n].reshape(shape))
        buf, base = self.tab[key]
        view = wd.get('view')
        if view is None:
            arr = base
        elif view == 'same':
            arr = base[...]
        elif view == 'strided':
            arr = buf[0:2 * n:2].reshape(shape)
        elif view == 'offset':
            arr = buf[1:n + 1].reshape(shape)
        elif view == 'reversed':
            arr = buf[:n][::-1].reshape(shape)
        elif view == 'forder':
            arr = buf[:n].reshape(shape, order='F')
        elif view == 'transposed':
            arr = base.T
        else:
            raise HarnessError('array view {!r}'.format(view))
        if view is not None and (
                arr is base or arr.shape != shape or arr.dtype != base.dtype
                or (n and not np.shares_memory(arr, buf))):
            raise HarnessError('view {!r} of shape {} is not a distinct '
                               'alias'.format(view, shape))
        wrap = wd.get('wrap')
        if wrap is None:
            return arr
        if wrap == 'tensor':
            x = odl.tensor_space(shape, dtype=arr.dtype).element(arr)
            if x.data is not arr:
                raise HarnessError('tensor wrapper copied the array')
            return x
        raise HarnessError('array wrap {!r}'.format(wrap))


def _tensor_kwargs(sd, shape, arrays):
    kwargs = {}
    w = sd.get('weighting')
    if w is not None:
        if w['type'] == 'const':
            kwargs['weighting'] = float(w['value'])
        elif w['type'] == 'array':
            kwargs['weighting'] = arrays.get(
                w, shape, spacex._real_dtype(sd.get('dtype', 'float64')))
        elif w['type'] == 'custom':
            which = w['which']
            kwargs[which.split('_')[0]] = \
                spacex.custom_func('tensor', which)
        else:
            raise HarnessError('weighting {!r}'.format(w))
    if 'exponent' in sd and (sd['exponent'] != 2.0 or sd.get('explicit')):
        kwargs['exponent'] = float(sd['exponent'])
    if sd.get('explicit') and w is None and \
            np.dtype(sd.get('dtype', 'float64')).kind in 'fc' and \
            sd['kind'] == 'tensor':
        kwargs['weighting'] = 1.0
    if sd.get('w_instance'):
        # call style: the same weighting handed over as a `Weighting`
        # instance (documented: used as-is)
        p = float(sd.get('exponent', 2.0))
        if w is None:
            kwargs['weighting'] = \
                npy_tensors.NumpyTensorSpaceConstWeighting(1.0, p)
        elif w['type'] == 'const':
            kwargs['weighting'] = \
                npy_tensors.NumpyTensorSpaceConstWeighting(
                    kwargs['weighting'], p)
        elif w['type'] == 'array':
            kwargs['weighting'] = \
                npy_tensors.NumpyTensorSpaceArrayWeighting(
                    kwargs['weighting'], p)
        else:
            key = [k for k in ('inner', 'norm', 'dist') if k in kwargs][0]
            cls = {'inner': npy_tensors.NumpyTensorSpaceCustomInner,
                   'norm': npy_tensors.NumpyTensorSpaceCustomNorm,
                   'dist': npy_tensors.NumpyTensorSpaceCustomDist}[key]
            kwargs['weighting'] = cls(kwargs.pop(key))
            kwargs.pop('exponent', None)
        if sd['kind'] != 'tensor' and 'exponent' not in kwargs and \
                not (w and w['type'] == 'custom'):
            kwargs['exponent'] = p      # (uniform_discr defaults to 2.0)
    return kwargs


def build_space(sd, arrays):
    kind = sd['kind']
    if kind == 'tensor':
        shape = tuple(sd['shape'])
        if sd.get('ctor') == 'rn-cn':
            # call style: the documented short-hands of tensor_space
            make = odl.cn if np.dtype(sd['dtype']).kind == 'c' else odl.rn
            return make(shape[0] if len(shape) == 1 and sd.get('int_shape')
                        else shape, dtype=sd['dtype'],
                        **_tensor_kwargs(sd, shape, arrays))
        return odl.tensor_space(shape, dtype=sd.get('dtype', 'float64'),
                                **_tensor_kwargs(sd, shape, arrays))
    if kind == 'discr':
        shape = tuple(sd['shape'])
        kwargs = _tensor_kwargs(sd, shape, arrays)
        nob = sd.get('nodes_on_bdry', False)
        if nob is not False:
            kwargs['nodes_on_bdry'] = nob if isinstance(nob, bool) else \
                [tuple(p) for p in nob]
        return odl.uniform_discr(sd['min'], sd['max'], shape,
                                 dtype=sd.get('dtype', 'float64'), **kwargs)
    if kind == 'discr_coords':
        part = spacex.build_partition(sd)
        shape = tuple(sd['shape'])
        kwargs = _tensor_kwargs(sd, shape, arrays)
        if part.is_uniform:
            return odl.uniform_discr_frompartition(
                part, dtype=sd.get('dtype', 'float64'), **kwargs)
        return odl.DiscretizedSpace(part, odl.tensor_space(
            shape, dtype=sd.get('dtype', 'float64'), **kwargs))
    if kind == 'pspace':
        kwargs = {}
        w = sd.get('weighting')
        if w is not None:
            if w['type'] == 'const':
                kwargs['weighting'] = float(w['value'])
            elif w['type'] == 'array':
                n = len(build.space_parts(sd))
                kwargs['weighting'] = arrays.get(w, (n,), 'float64')
            elif w['type'] == 'custom':
                kwargs[w['which']] = spacex.custom_func('pspace', w['which'])
        if sd.get('exponent', 2.0) != 2.0:
            kwargs['exponent'] = float(sd['exponent'])
        if sd.get('w_instance'):
            p = float(sd.get('exponent', 2.0))
            if w is None:
                kwargs['weighting'] = opspace.ProductSpaceConstWeighting(
                    1.0, p)
            elif w['type'] == 'const':
                kwargs['weighting'] = opspace.ProductSpaceConstWeighting(
                    kwargs['weighting'], p)
            elif w['type'] == 'array':
                kwargs['weighting'] = opspace.ProductSpaceArrayWeighting(
                    kwargs['weighting'], p)
            else:
                cls = {'inner': opspace.ProductSpaceCustomInner,
                       'norm': opspace.ProductSpaceCustomNorm,
                       'dist': opspace.ProductSpaceCustomDist}[w['which']]
                kwargs['weighting'] = cls(kwargs.pop(w['which']))
        if sd.get('power') is not None:
            return odl.ProductSpace(build_space(sd['base'], arrays),
                                    int(sd['power']), **kwargs)
        parts = [build_space(p, arrays) for p in sd['parts']]
        if not parts:
            kwargs['field'] = (odl.ComplexNumbers() if sd.get('field') ==
                               'complex' else odl.RealNumbers())
        return odl.ProductSpace(*parts, **kwargs)
    raise HarnessError('space kind {!r}'.format(kind))


def _elem(e):
    return tuple(e) if isinstance(e, list) else e


def build_obj(d, arrays):
    k = d['k']
    if k == 'R':
        return osets.RealNumbers()
    if k == 'C':
        return osets.ComplexNumbers()
    if k == 'Z':
        return osets.Integers()
    if k == 'Empty':
        return osets.EmptySet()
    if k == 'Univ':
        return osets.UniversalSet()
    if k == 'Strings':
        return osets.Strings(d['n'])
    if k == 'Cart':
        return osets.CartesianProduct(*[build_obj(s, arrays)
                                        for s in d['sets']])
    if k == 'Union':
        return osets.SetUnion(*[build_obj(s, arrays) for s in d['sets']])
    if k == 'Inter':
        return osets.SetIntersection(*[build_obj(s, arrays)
                                       for s in d['sets']])
    if k == 'Finite':
        return osets.FiniteSet(*[_elem(e) for e in d['elems']])
    if k == 'Intv':
        if d.get('scalar'):
            return odl.IntervalProd(d['min'][0], d['max'][0])
        return odl.IntervalProd(d['min'], d['max'])
    if k == 'Grid':
        return odl.RectGrid(*[np.asarray(c, dtype=float)
                              for c in d['coords']])
    if k == 'Part':
        return odl.RectPartition(
            odl.IntervalProd(d['min'], d['max']),
            odl.RectGrid(*[np.asarray(c, dtype=float) for c in d['coords']]))
    if k == 'UPart':
        nob = d['nob']
        return odl.uniform_partition(
            d['min'], d['max'], tuple(d['shape']),
            nodes_on_bdry=nob if isinstance(nob, bool) else
            [tuple(p) for p in nob])
    if k == 'W':
        return build_weighting(d, arrays)
    if k == 'Space':
        return build_space(d['sd'], arrays)
    raise HarnessError('object kind {!r}'.format(k))


def build_weighting(d, arrays):
    p = float(d.get('exponent', 2.0))
    lvl, typ = d['level'], d['type']
    if typ == 'const':
        if lvl == 'tensor':
            return npy_tensors.NumpyTensorSpaceConstWeighting(d['value'], p)
        if lvl == 'pspace':
            return opspace.ProductSpaceConstWeighting(d['value'], p)
        return oweighting.ConstWeighting(d['value'], impl='numpy',
                                         exponent=p)
    if typ == 'array':
        arr = arrays.get(d['arr'], (len(d['arr']['data']),), 'float64')
        if lvl == 'tensor':
            return npy_tensors.NumpyTensorSpaceArrayWeighting(arr, p)
        if lvl == 'pspace':
            return opspace.ProductSpaceArrayWeighting(arr, p)
        return oweighting.ArrayWeighting(arr, impl='numpy', exponent=p)
    if typ == 'matrix':
        n = len(d['arr']['data'])
        arr = arrays.get({'id': d['arr'].get('id'),
                          'view': d['arr'].get('view'),
                          'data': np.diag(d['arr']['data']).tolist()},
                         (n, n), 'float64')
        return oweighting.MatrixWeighting(arr, impl='numpy', exponent=p)
    if typ == 'custom':
        which = d['which']
        fn = spacex.custom_func('tensor' if lvl != 'pspace' else 'pspace',
                                which)
        base = which.split('_')[0]
        cls = {('tensor', 'inner'): npy_tensors.NumpyTensorSpaceCustomInner,
               ('tensor', 'norm'): npy_tensors.NumpyTensorSpaceCustomNorm,
               ('tensor', 'dist'): npy_tensors.NumpyTensorSpaceCustomDist,
               ('pspace', 'inner'): opspace.ProductSpaceCustomInner,
               ('pspace', 'norm'): opspace.ProductSpaceCustomNorm,
               ('pspace', 'dist'): opspace.ProductSpaceCustomDist}[
                   ('pspace' if lvl == 'pspace' else 'tensor', base)]
        return cls(fn)
    raise HarnessError('weighting type {!r}'.format(typ))


# --------------------------------------------------------------------------
# strategies

def _lim():
    return st.sampled_from(LIMITS) | st.floats(-4, 4).map(vs._round)


@st.composite
def basic_sets(draw, depth=1):
    kinds = ['R', 'C', 'Z', 'Empty', 'Univ', 'Strings', 'Strings', 'Finite',
             'Finite', 'Finite', 'Intv']
    if depth > 0:
        kinds += ['Cart', 'Union', 'Inter', 'Cart', 'Union', 'Inter']
    k = draw(st.sampled_from(kinds))
    if k == 'Strings':
        return {'k': k, 'n': draw(st.integers(1, 4))}
    if k == 'Finite':
        return draw(finite_sets())
    if k == 'Intv':
        return draw(intervals())
    if k in ('Cart', 'Union', 'Inter'):
        n = draw(st.integers(0 if k == 'Cart' else 1, 3))
        return {'k': k, 'sets': [draw(basic_sets(depth - 1))
                                 for _ in range(n)]}
    return {'k': k}


@st.composite
def finite_sets(draw):
    els = draw(st.lists(st.sampled_from(FINITE_ELEMS), min_size=1,
                        max_size=4))
    return {'k': 'Finite', 'elems': [list(e) if isinstance(e, tuple) else e
                                     for e in els]}


@st.composite
def intervals(draw, ndim=None):
    nd = draw(st.integers(0, 3)) if ndim is None else ndim
    mins, maxs = [], []
    for _ in range(nd):
        lo = draw(_lim())
        ext = draw(st.sampled_from([0.0, 1.0, 1.0, 2.0, 0.5]))
        mins.append(lo)
        maxs.append(lo + ext)
    d = {'k': 'Intv', 'min': mins, 'max': maxs}
    if nd == 1 and draw(st.booleans()):
        d['scalar'] = True
    return d


@st.composite
def coord_vec(draw, n=None):
    n = draw(st.integers(1, 4)) if n is None else n
    c0 = draw(_lim())
    if draw(st.booleans()):
        s = draw(st.sampled_from([1.0, 0.5, 2.0, 0.25]))
        return [c0 + s * i for i in range(n)]
    gaps = draw(st.lists(st.sampled_from([1.0, 2.5, 0.5]), min_size=n - 1,
                         max_size=n - 1))
    c = [c0]
    for g in gaps:
        c.append(c[-1] + g)
    return c


@st.composite
def grids(draw):
    nd = draw(st.integers(0, 3))
    return {'k': 'Grid', 'coords': [draw(coord_vec()) for _ in range(nd)]}


@st.composite
def partitions(draw):
    if draw(st.booleans()):
        nd = draw(st.integers(0, 3))
        coords = [draw(coord_vec()) for _ in range(nd)]
        mins = [c[0] - draw(st.sampled_from([0.0, 0.5, 0.25, 1.0]))
                for c in coords]
        maxs = [c[-1] + draw(st.sampled_from([0.0, 0.5, 0.25, 1.0]))
                for c in coords]
        return {'k': 'Part', 'min': mins, 'max': maxs, 'coords': coords}
    nd = draw(st.integers(1, 3))
    shape = [draw(st.integers(1, 4)) for _ in range(nd)]
    iv = draw(intervals(nd))
    maxs = [hi if hi > lo else lo + 1.0 for lo, hi in zip(iv['min'],
                                                           iv['max'])]
    nob = draw(st.sampled_from([False, True, 'per']))
    if nob == 'per':
        nob = [[draw(st.booleans()), draw(st.booleans())] for _ in shape]
    if nob is True:
        nob = [[True, n > 1] for n in shape]
    if isinstance(nob, list):
        nob = [[p[0], p[1] and not (p[0] and n == 1)]
               for p, n in zip(nob, shape)]
    return {'k': 'UPart', 'min': iv['min'], 'max': maxs, 'shape': shape,
            'nob': nob}


@st.composite
def array_ref(draw, n, ids=(0, 1, 2)):
    data = draw(st.lists(st.sampled_from([1.0, 2.0, 3.0, 0.5]), min_size=n,
                         max_size=n))
    return {'id': draw(st.sampled_from(list(ids))), 'data': data}


@st.composite
def weightings(draw):
    level = draw(st.sampled_from(['tensor', 'tensor', 'pspace', 'pspace',
                                  'base']))
    typ = draw(st.sampled_from(['const', 'const', 'array', 'array', 'custom',
                                'matrix']))
    if level == 'base' and typ == 'custom':
        typ = 'const'
    d = {'k': 'W', 'level': level, 'type': typ,
         'exponent': draw(st.sampled_from(EXPS))}
    if typ == 'const':
        d['value'] = draw(st.sampled_from(WCONST))
    elif typ in ('array', 'matrix'):
        d['arr'] = draw(array_ref(3))
        if typ == 'matrix':
            d['level'] = 'base'
    else:
        d['which'] = draw(st.sampled_from(
            ['inner', 'norm', 'dist'] + (['inner_c'] if level != 'pspace'
                                         else [])))
        d['exponent'] = 2.0
    return d


# (half and extended precision: the real <-> complex dtype maps are not
# inverse to each other there: float16 -> complex64 -> float32)
FLOATS = ['float64', 'float32', 'complex128', 'complex64', 'float64',
          'complex128', 'float16', 'float16', 'float128', 'complex256']
ALL_DTYPES = FLOATS + ['int64', 'int32', 'uint8']
OTHER_DTYPE = {'float64': 'float32', 'float32': 'float64',
               'complex128': 'complex64', 'complex64': 'complex128',
               'int64': 'int32', 'int32': 'int64', 'uint8': 'int64',
               'float16': 'float32', 'float128': 'float64',
               'complex256': 'complex128'}


@st.composite
def leaf_weighting(draw, shape, dtype, custom=True):
    if np.dtype(dtype).kind not in 'fc':
        return None
    kinds = ['none', 'none', 'const', 'array'] + (['custom'] if custom
                                                   else [])
    wk = draw(st.sampled_from(kinds))
    if wk == 'none':
        return None
    if wk == 'const':
        return {'type': 'const', 'value': draw(st.sampled_from(WCONST))}
    if wk == 'custom':
        return {'type': 'custom', 'which': draw(st.sampled_from(
            ['inner', 'norm', 'dist', 'inner_c']))}
    n = int(np.prod(shape, dtype=int))
    data = draw(st.lists(st.sampled_from([1.0, 2.0, 3.0, 0.5]), min_size=n,
                         max_size=n))
    w = {'type': 'array', 'id': draw(st.sampled_from([0, 1, None])),
         'data': np.reshape(data, shape).tolist()}
    if draw(st.booleans()):
        w['as64'] = True           # float64 weights on any space
    return w


@st.composite
def tensor_descs(draw, dtypes=ALL_DTYPES, max_ndim=3, max_side=4,
                 min_side=1):
    shape = draw(vs.small_shapes(min_ndim=1, max_ndim=max_ndim,
                                 min_side=min_side, max_side=max_side,
                                 max_size=24))
    dtype = draw(st.sampled_from(list(dtypes)))
    w = draw(leaf_weighting(shape, dtype))
    p = 2.0
    if np.dtype(dtype).kind in 'fc' and not (w and w['type'] == 'custom'):
        p = draw(st.sampled_from(EXPS))
    return {'kind': 'tensor', 'shape': list(shape), 'dtype': dtype,
            'weighting': w, 'exponent': p}


@st.composite
def discr_descs(draw, dtypes=FLOATS + ['int64'], max_ndim=3, max_side=4,
                min_side=1):
    shape = draw(vs.small_shapes(min_ndim=1, max_ndim=max_ndim,
                                 min_side=min_side, max_side=max_side,
                                 max_size=24))
    dtype = draw(st.sampled_from(list(dtypes)))
    mins, maxs = [], []
    for n in shape:
        lo = draw(_lim())
        mins.append(lo)
        maxs.append(lo + draw(st.sampled_from([1.0, 2.0, float(n), 0.5])))
    nob = draw(st.sampled_from([False, False, True, 'per']))
    if nob == 'per':
        nob = [[draw(st.booleans()), draw(st.booleans())] for _ in shape]
    elif nob is True:
        nob = [[True, True] for _ in shape]
    if isinstance(nob, list):
        nob = [[p[0], p[1] and not (p[0] and n == 1)]
               for p, n in zip(nob, shape)]
    w = draw(leaf_weighting(shape, dtype, custom=False))
    p = draw(st.sampled_from(EXPS)) if np.dtype(dtype).kind in 'fc' else 2.0
    return {'kind': 'discr', 'min': mins, 'max': maxs, 'shape': list(shape),
            'nodes_on_bdry': nob, 'dtype': dtype, 'exponent': p,
            'weighting': w}


@st.composite
def leaf_descs(draw, dtypes=None, **kw):
    if draw(st.integers(0, 2)) == 0:
        return draw(discr_descs(dtypes=dtypes or FLOATS + ['int64'], **kw))
    return draw(tensor_descs(dtypes=dtypes or ALL_DTYPES, **kw))


@st.composite
def pspace_descs(draw, depth=None, family=None, power_only=False):
    depth = draw(st.sampled_from([1, 1, 2])) if depth is None else depth
    family = family or draw(st.sampled_from(['real', 'real', 'cplx']))
    dts = {'real': ['float64', 'float32', 'int64', 'float16', 'float64'],
           'cplx': ['complex128', 'complex64', 'complex128',
                    'complex256']}[family]

    def rec(d):
        if d == 0:
            return draw(leaf_descs(dtypes=dts, max_ndim=2, max_side=3))
        n = draw(st.sampled_from([0, 1, 2, 2, 3, 3]))
        sd = {'kind': 'pspace'}
        if power_only or draw(st.booleans()):
            sd['base'] = rec(d - 1)
            sd['power'] = n
        else:
            sd['parts'] = [rec(draw(st.integers(0, d - 1)))
                           for _ in range(n)]
            sd['power'] = None
            if n == 0:
                sd['field'] = 'complex' if family == 'cplx' else 'real'
        wk = draw(st.sampled_from(['none', 'none', 'const', 'array',
                                   'custom']))
        sd['exponent'] = draw(st.sampled_from(EXPS))
        if wk == 'none':
            sd['weighting'] = None
        elif wk == 'const':
            sd['weighting'] = {'type': 'const',
                               'value': draw(st.sampled_from(WCONST))}
        elif wk == 'array':
            sd['weighting'] = {
                'type': 'array', 'id': draw(st.sampled_from([0, 1, None])),
                'data': draw(st.lists(st.sampled_from([1.0, 2.0, 3.0]),
                                      min_size=n, max_size=n))}
        else:
            sd['weighting'] = {'type': 'custom', 'which': draw(
                st.sampled_from(['inner', 'norm', 'dist']))}
            sd['exponent'] = 2.0
        return sd

    return rec(depth)


@st.composite
def space_descs(draw):
    which = draw(st.sampled_from(['tensor', 'tensor', 'discr', 'pspace',
                                  'pspace']))
    if which == 'tensor':
        return draw(tensor_descs())
    if which == 'discr':
        return draw(discr_descs())
    return draw(pspace_descs())


CLASSES = ['set', 'set', 'intv', 'grid', 'part', 'weighting', 'weighting',
           'space', 'space', 'space']


@st.composite
def objects(draw, cls=None):
    cls = cls or draw(st.sampled_from(CLASSES))
    if cls == 'set':
        return draw(basic_sets())
    if cls == 'intv':
        return draw(intervals())
    if cls == 'grid':
        return draw(grids())
    if cls == 'part':
        return draw(partitions())
    if cls == 'weighting':
        return draw(weightings())
    return {'k': 'Space', 'sd': draw(space_descs())}


# --------------------------------------------------------------------------
# named mutations

def _copy(d):
    import copy
    return copy.deepcopy(d)


def _flip_zero(vals):
    """Flip the sign of the first zero in a nested list; None if no zero."""
    for i, v in enumerate(vals):
        if isinstance(v, list):
            r = _flip_zero(v)
            if r is not None:
                return vals[:i] + [r] + vals[i + 1:]
        elif v == 0.0:
            new = -0.0 if str(float(v))[0] != '-' else 0.0
            return vals[:i] + [new] + vals[i + 1:]
    return None


def mutations(d):
    """All named mutations applicable to ``d``: list of
    (name, mutated descriptor, 'equal' | 'unequal')."""
    out = []
    k = d['k']

    def add(name, nd, expect):
        out.append((name, nd, expect))

    if k in ('R', 'C', 'Z', 'Empty', 'Univ'):
        other = {'R': 'C', 'C': 'R', 'Z': 'R', 'Empty': 'Univ',
                 'Univ': 'Empty'}[k]
        add('class', {'k': other}, 'unequal')
    elif k == 'Strings':
        add('length', {'k': k, 'n': d['n'] + 1}, 'unequal')
    elif k in ('Cart', 'Union', 'Inter'):
        nd = _copy(d)
        nd['sets'].append({'k': 'Strings', 'n': 7})
        add('append', nd, 'unequal')
        if k != 'Cart' and len(d['sets']) >= 2:
            nd = _copy(d)
            nd['sets'] = nd['sets'][::-1]
            add('reorder', nd, 'equal')
            nd = _copy(d)
            nd['sets'] = nd['sets'] + nd['sets'][:1]
            add('duplicate', nd, 'equal')
        if k != 'Cart':
            nd = _copy(d)
            nd['k'] = 'Inter' if k == 'Union' else 'Union'
            add('class', nd, 'unequal')
        else:
            nd = _copy(d)
            nd['sets'] = nd['sets'] + [{'k': 'Z'}]
            add('length', nd, 'unequal')
            if d['sets']:
                nd = _copy(d)
                nd['sets'][-1] = {'k': 'Strings', 'n': 9}
                add('component', nd, 'unequal')
                if len(d['sets']) >= 2 and \
                        d['sets'][0]['k'] != d['sets'][-1]['k']:
                    # (a Cartesian product is ordered)
                    nd = _copy(d)
                    nd['sets'] = nd['sets'][::-1]
                    add('swap', nd, 'unequal')
        if k != 'Cart' and d['sets']:
            nd = _copy(d)
            nd['sets'][-1] = {'k': 'Strings', 'n': 9}
            if {'k': 'Strings', 'n': 9} not in d['sets']:
                add('component', nd, 'unequal')
    elif k == 'Finite':
        nd = _copy(d)
        nd['elems'] = nd['elems'][::-1]
        add('reorder', nd, 'equal')
        nd = _copy(d)
        nd['elems'] = nd['elems'] + ['zz']
        add('append', nd, 'unequal')
        nd = _copy(d)
        nd['elems'] = nd['elems'] + nd['elems'][:1]
        add('duplicate', nd, 'equal')
    elif k == 'Intv':
        nd = len(d['min'])
        z = _flip_zero(d['min'])
        if z is not None:
            add('signed-zero', dict(d, min=z), 'equal')
        z = _flip_zero(d['max'])
        if z is not None:
            add('signed-zero', dict(d, max=z), 'equal')
        if nd >= 1:
            m = _copy(d)
            m['max'][-1] = m['max'][-1] + 0.5
            add('coordinate', m, 'unequal')
            m = _copy(d)
            m.pop('scalar', None)
            m['min'].append(m['min'][-1])
            m['max'].append(m['max'][-1])
            add('dimension', m, 'unequal')
            m = _copy(m)
            m['min'].append(m['min'][-1])
            m['max'].append(m['max'][-1])
            add('dimension+2', m, 'unequal')
            if nd == 1:
                m = _copy(d)
                m['scalar'] = not d.get('scalar', False)
                add('scalar-vs-sequence', m, 'equal')
        else:
            add('dimension', dict(d, min=[0.0], max=[1.0]), 'unequal')
    elif k == 'Grid':
        z = _flip_zero(d['coords'])
        if z is not None:
            add('signed-zero', dict(d, coords=z), 'equal')
        if d['coords']:
            m = _copy(d)
            m['coords'][-1][-1] += 0.25
            add('coordinate', m, 'unequal')
            m = _copy(d)
            m['coords'].append(list(m['coords'][-1]))
            add('dimension', m, 'unequal')
            m = _copy(d)
            m['coords'][0] = m['coords'][0] + [m['coords'][0][-1] + 1.0]
            add('shape', m, 'unequal')
        else:
            add('dimension', dict(d, coords=[[0.0]]), 'unequal')
    elif k == 'Part':
        for key in ('min', 'max', 'coords'):
            z = _flip_zero(d[key])
            if z is not None:
                add('signed-zero', dict(d, **{key: z}), 'equal')
        if d['coords']:
            m = _copy(d)
            m['max'][-1] += 0.125
            add('limit', m, 'unequal')
            m = _copy(d)
            m['min'][0] -= 0.125
            add('limit', m, 'unequal')
            m = _copy(d)
            m['coords'].append(list(m['coords'][-1]))
            m['min'].append(m['min'][-1])
            m['max'].append(m['max'][-1])
            add('dimension', m, 'unequal')
            if len(d['coords'][0]) >= 2:
                m = _copy(d)
                c = m['coords'][0]
                c[-1] = (c[-1] + c[-2]) / 2.0
                add('coordinate', m, 'unequal')
    elif k == 'UPart':
        for key in ('min', 'max'):
            z = _flip_zero(d[key])
            if z is not None:
                add('signed-zero', dict(d, **{key: z}), 'equal')
        m = _copy(d)
        m['max'][-1] += 0.5
        add('limit', m, 'unequal')
        m = _copy(d)
        m['shape'][0] += 1
        add('shape', m, 'unequal')
        if d['shape'][0] > 1:
            m = _copy(d)
            nob = m['nob']
            if isinstance(nob, bool):
                nob = [[nob, nob] for _ in m['shape']]
            nob = [list(p) for p in nob]
            nob[0][0] = not nob[0][0]
            m['nob'] = nob
            add('nodes_on_bdry', m, 'unequal')
    elif k == 'W':
        if d['type'] == 'const':
            add('const', dict(d, value=d['value'] + 0.5), 'unequal')
        if d['type'] in ('array', 'matrix'):
            m = _copy(d)
            m['arr']['id'] = 99
            add('array-copy', m, 'unequal')     # documented: by identity
            m = _copy(d)
            m['arr']['data'][0] += 1.0
            add('array-value', m, 'unequal')
        if d['type'] == 'array':
            lv = {'tensor': 'pspace', 'pspace': 'tensor',
                  'base': 'tensor'}[d['level']]
            add('class', dict(d, level=lv), 'unequal')
        if d['type'] == 'const':
            lv = {'tensor': 'pspace', 'pspace': 'tensor',
                  'base': 'pspace'}[d['level']]
            add('class', dict(d, level=lv), 'unequal')
            add('kind', {'k': 'W', 'level': d['level'], 'type': 'array',
                         'exponent': d['exponent'],
                         'arr': {'id': 7, 'data': [d['value']] * 3}},
                'unequal')
        if d['type'] == 'custom':
            nxt = {'inner': 'norm', 'norm': 'dist', 'dist': 'inner',
                   'inner_c': 'norm'}
            add('custom-kind', dict(d, which=nxt[d['which']]), 'unequal')
            if d['which'] == 'inner' and d['level'] != 'pspace':
                add('function', dict(d, which='inner_b'), 'unequal')
            if d['which'] == 'inner_c':
                # another function object with the same code and name
                add('closure', dict(d, which='inner_d'), 'unequal')
            lv = 'pspace' if d['level'] != 'pspace' else 'tensor'
            add('class', dict(d, level=lv), 'unequal')
        else:
            p = d['exponent']
            add('exponent', dict(d, exponent=1.0 if p != 1.0 else 3.0),
                'unequal')
    elif k == 'Space':
        for name, sd, expect in space_mutations(d['sd']):
            add(name, {'k': 'Space', 'sd': sd}, expect)
    return out


def _array_weightings(sd, path=()):
    """(path, weighting dict, array shape) of every array weighting that
    has an id in a space descriptor, the space's own one first."""
    out = []
    w = sd.get('weighting')
    if sd['kind'] == 'pspace':
        parts = build.space_parts(sd)
        if w is not None and w['type'] == 'array' and \
                w.get('id') is not None:
            out.append((path + ('weighting',), w, (len(parts),)))
        if sd.get('power') is not None:
            if sd['power']:
                out += _array_weightings(sd['base'], path + ('base',))
        else:
            for i, p in enumerate(sd['parts']):
                out += _array_weightings(p, path + ('parts', i))
    elif w is not None and w['type'] == 'array' and w.get('id') is not None:
        out.append((path + ('weighting',), w, tuple(sd['shape'])))
    return out


def alias_mutations(d):
    """Near-twins that differ from ``d`` only in *which ndarray object*
    carries the weights, all objects living on one memory block:
    (name, descriptor, expectation) like `mutations`.

    ``array-view:<kind>`` puts a distinct array object of the same shape
    and dtype on the memory of the original array (`view_kinds`).  Array
    and matrix weightings are documented to compare by the identity of the
    array, hence 'unequal' -- and for all kinds but ``same`` /
    ``transposed`` the values differ as well.  ``array-wrap:tensor`` hands
    over an ODL tensor that wraps the very same array object (documented:
    stored without copying), hence 'equal' wherever the space / weighting
    class unwraps the tensor; 'any' (no expectation) where the tensor
    object itself is kept."""
    out = []
    if d['k'] == 'W' and d['type'] in ('array', 'matrix') and \
            d['arr'].get('id') is not None:
        n = len(d['arr']['data'])
        matrix = d['type'] == 'matrix'
        for kind in view_kinds((n, n) if matrix else (n,), matrix=matrix):
            m = _copy(d)
            m['arr']['view'] = kind
            out.append(('array-view:' + kind, m, 'unequal'))
        if not matrix and n:
            # NumpyTensorSpaceArrayWeighting unwraps the tensor, the other
            # two classes keep the tensor object itself as ``array``
            m = _copy(d)
            m['arr']['wrap'] = 'tensor'
            # (... so that identity is that of the tensor object: no
            # expectation, the laws and hashability only)
            if d['level'] == 'tensor':
                out.append(('array-wrap:tensor', m, 'equal'))
            else:
                out.append(('array-wrap:tensor-asis', m, 'any'))
    elif d['k'] == 'Space':
        found = _array_weightings(d['sd'])
        for path, w, shape in found[:1]:
            def mutated(**kw):
                m = _copy(d)
                node = m['sd']
                for key in path:
                    node = node[key]
                node.update(kw)
                return m
            for kind in view_kinds(shape):
                out.append(('array-view:' + kind, mutated(view=kind),
                            'unequal'))
            if int(np.prod(shape, dtype=int)):
                out.append(('array-wrap:tensor', mutated(wrap='tensor'),
                            'equal'))
    return out


def space_mutations(sd):
    out = []
    kind = sd['kind']

    def add(name, nsd, expect):
        out.append((name, nsd, expect))

    w = sd.get('weighting')
    if kind in ('tensor', 'discr'):
        dt = np.dtype(sd['dtype'])
        m = _copy(sd)
        m['dtype'] = OTHER_DTYPE[dt.name]
        add('dtype', m, 'unequal')
        if dt.kind == 'f':
            m = _copy(sd)
            m['dtype'] = 'complex128' if dt.name == 'float64' else \
                'complex64'
            add('field', m, 'unequal')
        m = _copy(sd)
        m['shape'][-1] += 1
        if w is not None and w['type'] == 'array':
            m['weighting'] = None
        if kind == 'discr' and m['shape'][-1] == 2:
            pass
        add('shape', m, 'unequal')
        if dt.kind in 'fc' and not (w and w['type'] == 'custom'):
            m = _copy(sd)
            m['exponent'] = 1.0 if sd.get('exponent', 2.0) != 1.0 else 3.0
            add('exponent', m, 'unequal')
        if dt.kind in 'fc':
            if w is None and kind == 'tensor':
                add('weighting-const', dict(sd, weighting={
                    'type': 'const', 'value': 2.0}), 'unequal')
                add('explicit-default', dict(sd, explicit=True), 'equal')
            if w is None and kind == 'discr':
                add('weighting-const', dict(sd, weighting={
                    'type': 'const', 'value': 7.5}), 'unequal')
            if w is not None and w['type'] == 'const':
                add('weighting-const', dict(sd, weighting={
                    'type': 'const', 'value': w['value'] + 0.5}), 'unequal')
            if w is not None and w['type'] == 'array':
                m = _copy(sd)
                m['weighting']['id'] = 98
                add('array-copy', m, 'unequal')   # documented: by identity
            if w is not None and w['type'] == 'custom':
                nxt = {'inner': 'norm', 'norm': 'dist', 'dist': 'inner',
                       'inner_c': 'norm'}
                m = _copy(sd)
                m['weighting']['which'] = nxt[w['which']]
                add('custom-kind', m, 'unequal')
                if w['which'] == 'inner':
                    m = _copy(sd)
                    m['weighting']['which'] = 'inner_b'
                    add('function', m, 'unequal')
                if w['which'] == 'inner_c':
                    m = _copy(sd)
                    m['weighting']['which'] = 'inner_d'
                    add('closure', m, 'unequal')
        if dt.kind in 'fc' and not (kind == 'discr' and w is None):
            add('weighting-instance', dict(sd, w_instance=True), 'equal')
        if kind == 'tensor' and dt.kind in 'fc':
            add('constructor', dict(sd, ctor='rn-cn',
                                    int_shape=len(sd['shape']) == 1),
                'equal')
        if kind == 'tensor':
            m = _copy(sd)
            m['shape'] = m['shape'] + [1]
            if w is not None and w['type'] == 'array':
                m['weighting'] = None
            add('dimension', m, 'unequal')
            if dt.kind in 'fc' and (w is None or w['type'] == 'const') \
                    and sd.get('exponent', 2.0) != INF:
                # same shape / dtype, other class
                m = {'kind': 'discr', 'min': [0.0] * len(sd['shape']),
                     'max': [1.0] * len(sd['shape']), 'shape': sd['shape'],
                     'nodes_on_bdry': False, 'dtype': sd['dtype'],
                     'exponent': sd.get('exponent', 2.0),
                     'weighting': w or {'type': 'const', 'value': 1.0}}
                add('class', m, 'unequal')
        else:
            z = _flip_zero(sd['min'])
            if z is not None:
                add('signed-zero', dict(sd, min=z), 'equal')
            m = _copy(sd)
            m['max'][-1] += 0.5
            add('limit', m, 'unequal')
            if sd['shape'][0] > 1:
                m = _copy(sd)
                nob = m['nodes_on_bdry']
                if isinstance(nob, bool):
                    nob = [[nob, nob] for _ in m['shape']]
                nob = [list(p) for p in nob]
                nob[0][0] = not nob[0][0]
                m['nodes_on_bdry'] = nob
                add('nodes_on_bdry', m, 'unequal')
    elif kind == 'pspace':
        parts = build.space_parts(sd)
        n = len(parts)
        if sd.get('power') is not None:
            m = _copy(sd)
            m['parts'] = [_copy(sd['base']) for _ in range(n)]
            m['power'] = None
            m.pop('base')
            if n == 0:
                fam = build.leaf_descs(sd['base'])
                m['field'] = 'complex' if fam and np.dtype(
                    fam[0]['dtype']).kind == 'c' else 'real'
            add('power-vs-explicit', m, 'equal')
            m = _copy(sd)
            m['power'] = n + 1
            if w is not None and w['type'] == 'array':
                m['weighting'] = None
            add('length', m, 'unequal')
        elif n >= 1:
            m = _copy(sd)
            m['parts'] = m['parts'] + [_copy(m['parts'][-1])]
            if w is not None and w['type'] == 'array':
                m['weighting'] = None
            add('length', m, 'unequal')
        if w is None:
            add('weighting-const', dict(sd, weighting={
                'type': 'const', 'value': 2.0}), 'unequal')
        elif w['type'] == 'const':
            add('weighting-const', dict(sd, weighting={
                'type': 'const', 'value': w['value'] + 0.5}), 'unequal')
        elif w['type'] == 'array':
            m = _copy(sd)
            m['weighting']['id'] = 97
            add('array-copy', m, 'unequal')       # documented: by identity
        if not (w and w['type'] == 'custom'):
            m = _copy(sd)
            m['exponent'] = 1.0 if sd.get('exponent', 2.0) != 1.0 else 3.0
            add('exponent', m, 'unequal')
        add('weighting-instance', dict(sd, w_instance=True), 'equal')
        if n >= 1:
            # mutate the last component
            if sd.get('power') is not None and n > 1:
                pass
            else:
                sub = space_mutations(parts[-1])
                for name, nsd, expect in sub[:2]:
                    m = _copy(sd)
                    if sd.get('power') is not None:
                        m['base'] = nsd
                    else:
                        m['parts'][-1] = nsd
                    add('component-' + name, m, expect)
    return out


# --------------------------------------------------------------------------
# independent membership model of the basic sets

PROBES = [None, 1, -2, 1.5, 1j, 'abc', 'ab', 'a', (1, 2), (1.5, 2), True,
          [0.5], [0.5, 0.5], [0.5, 0.5, 0.5], 0.5, 'zz', (1, 2, 3), 2.5,
          [], 0, (0.5, 'ab')]


def ref_contains(d, m):
    """True / False / None (not modelled) for ``m in <set d>``."""
    k = d['k']
    if k == 'R':
        return isinstance(m, numbers.Real)
    if k == 'C':
        return isinstance(m, numbers.Complex)
    if k == 'Z':
        return isinstance(m, numbers.Integral)
    if k == 'Empty':
        return m is None          # documented: "None is the only element"
    if k == 'Univ':
        return True
    if k == 'Strings':
        return isinstance(m, str) and len(m) == d['n']
    if k == 'Cart':
        if not isinstance(m, (tuple, list)):
            return False if not hasattr(m, '__len__') else None
        if len(m) != len(d['sets']):
            return False
        rs = [ref_contains(s, e) for s, e in zip(d['sets'], m)]
        if any(r is False for r in rs):
            return False
        return None if any(r is None for r in rs) else True
    if k in ('Union', 'Inter'):
        rs = [ref_contains(s, m) for s in d['sets']]
        if k == 'Union':
            if any(r is True for r in rs):
                return True
            return None if any(r is None for r in rs) else False
        if any(r is False for r in rs):
            return False
        return None if any(r is None for r in rs) else True
    if k == 'Finite':
        if isinstance(m, list):
            return None
        els = [_elem(e) for e in d['elems']]
        return any(m == e and not (isinstance(m, np.ndarray))
                   for e in els)
    if k == 'Intv':
        nd = len(d['min'])
        if isinstance(m, bool) or m is None or isinstance(m, (str, complex)):
            return False if not isinstance(m, bool) else None
        if isinstance(m, numbers.Real):
            pt = [float(m)]
        elif isinstance(m, (list, tuple)):
            if not all(isinstance(v, numbers.Real) and
                       not isinstance(v, bool) for v in m):
                return False if any(isinstance(v, str) for v in m) else None
            pt = [float(v) for v in m]
        else:
            return None
        if len(pt) != nd:
            return False
        return all(lo <= v <= hi for v, lo, hi in zip(pt, d['min'],
                                                       d['max']))
    return None


# --------------------------------------------------------------------------
# near-value chains: every numeric attribute that takes part in equality

def _up(v, n=1):
    """n-th floating point neighbour of v (away from zero for v != 0)."""
    v = float(v)
    for _ in range(n):
        v = float(np.nextafter(v, np.inf if v >= 0 else -np.inf))
    return v


def near_value_chains(d, k=17):
    """Chains of descriptors that differ from ``d`` (and from each other)
    only by a tiny change of one numeric attribute: list of
    (attribute, [desc_1, desc_2, ...]); desc_1 is a near-twin of ``d``,
    desc_(i+1) of desc_i.  ``==`` is exact for all these classes (only
    ``approx_equals`` is documented as approximate), so every link is
    expected to be UNEQUAL."""
    out = []
    delta = 2.0 ** -int(k)
    kind = d['k']

    def chain(attr, make, values):
        out.append((attr, [make(v) for v in values]))

    if kind == 'W':
        if d['type'] == 'const':
            v = d['value']
            chain('weighting-const', lambda c: dict(d, value=c),
                  [v * (1 + delta), v * (1 + 2 * delta)])
            chain('weighting-const-tiny', lambda c: dict(d, value=c),
                  [1e-9, 3e-9, 9e-9])
        if d['type'] in ('array', 'matrix'):
            def mk(f):
                m = _copy(d)
                m['arr']['data'][0] *= f
                m['arr']['id'] = 90 + int(f > 1 + 1.5 * delta)
                return m
            chain('array-entry', mk, [1 + delta, 1 + 2 * delta])
        if d['type'] != 'custom' and d['exponent'] != INF:
            p = d['exponent']
            chain('exponent', lambda q: dict(d, exponent=q),
                  [p + 1e-9, p + 2e-9])
            chain('exponent-ulp', lambda q: dict(d, exponent=q),
                  [_up(p), _up(p, 2)])
    elif kind == 'Intv' and d['min']:
        def mk_max(v):
            m = _copy(d)
            m['max'][-1] = v
            return m

        def mk_min(v):
            m = _copy(d)
            m['min'][0] = v
            return m
        hi, lo = d['max'][-1], d['min'][0]
        chain('interval-ulp', mk_max, [_up(hi) if hi != 0 else 5e-324,
                                       _up(hi, 2) if hi != 0 else 1e-323])
        chain('interval-rel', mk_max, [hi + max(abs(hi), 1.0) * 1e-9,
                                       hi + max(abs(hi), 1.0) * 2e-9])
        chain('interval-min', mk_min, [lo - max(abs(lo), 1.0) * 1e-9,
                                       lo - max(abs(lo), 1.0) * 2e-9])
    elif kind == 'Grid' and d['coords']:
        def mk(v):
            m = _copy(d)
            m['coords'][-1][-1] = v
            return m
        c = d['coords'][-1][-1]
        chain('grid-ulp', mk, [_up(c) if c > 0 else c + 1e-15 * (abs(c) + 1),
                               _up(c, 2) if c > 0 else
                               c + 2e-15 * (abs(c) + 1)])
        chain('grid-rel', mk, [c + max(abs(c), 1.0) * 1e-9,
                               c + max(abs(c), 1.0) * 2e-9])
    elif kind in ('Part', 'UPart') and d['max']:
        def mk(v):
            m = _copy(d)
            m['max'][-1] = v
            return m
        hi = d['max'][-1]
        attr = 'partition-limit' if kind == 'Part' else 'cell-sides'
        chain(attr, mk, [hi + max(abs(hi), 1.0) * 1e-9,
                         hi + max(abs(hi), 1.0) * 2e-9])
        chain(attr + '-ulp', mk, [hi + max(abs(hi), 1.0) * 2.0 ** -50,
                                  hi + max(abs(hi), 1.0) * 2.0 ** -49])
        if kind == 'Part' and len(d['coords'][0]) >= 2:
            def mkc(f):
                m = _copy(d)
                c = m['coords'][0]
                c[-1] = c[-1] - (c[-1] - c[-2]) * f
                return m
            chain('partition-coordinate', mkc, [1e-9, 2e-9])
    elif kind == 'Space':
        for attr, sds in _space_near_values(d['sd'], delta):
            out.append((attr, [{'k': 'Space', 'sd': sd} for sd in sds]))
    return out


def _space_near_values(sd, delta):
    out = []
    w = sd.get('weighting')
    numeric = sd['kind'] == 'pspace' or \
        np.dtype(sd['dtype']).kind in 'fc'
    if not numeric:
        return out
    if w is None or w['type'] == 'const':
        v = 1.0 if w is None else w['value']
        if not (w is None and sd['kind'] in ('discr', 'discr_coords')):
            out.append(('weighting-const', [
                dict(sd, weighting={'type': 'const', 'value': v * f})
                for f in (1 + delta, 1 + 2 * delta)]))
        out.append(('weighting-const-tiny', [
            dict(sd, weighting={'type': 'const', 'value': c})
            for c in (1e-9, 3e-9, 9e-9)]))
    elif w['type'] == 'array':
        def mk(f):
            m = _copy(sd)
            data = m['weighting']['data']
            while isinstance(data[0], list):
                data = data[0]
            data[0] *= f
            m['weighting']['id'] = 92 + int(f > 1 + 1.5 * delta)
            return m
        if w['data'] and build.space_size(sd) if sd['kind'] != 'pspace' \
                else w['data']:
            out.append(('array-entry', [mk(1 + delta), mk(1 + 2 * delta)]))
    if not (w and w['type'] == 'custom') and \
            sd.get('exponent', 2.0) != INF:
        p = sd.get('exponent', 2.0)
        out.append(('exponent', [dict(sd, exponent=q)
                                 for q in (p + 1e-9, p + 2e-9)]))
    if sd['kind'] == 'discr':
        def mkl(v):
            m = _copy(sd)
            m['max'][-1] = v
            return m
        hi = sd['max'][-1]
        out.append(('cell-sides', [mkl(hi + max(abs(hi), 1.0) * e)
                                   for e in (1e-9, 2e-9)]))
        out.append(('cell-sides-ulp', [mkl(hi + max(abs(hi), 1.0) * e)
                                       for e in (2.0 ** -50, 2.0 ** -49)]))
    if sd['kind'] == 'pspace':
        parts = build.space_parts(sd)
        if parts and not (sd.get('power') is not None and len(parts) > 1):
            for attr, subs in _space_near_values(parts[-1], delta)[:3]:
                chain = []
                for sub in subs:
                    m = _copy(sd)
                    if sd.get('power') is not None:
                        m['base'] = sub
                    else:
                        m['parts'][-1] = sub
                    chain.append(m)
                out.append(('component-' + attr, chain))
    return out
