"""Descriptor -> live ODL objects (the only place that knows how).

Space descriptors (recursive, plain JSON)::

    {"kind": "tensor", "shape": [4, 25], "dtype": "float64",
     "weighting": null | {"type": "const", "value": 2.0}
                       | {"type": "array", "data": [...]} , "exponent": 2.0}
    {"kind": "discr", "min": [..], "max": [..], "shape": [..],
     "nodes_on_bdry": false | true | [[l, r], ...], "dtype": ..,
     "exponent": 2.0, "weighting": null | {"type": "const", ...}}
    {"kind": "discr_nonuniform", "coords": [[...], ...], "min": [..] | null,
     "max": [..] | null, "dtype": ..}
    {"kind": "pspace", "parts": [<space>, ...] | "base": <space>, "power": n,
     "weighting": null | const | array (per component), "exponent": 2.0}

Array descriptors::

    {"dtype": "float64", "shape": [2, 3], "order": "C|F|strided|rev",
     "data": [[...], [...]]}                      # explicit
    {"dtype": .., "shape": .., "order": .., "gen": {"seed": 5, "scale": 1.0,
                                                   "kind": "normal|int|pos"}}

Elements of product spaces are described by a list of element descriptors,
one per component (recursively).
"""
import numpy as np

from .core import HarnessError, import_odl

odl = import_odl()


def _tup(x):
    if isinstance(x, (list, tuple)):
        return tuple(_tup(v) for v in x)
    return x


def build_weighting_arg(w, shape=None, dtype=None):
    if w is None:
        return None
    if w['type'] == 'const':
        return float(w['value'])
    if w['type'] == 'array':
        arr = np.asarray(w['data'], dtype=float)
        if shape is not None:
            arr = arr.reshape(shape)
        return arr
    raise HarnessError('unknown weighting descriptor {!r}'.format(w))


def build_space(sd):
    kind = sd['kind']
    if kind == 'tensor':
        shape = tuple(sd['shape'])
        kwargs = {}
        w = build_weighting_arg(sd.get('weighting'), shape)
        if w is not None:
            kwargs['weighting'] = w
        if sd.get('exponent', 2.0) != 2.0:
            kwargs['exponent'] = float(sd['exponent'])
        return odl.tensor_space(shape, dtype=sd.get('dtype', 'float64'),
                                **kwargs)
    if kind == 'discr':
        kwargs = {}
        nob = sd.get('nodes_on_bdry', False)
        if nob is not False:
            kwargs['nodes_on_bdry'] = (
                nob if isinstance(nob, bool) else
                [tuple(p) if isinstance(p, (list, tuple)) else p
                 for p in nob])
        if sd.get('exponent', 2.0) != 2.0:
            kwargs['exponent'] = float(sd['exponent'])
        w = build_weighting_arg(sd.get('weighting'), tuple(sd['shape']))
        if w is not None:
            kwargs['weighting'] = w
        return odl.uniform_discr(sd['min'], sd['max'], tuple(sd['shape']),
                                 dtype=sd.get('dtype', 'float64'), **kwargs)
    if kind == 'discr_nonuniform':
        kwargs = {}
        if sd.get('min') is not None:
            kwargs['min_pt'] = sd['min']
        if sd.get('max') is not None:
            kwargs['max_pt'] = sd['max']
        if sd.get('nodes_on_bdry', False) is not False:
            kwargs['nodes_on_bdry'] = sd['nodes_on_bdry']
        part = odl.nonuniform_partition(
            *[np.asarray(c, dtype=float) for c in sd['coords']], **kwargs)
        skw = {}
        if sd.get('exponent', 2.0) != 2.0:
            skw['exponent'] = float(sd['exponent'])
        return odl.uniform_discr_frompartition(
            part, dtype=sd.get('dtype', 'float64'), **skw) \
            if part.is_uniform else odl.DiscretizedSpace(
                part, odl.tensor_space(part.shape,
                                       dtype=sd.get('dtype', 'float64'),
                                       **skw))
    if kind == 'pspace':
        kwargs = {}
        w = sd.get('weighting')
        if w is not None:
            if w['type'] == 'const':
                kwargs['weighting'] = float(w['value'])
            else:
                kwargs['weighting'] = [float(v) for v in w['data']]
        if sd.get('exponent', 2.0) != 2.0:
            kwargs['exponent'] = float(sd['exponent'])
        if sd.get('power') is not None:
            base = build_space(sd['base'])
            return odl.ProductSpace(base, int(sd['power']), **kwargs)
        parts = [build_space(p) for p in sd['parts']]
        return odl.ProductSpace(*parts, **kwargs)
    raise HarnessError('unknown space descriptor kind {!r}'.format(kind))


def space_parts(sd):
    """Component descriptors of a pspace descriptor."""
    if sd.get('power') is not None:
        return [sd['base']] * int(sd['power'])
    return list(sd['parts'])


def leaf_descs(sd):
    """All leaf (non-product) space descriptors, depth first."""
    if sd['kind'] == 'pspace':
        out = []
        for p in space_parts(sd):
            out.extend(leaf_descs(p))
        return out
    return [sd]


def space_shape(sd):
    return tuple(sd['shape']) if 'shape' in sd else tuple(
        len(c) for c in sd['coords'])


def space_size(sd):
    return int(np.prod(space_shape(sd), dtype=int))


# --------------------------------------------------------------------------
# arrays

def _gen_data(gen, shape, dtype):
    rng = np.random.RandomState(int(gen['seed']) % (2 ** 32))
    kind = gen.get('kind', 'normal')
    scale = float(gen.get('scale', 1.0))
    dt = np.dtype(dtype)
    if dt.kind in 'iu' or kind == 'int':
        lo = 0 if dt.kind == 'u' else -20
        return rng.randint(lo, 21, size=shape).astype(dt)
    if kind == 'pos':
        a = rng.uniform(0.1, 2.0, size=shape) * scale
    elif kind == 'uniform':
        a = rng.uniform(-1.0, 1.0, size=shape) * scale
    else:
        a = rng.standard_normal(size=shape) * scale
    if dt.kind == 'c':
        a = a + 1j * rng.standard_normal(size=shape) * scale
    return a.astype(dt)


def array_values(ad, dtype=None, shape=None):
    """Contiguous C array holding the described values."""
    dtype = np.dtype(dtype if dtype is not None else ad['dtype'])
    shape = tuple(shape if shape is not None else ad['shape'])
    if 'gen' in ad:
        return _gen_data(ad['gen'], shape, dtype)
    data = ad['data']
    if dtype.kind == 'c':
        arr = np.array(data, dtype=complex).astype(dtype)
    elif dtype.kind in 'iu':
        arr = np.array(data).astype(dtype)
    else:
        arr = np.array(data, dtype=float).astype(dtype)
    return np.ascontiguousarray(arr.reshape(shape))


def build_array(ad, dtype=None, shape=None):
    """Array with the described values *and memory layout*."""
    vals = array_values(ad, dtype, shape)
    order = ad.get('order', 'C')
    shape = vals.shape
    if order == 'C' or vals.ndim == 0:
        return np.ascontiguousarray(vals)
    if order == 'F':
        return np.asfortranarray(vals)
    if order == 'strided':
        big = np.zeros(tuple(2 * s for s in shape), dtype=vals.dtype)
        view = big[tuple(slice(None, None, 2) for _ in shape)]
        view[...] = vals
        return view
    if order == 'rev':
        base = np.ascontiguousarray(
            vals[tuple(slice(None, None, -1) for _ in shape)])
        return base[tuple(slice(None, None, -1) for _ in shape)]
    raise HarnessError('unknown order {!r}'.format(order))


def build_element(space, sd, ed):
    """Element of ``space`` (built from ``sd``) described by ``ed``.

    Leaves wrap the laid-out array without copying where ODL allows it.
    """
    if sd['kind'] == 'pspace':
        parts = space_parts(sd)
        if len(ed) != len(parts):
            raise HarnessError('element descriptor / pspace length mismatch')
        return space.element([build_element(space[i], parts[i], ed[i])
                              for i in range(len(parts))])
    arr = build_array(ed, dtype=space.dtype, shape=space.shape)
    return space.element(arr)


def element_values(sd, ed):
    """Nested list of C arrays with the described values (no ODL)."""
    if sd['kind'] == 'pspace':
        parts = space_parts(sd)
        return [element_values(parts[i], ed[i]) for i in range(len(parts))]
    return array_values(ed, dtype=sd.get('dtype', 'float64'),
                        shape=space_shape(sd))


def leaf_arrays_of(x):
    """Leaf arrays (views where possible) of an ODL element."""
    from odl.space.pspace import ProductSpaceElement
    if isinstance(x, ProductSpaceElement):
        out = []
        for p in x:
            out.extend(leaf_arrays_of(p))
        return out
    return [x.asarray()]


def flatten_values(vals):
    """Flatten nested lists of arrays to a list of arrays."""
    if isinstance(vals, list):
        out = []
        for v in vals:
            out.extend(flatten_values(v))
        return out
    return [vals]
