"""Extended descriptor -> ODL space builder (used by C02 and C20).

Superset of ``vlib.build.build_space``.  Additional leaf kinds / options::

    tensor / pspace  "weighting": {"type": "custom", "which": "inner|norm|dist"}
        a fixed, named custom function (see CUSTOM below)
    tensor           array weightings are cast to the real dtype of the space
                     unless the descriptor says "as64": true (float64 weights
                     as given)
    {"kind": "discr_coords", "coords": [[..], ..], "min": [..], "max": [..],
     "shape": [..], "uniform": bool, "dtype": .., "exponent": ..,
     "weighting": null | const | array}
        RectPartition(IntervalProd(min, max), RectGrid(*coords)); uniform
        partitions go through ``uniform_discr_frompartition`` (default
        weighting = cell volume), non-uniform ones through
        ``DiscretizedSpace(partition, tensor_space(...))``.

The custom functions are module-level (stable identity, so that two spaces
built from the same descriptor compare equal) and have closed forms that the
reference model (``vlib.ref.norms``) knows by name:

    inner(x, y) = 3 * <x, y>_plain        (valid inner product)
    norm(x)     = 2 * ||x||_1             (valid norm)
    dist(x, y)  = 0.5 * ||x - y||_inf     (valid metric)

For product spaces the plain quantities are the sums / maxima over the
components' own inner / norm / dist.
"""
import numpy as np

from . import build
from .core import HarnessError, import_odl

odl = import_odl()


# --------------------------------------------------------------------------
# custom inner / norm / dist (tensor level)

def t_inner(x, y):
    a = np.asarray(x).ravel()
    b = np.asarray(y).ravel()
    val = 3.0 * np.vdot(b, a)
    return complex(val) if np.iscomplexobj(val) else float(val)


def t_norm(x):
    return 2.0 * float(np.sum(np.abs(np.asarray(x))))


def t_dist(x, y):
    d = np.abs(np.asarray(x) - np.asarray(y))
    return 0.5 * float(np.max(d)) if d.size else 0.0


def t_inner_b(x, y):
    """A second, different custom inner product (near-twin material)."""
    return 5.0 * t_inner(x, y) / 3.0


def _scaled_inner(c):
    """Custom inner products that share code object, name and qualified
    name and differ only in the captured constant (near-twin material: two
    distinct function objects that look alike)."""
    def inner(x, y):
        return c * t_inner(x, y) / 3.0
    return inner


t_inner_c = _scaled_inner(7.0)
t_inner_d = _scaled_inner(11.0)


# product-space level
def p_inner(x, y):
    return 3.0 * sum(xi.inner(yi) for xi, yi in zip(x, y))


def p_norm(x):
    return 2.0 * float(sum(xi.norm() for xi in x))


def p_dist(x, y):
    return 0.5 * float(max([xi.dist(yi) for xi, yi in zip(x, y)] or [0.0]))


CUSTOM = {
    ('tensor', 'inner'): t_inner, ('tensor', 'norm'): t_norm,
    ('tensor', 'dist'): t_dist, ('tensor', 'inner_b'): t_inner_b,
    ('tensor', 'inner_c'): t_inner_c, ('tensor', 'inner_d'): t_inner_d,
    ('pspace', 'inner'): p_inner, ('pspace', 'norm'): p_norm,
    ('pspace', 'dist'): p_dist,
}


def custom_func(level, which):
    return CUSTOM[(level, which)]


def _real_dtype(dtype):
    dt = np.dtype(dtype)
    if dt.kind == 'c':
        return np.empty(0, dtype=dt).real.dtype
    if dt.kind == 'f':
        return dt
    return np.dtype('float64')


def tensor_kwargs(sd, shape):
    """Keyword arguments (weighting/exponent/custom) of a tensor space."""
    kwargs = {}
    w = sd.get('weighting')
    if w is not None:
        if w['type'] == 'const':
            kwargs['weighting'] = float(w['value'])
        elif w['type'] == 'array':
            from .ref.norms import weight_data
            arr = weight_data(w, shape)
            if not w.get('as64'):
                arr = arr.astype(_real_dtype(sd.get('dtype', 'float64')))
            kwargs['weighting'] = arr
        elif w['type'] == 'custom':
            which = w['which']
            key = 'inner' if which == 'inner_b' else which
            kwargs[key] = custom_func('tensor', which)
        else:
            raise HarnessError('unknown weighting {!r}'.format(w))
    if sd.get('exponent', 2.0) != 2.0:
        kwargs['exponent'] = float(sd['exponent'])
    return kwargs


def build_partition(sd):
    """RectPartition of a ``discr_coords`` descriptor."""
    coords = [np.asarray(c, dtype=float) for c in sd['coords']]
    return odl.RectPartition(
        odl.IntervalProd(sd['min'], sd['max']), odl.RectGrid(*coords))


def build_space(sd):
    kind = sd['kind']
    if kind == 'tensor':
        shape = tuple(sd['shape'])
        return odl.tensor_space(shape, dtype=sd.get('dtype', 'float64'),
                                **tensor_kwargs(sd, shape))
    if kind == 'discr':
        shape = tuple(sd['shape'])
        kwargs = tensor_kwargs(sd, shape)
        nob = sd.get('nodes_on_bdry', False)
        if nob is not False:
            kwargs['nodes_on_bdry'] = (
                nob if isinstance(nob, bool) else
                [tuple(p) if isinstance(p, (list, tuple)) else p
                 for p in nob])
        return odl.uniform_discr(sd['min'], sd['max'], shape,
                                 dtype=sd.get('dtype', 'float64'), **kwargs)
    if kind == 'discr_coords':
        part = build_partition(sd)
        shape = tuple(sd['shape'])
        kwargs = tensor_kwargs(sd, shape)
        if part.is_uniform:
            return odl.uniform_discr_frompartition(
                part, dtype=sd.get('dtype', 'float64'), **kwargs)
        return odl.DiscretizedSpace(
            part, odl.tensor_space(shape, dtype=sd.get('dtype', 'float64'),
                                   **kwargs))
    if kind == 'pspace':
        kwargs = {}
        w = sd.get('weighting')
        if w is not None:
            if w['type'] == 'const':
                kwargs['weighting'] = float(w['value'])
            elif w['type'] == 'array':
                kwargs['weighting'] = [float(v) for v in w['data']]
            elif w['type'] == 'custom':
                kwargs[w['which']] = custom_func('pspace', w['which'])
            else:
                raise HarnessError('unknown weighting {!r}'.format(w))
        if sd.get('exponent', 2.0) != 2.0:
            kwargs['exponent'] = float(sd['exponent'])
        if sd.get('power') is not None:
            base = build_space(sd['base'])
            return odl.ProductSpace(base, int(sd['power']), **kwargs)
        parts = [build_space(p) for p in sd['parts']]
        if not parts:
            kwargs['field'] = (odl.ComplexNumbers()
                               if sd.get('field') == 'complex'
                               else odl.RealNumbers())
        return odl.ProductSpace(*parts, **kwargs)
    return build.build_space(sd)
