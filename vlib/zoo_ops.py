"""Operator catalogue ("zoo") shared by C03 (call protocol) and C10 (aliasing).

Every catalogue entry is ONE function ``f(o) -> thunk``.  ``o`` is an option
source (`Src`): in *draw* mode ``o.pick(key, strategy)`` draws a plain-data
option from Hypothesis and records it in ``o.opts``; in *replay* mode it reads
the recorded value back.  The function only handles plain data while picking
and returns a thunk that builds the live ODL operator, so the same code is the
Hypothesis strategy of the entry's options *and* the descriptor -> operator
builder (the thunk is never called while drawing).

Descriptor of an operator::

    {"entry": "PartialDerivative", "opts": {...plain data...}}

Descriptor of a domain point (`point`)::

    {"dom": "any|pos|unit|gt1|nz|int|nat|tiny|prob", "vals": [<=24 numbers],
     "seed": int, "order": "C|F|strided"}

The first ``len(vals)`` real coordinates of the point are the explicit values
(Hypothesis can shrink them), the rest comes from ``RandomState(seed)``
restricted to the same documented domain.
"""
import ast
import collections
import importlib
import inspect
import os
import pkgutil
import re

import numpy as np
from hypothesis import strategies as st
from hypothesis.strategies import SearchStrategy

from . import build, flat, strategies as vs
from .core import HarnessError, import_odl, odl_root

odl = import_odl()
from odl.operator import Operator  # noqa: E402
from odl.set.sets import Field  # noqa: E402
from odl.space.pspace import ProductSpace  # noqa: E402

S = odl.solvers
PO = odl.solvers.nonsmooth.proximal_operators


# --------------------------------------------------------------------------
# option source

class Src(object):
    """Record/replay source of plain-data options."""

    def __init__(self, draw=None, opts=None):
        self.draw = draw
        self.opts = {} if opts is None else opts
        self.dom = 'any'        # documented domain of the operator's input
        self.xscale = None      # optional (lo, hi) override for 'any'
        self.notes = []

    def pick(self, key, strat):
        if self.draw is None:
            try:
                return self.opts[key]
            except KeyError:
                raise HarnessError('descriptor lacks option {!r}'.format(key))
        if not isinstance(strat, SearchStrategy):
            strat = st.sampled_from(list(strat))
        val = self.draw(strat)
        self.opts[key] = val
        return val

    def child(self, key):
        """Source for a nested option dict (operands of expressions)."""
        if self.draw is None:
            try:
                sub = self.opts[key]
            except KeyError:
                raise HarnessError('descriptor lacks option {!r}'.format(key))
        else:
            sub = self.opts[key] = {}
        c = Src(self.draw, sub)
        return c

    # frequently used picks
    def seed(self, key='seed'):
        return self.pick(key, st.integers(0, 9999))

    def flag(self, key):
        return self.pick(key, st.booleans())

    def scalar(self, key, cplx=False, positive=False, nonzero=False):
        if positive:
            s = st.sampled_from([1.0, 0.5, 2.0, 0.3, 3.5, 0.05]) | \
                st.floats(0.05, 8.0).map(vs._round)
        else:
            pal = [1.0, -1.0, 2.0, -0.5, 3.0, 0.25, -2.5]
            if not nonzero:
                pal = pal + [0.0]
            s = st.sampled_from(pal) | st.floats(0.05, 8.0).map(vs._round) | \
                st.floats(-8.0, -0.05).map(vs._round)
        v = self.pick(key, s)
        if cplx:
            im = self.pick(key + '_im', st.sampled_from([0.0, 1.0, -2.0, 0.5]))
            if im != 0.0:
                return complex(v, im)
        return v


class Entry(object):
    def __init__(self, name, func, family, classes, exact=False, ktol=16,
                 c10=False, c03=True, weight=1, slow=False):
        self.name = name
        self.func = func
        self.family = family
        self.classes = tuple(classes)
        self.exact = exact       # in-place == out-of-place exactly (copy ops)
        self.ktol = ktol
        self.c10 = c10           # documented alias-safe building block
        self.c03 = c03
        self.weight = weight
        self.slow = slow


ENTRIES = collections.OrderedDict()


def entry(name, family, classes=(), **kw):
    def deco(func):
        if name in ENTRIES:
            raise HarnessError('duplicate zoo entry ' + name)
        ENTRIES[name] = Entry(name, func, family, classes or (name,), **kw)
        return func
    return deco


# --------------------------------------------------------------------------
# plain-data helpers (spaces)

def _is_cplx(sd):
    return np.dtype(build.leaf_descs(sd)[0].get('dtype', 'float64')).kind == 'c'


def _shape_st(ndims=(1, 2), max_side=5, max_size=24, min_side=1, medium=True):
    base = vs.small_shapes(min_ndim=min(ndims), max_ndim=max(ndims),
                           min_side=min_side, max_side=max_side,
                           max_size=max_size)
    if not medium:
        return base
    # the >= 100 regime of _lincomb_impl is entered on purpose now and then
    med = st.sampled_from([[100], [128], [10, 12], [101]])
    if max(ndims) < 2:
        med = st.sampled_from([[100], [128], [101]])
    if min(ndims) > 1:
        med = st.sampled_from([[10, 12], [12, 10]])
    return st.one_of(base, base, base, base, base, base, base, med)


def space(o, key, kinds=('rn', 'cn', 'discr', 'cdiscr'), ndims=(1, 2),
          max_side=5, max_size=24, min_side=1, weighted=True, medium=True,
          f32=True, nob=True):
    """Pick a (leaf) space descriptor."""
    kind = o.pick(key + '.kind', kinds)
    wk = ('none', 'none', 'const', 'array') if weighted else ('none',)
    shapes = _shape_st(ndims, max_side, max_size, min_side, medium)
    if kind in ('rn', 'cn', 'int'):
        dts = {'rn': ['float64', 'float64', 'float32'] if f32 else
               ['float64'],
               'cn': ['complex128', 'complex128', 'complex64'] if f32 else
               ['complex128'],
               'int': ['int64', 'int32']}[kind]
        return o.pick(key, vs.tensor_space_descs(
            shapes=shapes, dtypes=dts, weighting_kinds=wk))
    dts = {'discr': ['float64', 'float64', 'float32'] if f32 else ['float64'],
           'cdiscr': ['complex128']}[kind]
    return o.pick(key, vs.discr_space_descs(
        shapes=shapes, dtypes=dts, nodes_on_bdry=nob,
        weighting_kinds=('none', 'none', 'const') if weighted else
        ('none',)))


def pspace_of(o, key, base_sd, max_len=3, min_len=1, weighted=True):
    n = o.pick(key + '.n', st.integers(min_len, max_len))
    wk = o.pick(key + '.w', ('none', 'none', 'const', 'array')
                if weighted else ('none',))
    w = None
    if wk == 'const':
        w = {'type': 'const', 'value': o.scalar(key + '.wc', positive=True)}
    elif wk == 'array':
        w = {'type': 'array',
             'data': [o.scalar(key + '.wa%d' % i, positive=True)
                      for i in range(n)]}
    return {'kind': 'pspace', 'base': base_sd, 'power': n, 'weighting': w,
            'exponent': 2.0}


def anyspace(o, key, pspace=True, **kw):
    """Leaf space, or (sometimes) a power / product space of leaves."""
    how = o.pick(key + '.how', ('leaf', 'leaf', 'leaf', 'power', 'product')
                 if pspace else ('leaf',))
    if how == 'leaf':
        return space(o, key, **kw)
    kw = dict(kw)
    kw['medium'] = False
    if how == 'power':
        return pspace_of(o, key + '.p', space(o, key, **kw))
    a = space(o, key + '.a', **kw)
    kinds = kw.get('kinds', ('rn', 'cn', 'discr', 'cdiscr'))
    same = ('cn', 'cdiscr') if _is_cplx(a) else ('rn', 'discr')
    kw['kinds'] = [k for k in kinds if k in same] or [kinds[0]]
    b = space(o, key + '.b', **kw)
    return {'kind': 'pspace', 'parts': [a, b], 'power': None,
            'weighting': None, 'exponent': 2.0}


B = build.build_space


# --------------------------------------------------------------------------
# runtime helpers (data from seeds)

DOMS = {
    'any': (-30.0, 30.0), 'pos': (0.05, 5.0), 'unit': (-0.95, 0.95),
    'gt1': (1.05, 4.0), 'nz': (0.2, 3.0), 'int': (-6, 6), 'nat': (0, 5),
    'tiny': (-0.12, 0.12), 'prob': (0.05, 0.95), 'mod': (-3.0, 3.0),
}


def dom_values(dom):
    """Hypothesis strategy of single real coordinates inside ``dom``."""
    lo, hi = DOMS[dom]
    if dom in ('int', 'nat'):
        return st.integers(lo, hi)
    gen = st.floats(lo, hi, allow_nan=False).map(vs._round).map(
        lambda v: min(max(v, lo), hi))
    if dom in ('any', 'mod'):
        return st.one_of(st.sampled_from(
            [0.0, 1.0, -1.0, 2.0, -3.0, 0.5, -0.25, 1.5, -0.0, 2.5]), gen)
    if dom == 'nz':
        return st.one_of(gen, gen.map(lambda v: -v))
    return gen


def _seeded(dom, seed, n):
    lo, hi = DOMS[dom]
    rng = np.random.RandomState(int(seed) % (2 ** 32))
    if dom in ('int', 'nat'):
        return rng.randint(lo, hi + 1, size=n).astype(float)
    v = rng.uniform(lo, hi, size=n)
    if dom == 'nz':
        v *= rng.choice([-1.0, 1.0], size=n)
    return v


def flatvals(n, xd):
    vals = [float(v) for v in xd.get('vals', [])][:n]
    v = _seeded(xd.get('dom', 'any'), xd.get('seed', 0), n)
    v[:len(vals)] = vals
    return v


def relayout(elem, order):
    """Element with the same values whose leaves have the given layout."""
    if order in (None, 'C'):
        return elem
    sp = elem.space
    if isinstance(sp, ProductSpace):
        return sp.element([relayout(p, order) for p in elem])
    arr = elem.asarray()
    if order == 'F':
        new = np.asfortranarray(arr)
        if arr.ndim < 2:
            new = arr.copy()
    elif order == 'strided':
        big = np.zeros(tuple(2 * s for s in arr.shape), dtype=arr.dtype)
        new = big[tuple(slice(None, None, 2) for _ in arr.shape)]
        new[...] = arr
    else:
        raise HarnessError('unknown order {!r}'.format(order))
    return sp.element(new)


def point(spc, xd):
    """Domain point described by ``xd`` (see module docstring)."""
    n = flat.rdim(spc)
    x = flat.unflat(flatvals(n, xd), spc)
    if isinstance(spc, Field):
        return x
    return relayout(x, xd.get('order', 'C'))


def vec(spc, seed, dom='mod'):
    """Auxiliary element (multiplicand, data term, ...) from a seed."""
    return flat.unflat(_seeded(dom, seed, flat.rdim(spc)), spc)


def is_intspace(spc):
    if isinstance(spc, Field):
        return False
    if isinstance(spc, ProductSpace):
        return len(spc) > 0 and is_intspace(spc[0])
    return np.dtype(spc.dtype).kind in 'iub'


# --------------------------------------------------------------------------
# build / strategy front-ends

def build_op(desc):
    """Descriptor -> (operator, entry)."""
    try:
        e = ENTRIES[desc['entry']]
    except KeyError:
        raise HarnessError('unknown zoo entry {!r}'.format(desc.get('entry')))
    o = Src(None, desc['opts'])
    thunk = e.func(o)
    return thunk(), e


@st.composite
def op_descs(draw, names):
    """Strategy of operator descriptors for the given entry names, together
    with the documented input domain kind."""
    name = draw(st.sampled_from(list(names)))
    return draw(entry_descs(name))


@st.composite
def entry_descs(draw, name):
    e = ENTRIES[name]
    o = Src(draw)
    e.func(o)
    return {'entry': name, 'opts': o.opts, 'dom': o.dom}


@st.composite
def point_descs(draw, dom, orders=('C', 'C', 'F', 'strided'), nvals=24):
    n = draw(st.sampled_from([nvals, nvals, 8, 0]))
    vals = draw(st.lists(dom_values(dom), min_size=n, max_size=n))
    return {'dom': dom, 'vals': vals, 'seed': draw(st.integers(0, 9999)),
            'order': draw(st.sampled_from(list(orders)))}
