"""Operator catalogue ("zoo") shared by C03 (call protocol) and C10 (aliasing).

Every catalogue entry is ONE function ``f(o) -> thunk``.  ``o`` is an option
source (`Src`): in *draw* mode ``o.pick(key, strategy)`` draws a plain-data
option from Hypothesis and records it in ``o.opts``; in *replay* mode it reads
the recorded value back.  The function only handles plain data while picking
and returns a thunk that builds the live ODL operator, so the same code is the
Hypothesis strategy of the entry's options *and* the descriptor -> operator
builder (the thunk is never called while drawing).

Descriptor of an operator::

    {"entry": "PartialDerivative", "opts": {...plain data...}}

Descriptor of a domain point (`point`)::

    {"dom": "any|pos|unit|gt1|nz|int|nat|tiny|prob", "vals": [<=24 numbers],
     "seed": int, "order": "C|F|strided"}

The first ``len(vals)`` real coordinates of the point are the explicit values
(Hypothesis can shrink them), the rest comes from ``RandomState(seed)``
restricted to the same documented domain.
"""
import ast
import collections
import importlib
import inspect
import os
import pkgutil
import re

import numpy as np
from hypothesis import strategies as st
from hypothesis.strategies import SearchStrategy

from . import build, flat, strategies as vs
from .core import HarnessError, import_odl, odl_root

odl = import_odl()
from odl.operator import Operator  # noqa: E402
from odl.set.sets import Field  # noqa: E402
from odl.space.pspace import ProductSpace  # noqa: E402

S = odl.solvers
PO = odl.solvers.nonsmooth.proximal_operators


# --------------------------------------------------------------------------
# option source

class Src(object):
    """Record/replay source of plain-data options."""

    def __init__(self, draw=None, opts=None):
        self.draw = draw
        self.opts = {} if opts is None else opts
        self.dom = 'any'        # documented domain of the operator's input
        self.xscale = None      # optional (lo, hi) override for 'any'
        self.notes = []

    _NODEFAULT = object()

    def pick(self, key, strat, default=_NODEFAULT):
        """``default``: value of an option that older replay files lack."""
        if self.draw is None:
            try:
                return self.opts[key]
            except KeyError:
                if default is not Src._NODEFAULT:
                    return default
                raise HarnessError('descriptor lacks option {!r}'.format(key))
        if not isinstance(strat, SearchStrategy):
            strat = st.sampled_from(list(strat))
        val = self.draw(strat)
        self.opts[key] = val
        return val

    def child(self, key):
        """Source for a nested option dict (operands of expressions)."""
        if self.draw is None:
            try:
                sub = self.opts[key]
            except KeyError:
                raise HarnessError('descriptor lacks option {!r}'.format(key))
        else:
            sub = self.opts[key] = {}
        c = Src(self.draw, sub)
        return c

    # frequently used picks
    def seed(self, key='seed'):
        return self.pick(key, st.integers(0, 9999))

    def flag(self, key, default=_NODEFAULT):
        return self.pick(key, st.booleans(), default)

    def scalar(self, key, cplx=False, positive=False, nonzero=False):
        if positive:
            s = st.sampled_from([1.0, 0.5, 2.0, 0.3, 3.5, 0.05]) | \
                st.floats(0.05, 8.0).map(vs._round)
        else:
            pal = [1.0, -1.0, 2.0, -0.5, 3.0, 0.25, -2.5]
            if not nonzero:
                pal = pal + [0.0]
            s = st.sampled_from(pal) | st.floats(0.05, 8.0).map(vs._round) | \
                st.floats(-8.0, -0.05).map(vs._round)
        v = self.pick(key, s)
        if cplx:
            im = self.pick(key + '_im', st.sampled_from([0.0, 1.0, -2.0, 0.5]))
            if im != 0.0:
                return complex(v, im)
        return v


class Entry(object):
    def __init__(self, name, func, family, classes, exact=False, ktol=16,
                 c10=False, c03=True, weight=1, slow=False):
        self.name = name
        self.func = func
        self.family = family
        self.classes = tuple(classes)
        self.exact = exact       # in-place == out-of-place exactly (copy ops)
        self.ktol = ktol
        self.c10 = c10           # documented alias-safe building block
        self.c03 = c03
        self.weight = weight
        self.slow = slow


ENTRIES = collections.OrderedDict()


def entry(name, family, classes=(), **kw):
    def deco(func):
        if name in ENTRIES:
            raise HarnessError('duplicate zoo entry ' + name)
        ENTRIES[name] = Entry(name, func, family, classes or (name,), **kw)
        return func
    return deco


# --------------------------------------------------------------------------
# plain-data helpers (spaces)

def _is_cplx(sd):
    return np.dtype(build.leaf_descs(sd)[0].get('dtype', 'float64')).kind == 'c'


def _shape_st(ndims=(1, 2), max_side=5, max_size=24, min_side=1, medium=True):
    base = vs.small_shapes(min_ndim=min(ndims), max_ndim=max(ndims),
                           min_side=min_side, max_side=max_side,
                           max_size=max_size)
    if not medium:
        return base
    # the >= 100 regime of _lincomb_impl is entered on purpose now and then
    med = st.sampled_from([[100], [128], [10, 12], [101]])
    if max(ndims) < 2:
        med = st.sampled_from([[100], [128], [101]])
    if min(ndims) > 1:
        med = st.sampled_from([[10, 12], [12, 10]])
    return st.one_of(base, base, base, base, base, base, base, med)


def space(o, key, kinds=('rn', 'cn', 'discr', 'cdiscr'), ndims=(1, 2),
          max_side=5, max_size=24, min_side=1, weighted=True, medium=True,
          f32=True, nob=True):
    """Pick a (leaf) space descriptor."""
    kind = o.pick(key + '.kind', kinds)
    wk = ('none', 'none', 'const', 'array') if weighted else ('none',)
    shapes = _shape_st(ndims, max_side, max_size, min_side, medium)
    if kind in ('rn', 'cn', 'int'):
        dts = {'rn': ['float64', 'float64', 'float32'] if f32 else
               ['float64'],
               'cn': ['complex128', 'complex128', 'complex64'] if f32 else
               ['complex128'],
               'int': ['int64', 'int32']}[kind]
        sd = o.pick(key, vs.tensor_space_descs(
            shapes=shapes, dtypes=dts, weighting_kinds=wk))
        if sd['dtype'] in ('float32', 'complex64') and \
                (sd.get('weighting') or {}).get('type') == 'array':
            # array weights must have the space dtype (documented ValueError)
            sd = dict(sd, weighting=None)
        return sd
    dts = {'discr': ['float64', 'float64', 'float32'] if f32 else ['float64'],
           'cdiscr': ['complex128']}[kind]
    return o.pick(key, vs.discr_space_descs(
        shapes=shapes, dtypes=dts, nodes_on_bdry=nob,
        weighting_kinds=('none', 'none', 'const') if weighted else
        ('none',)))


def pspace_of(o, key, base_sd, max_len=3, min_len=1, weighted=True):
    n = o.pick(key + '.n', st.integers(min_len, max_len))
    wk = o.pick(key + '.w', ('none', 'none', 'const', 'array')
                if weighted else ('none',))
    w = None
    if wk == 'const':
        w = {'type': 'const', 'value': o.scalar(key + '.wc', positive=True)}
    elif wk == 'array':
        w = {'type': 'array',
             'data': [o.scalar(key + '.wa%d' % i, positive=True)
                      for i in range(n)]}
    return {'kind': 'pspace', 'base': base_sd, 'power': n, 'weighting': w,
            'exponent': 2.0}


def anyspace(o, key, pspace=True, **kw):
    """Leaf space, or (sometimes) a power / product space of leaves;
    ``pspace='power'`` admits power spaces only."""
    how = o.pick(key + '.how',
                 {True: ('leaf', 'leaf', 'leaf', 'power', 'product'),
                  'power': ('leaf', 'leaf', 'power'),
                  False: ('leaf',)}[pspace])
    if how == 'leaf':
        return space(o, key, **kw)
    kw = dict(kw)
    kw['medium'] = False
    if how == 'power':
        return pspace_of(o, key + '.p', space(o, key, **kw))
    a = space(o, key + '.a', **kw)
    kinds = kw.get('kinds', ('rn', 'cn', 'discr', 'cdiscr'))
    same = ('cn', 'cdiscr') if _is_cplx(a) else ('rn', 'discr')
    kw['kinds'] = [k for k in kinds if k in same] or [kinds[0]]
    b = space(o, key + '.b', **kw)
    return {'kind': 'pspace', 'parts': [a, b], 'power': None,
            'weighting': None, 'exponent': 2.0}


B = build.build_space


# --------------------------------------------------------------------------
# runtime helpers (data from seeds)

DOMS = {
    'any': (-30.0, 30.0), 'pos': (0.05, 5.0), 'unit': (-0.95, 0.95),
    'gt1': (1.05, 4.0), 'nz': (0.2, 3.0), 'int': (-6, 6), 'nat': (0, 5),
    'tiny': (-0.12, 0.12), 'prob': (0.05, 0.95), 'mod': (-3.0, 3.0),
}


def dom_values(dom):
    """Hypothesis strategy of single real coordinates inside ``dom``."""
    lo, hi = DOMS[dom]
    if dom in ('int', 'nat'):
        return st.integers(lo, hi)
    gen = st.floats(lo, hi, allow_nan=False).map(vs._round).map(
        lambda v: min(max(v, lo), hi))
    if dom in ('any', 'mod'):
        return st.one_of(st.sampled_from(
            [0.0, 1.0, -1.0, 2.0, -3.0, 0.5, -0.25, 1.5, -0.0, 2.5]), gen)
    if dom == 'nz':
        return st.one_of(gen, gen.map(lambda v: -v))
    return gen


def _seeded(dom, seed, n):
    lo, hi = DOMS[dom]
    rng = np.random.RandomState(int(seed) % (2 ** 32))
    if dom in ('int', 'nat'):
        return rng.randint(lo, hi + 1, size=n).astype(float)
    v = rng.uniform(lo, hi, size=n)
    if dom == 'nz':
        v *= rng.choice([-1.0, 1.0], size=n)
    return v


def flatvals(n, xd):
    vals = [float(v) for v in xd.get('vals', [])][:n]
    v = _seeded(xd.get('dom', 'any'), xd.get('seed', 0), n)
    v[:len(vals)] = vals
    return v


def relayout(elem, order):
    """Element with the same values whose leaves have the given layout."""
    if order in (None, 'C'):
        return elem
    sp = elem.space
    if isinstance(sp, ProductSpace):
        return sp.element([relayout(p, order) for p in elem])
    arr = elem.asarray()
    if order == 'F':
        new = np.asfortranarray(arr)
        if arr.ndim < 2:
            new = arr.copy()
    elif order == 'strided':
        big = np.zeros(tuple(2 * s for s in arr.shape), dtype=arr.dtype)
        new = big[tuple(slice(None, None, 2) for _ in arr.shape)]
        new[...] = arr
    else:
        raise HarnessError('unknown order {!r}'.format(order))
    return sp.element(new)


def point(spc, xd):
    """Domain point described by ``xd`` (see module docstring)."""
    n = flat.rdim(spc)
    x = flat.unflat(flatvals(n, xd), spc)
    if isinstance(spc, Field):
        return x
    return relayout(x, xd.get('order', 'C'))


# element-valued parameters handed to the operator under construction (data
# terms g, translations y, linear terms u, priors, element-valued steps,
# bounds, multiplicands ...): every `vec` lands here, derived parameters are
# registered with `param`; `build_op` attaches the list to the operator
_PARAMS = []


def param(elem):
    """Register ``elem`` as a parameter object of the operator being built."""
    _PARAMS.append(elem)
    return elem


def vec(spc, seed, dom='mod'):
    """Auxiliary element (multiplicand, data term, ...) from a seed."""
    return param(flat.unflat(_seeded(dom, seed, flat.rdim(spc)), spc))


def is_intspace(spc):
    if isinstance(spc, Field):
        return False
    if isinstance(spc, ProductSpace):
        return len(spc) > 0 and is_intspace(spc[0])
    return np.dtype(spc.dtype).kind in 'iub'


# --------------------------------------------------------------------------
# build / strategy front-ends

def build_op(desc):
    """Descriptor -> (operator, entry)."""
    try:
        e = ENTRIES[desc['entry']]
    except KeyError:
        raise HarnessError('unknown zoo entry {!r}'.format(desc.get('entry')))
    o = Src(None, desc['opts'])
    thunk = e.func(o)
    del _PARAMS[:]
    op = thunk()
    try:
        op._verif_params = list(_PARAMS)
    except AttributeError:
        pass
    return op, e


@st.composite
def op_descs(draw, names):
    """Strategy of operator descriptors for the given entry names, together
    with the documented input domain kind."""
    name = draw(st.sampled_from(list(names)))
    return draw(entry_descs(name))


@st.composite
def entry_descs(draw, name):
    e = ENTRIES[name]
    o = Src(draw)
    e.func(o)
    return {'entry': name, 'opts': o.opts, 'dom': o.dom}


@st.composite
def point_descs(draw, dom, orders=('C', 'C', 'F', 'strided'), nvals=24):
    n = draw(st.sampled_from([nvals, nvals, 8, 0]))
    vals = draw(st.lists(dom_values(dom), min_size=n, max_size=n))
    return {'dom': dom, 'vals': vals, 'seed': draw(st.integers(0, 9999)),
            'order': draw(st.sampled_from(list(orders)))}


FAMILY_WEIGHTS = collections.OrderedDict([
    ('default', 6), ('ufuncfunc', 2), ('derivative', 3), ('tensor', 5), ('pspace', 5),
    ('diff', 5), ('discr', 4), ('ufunc', 6), ('expr', 8), ('trafo', 4),
    ('deform', 1), ('tomo', 1), ('functional', 5), ('gradient', 4),
    ('prox', 6), ('funcprox', 5), ('solverblock', 2), ('large', 1),
])


@st.composite
def weighted_entry_names(draw, names):
    """Family by weight, then entry uniformly inside the family."""
    byfam = collections.OrderedDict()
    for n in names:
        byfam.setdefault(ENTRIES[n].family, []).append(n)
    fams = []
    for f, members in byfam.items():
        fams.extend([f] * FAMILY_WEIGHTS.get(f, 1))
    fam = draw(st.sampled_from(fams))
    pool = []
    for n in byfam[fam]:
        pool.extend([n] * ENTRIES[n].weight)
    return draw(st.sampled_from(pool))


def sweep(case_strategy_for, names, per_entry=3, seed=20260926):
    """Deterministic list of descriptors: ``per_entry`` Hypothesis draws of
    ``case_strategy_for(name)`` for every entry name."""
    import hypothesis
    from hypothesis import given, settings, HealthCheck, Phase
    out = []
    for i, name in enumerate(names):
        got = []

        @hypothesis.seed(seed + i)
        @settings(max_examples=per_entry, database=None, deadline=None,
                  phases=[Phase.generate],
                  suppress_health_check=list(HealthCheck))
        @given(case_strategy_for(name))
        def collect(d):
            got.append(d)

        collect()
        out.extend(got[:per_entry])
    return out


DOCUMENTED_BUILD_REJECTIONS = (NotImplementedError,)


def innermost_is_harness(exc):
    """True if the exception was raised by harness code (not inside odl)."""
    import traceback
    root = os.path.join(odl_root(), 'odl') + os.sep
    frames = traceback.extract_tb(exc.__traceback__)
    return not any(os.path.abspath(fr.filename).startswith(root)
                   for fr in frames)


def raise_site(exc):
    """Root-cause key of an exception: ``Class.method`` (or
    ``module:function``) of the deepest frame that lies inside odl."""
    root = os.path.join(odl_root(), 'odl') + os.sep
    tb = exc.__traceback__
    site = '?'
    while tb is not None:
        fr = tb.tb_frame
        fn = os.path.abspath(fr.f_code.co_filename)
        if fn.startswith(root):
            slf = fr.f_locals.get('self')
            if fn.endswith(os.path.join('operator', 'operator.py')) and \
                    fr.f_code.co_name == '__call__':
                # the public call itself: keep the base-class name
                site = 'Operator.__call__@' + type(slf).__name__
            elif slf is not None:
                site = '{}.{}'.format(type(slf).__name__, fr.f_code.co_name)
            else:
                site = '{}:{}'.format(
                    os.path.splitext(os.path.basename(fn))[0],
                    fr.f_code.co_name)
        tb = tb.tb_next
    return site


def _walk_ops(op, depth=0, seen=None):
    """The operator and the operators reachable through its public operand
    attributes (expression trees, product-space operator matrices)."""
    seen = set() if seen is None else seen
    if id(op) in seen or depth > 6 or not isinstance(op, Operator):
        return
    seen.add(id(op))
    yield op
    for attr in ('left', 'right', 'operator', 'functional', 'prod_op',
                 'inverse_of', 'operators', 'functionals'):
        try:
            sub = getattr(op, attr)
        except Exception:  # noqa
            continue
        if isinstance(sub, Operator):
            for s in _walk_ops(sub, depth + 1, seen):
                yield s
        elif isinstance(sub, (list, tuple)):
            for s_ in sub:
                for s in _walk_ops(s_, depth + 1, seen):
                    yield s
    ops = getattr(op, 'ops', None)
    if ops is not None and hasattr(ops, 'data'):
        for s_ in ops.data:
            for s in _walk_ops(s_, depth + 1, seen):
                yield s


def param_holder(op, p):
    """``Class.attribute`` of the (sub-)operator that holds the element ``p``
    by reference (vector / multiplicand / constant ...), or None if ``p`` is
    only captured in a closure."""
    for sub in _walk_ops(op):
        for attr in ('vector', 'multiplicand', 'constant', 'translation',
                     'linear_term', 'prior', 'sigma', 'data', 'y', 'shift'):
            try:
                if getattr(sub, attr, None) is p:
                    return '{}.{}'.format(type(sub).__name__, attr)
            except Exception:  # noqa
                continue
        # parameters captured by the closure of a factory-made class
        fn = type(sub).__dict__.get('_call')
        cells = getattr(fn, '__closure__', None) or ()
        for nm, cell in zip(getattr(getattr(fn, '__code__', None),
                                    'co_freevars', ()), cells):
            try:
                if cell.cell_contents is p:
                    return '{}.{}'.format(type(sub).__name__, nm)
            except ValueError:
                continue
    return None


def uses_pyfftw(op):
    return any(getattr(s, 'impl', None) == 'pyfftw' for s in _walk_ops(op))


def _space_tag(spc):
    if isinstance(spc, Field):
        return 'field'
    if isinstance(spc, ProductSpace):
        return 'pspace'
    tag = 'discr' if isinstance(spc, odl.DiscretizedSpace) else 'tensor'
    k = np.dtype(spc.dtype).kind
    return tag + {'f': '', 'c': '-cplx', 'i': '-int', 'u': '-int',
                  'b': '-bool'}.get(k, '')


def region(op, desc):
    """Region part of a violation signature: entry, range kind, size regime
    and the options that select a code path."""
    opts = desc['op']['opts']
    parts = [desc['op']['entry'], 'ran=' + _space_tag(op.range)]
    n = flat.rdim(op.range) if not isinstance(op.range, Field) else 1
    parts.append('small' if n < 100 else ('medium' if n < 50000 else 'large'))
    for k in ('impl', 'halfcomplex', 'parity', 'matshape', 'operand',
              'kind', 'levels'):
        if k in opts:
            parts.append('{}={}'.format(k, opts[k]))
    if 'naxes' in opts:
        parts.append('naxes=' + ('1' if opts['naxes'] == 1 else 'multi'))
    return ','.join(parts)


# classes whose in-place path the repository's own tests never call:
# computed once from odl/test (a test function that names the class and
# passes ``out=`` counts as in-place tested)
def _inplace_tested_classes():
    root = os.path.join(odl_root(), 'odl', 'test')
    tested = set()
    names = set()
    for e in ENTRIES.values():
        names.update(e.classes)
    for dirpath, _, files in os.walk(root):
        for fn in files:
            if not fn.endswith('.py'):
                continue
            with open(os.path.join(dirpath, fn)) as f:
                src = f.read()
            for chunk in re.split(r'\ndef test_', src):
                if 'out=' not in chunk:
                    continue
                for n in names:
                    if n in chunk:
                        tested.add(n)
    return tested


class _Lazy(object):
    """Set of entry names computed on first use."""

    def __init__(self, fn):
        self.fn, self.val = fn, None

    def __contains__(self, item):
        if self.val is None:
            self.val = self.fn()
        return item in self.val

    def __len__(self):
        if self.val is None:
            self.val = self.fn()
        return len(self.val)


def _untested():
    tested = _inplace_tested_classes()
    return {n for n, e in ENTRIES.items()
            if not any(c in tested for c in e.classes)}


INPLACE_UNTESTED = _Lazy(_untested)

ABSTRACT_CLASSES = {
    'Operator': 'abstract base', 'Functional': 'abstract base',
    'PointwiseTensorFieldOperator': 'abstract base',
    'PointwiseInnerBase': 'abstract base',
    'DiscreteFourierTransformBase': 'abstract base',
    'FourierTransformBase': 'abstract base',
    'WaveletTransformBase': 'abstract base',
}


_INTROSPECT_CACHE = []


def introspect():
    """All Operator subclasses defined at module level in odl (without
    contrib / tests), diffed against the classes the catalogue claims."""
    if _INTROSPECT_CACHE:
        return _INTROSPECT_CACHE[0]
    found = {}
    for m in pkgutil.walk_packages(odl.__path__, 'odl.'):
        if '.contrib' in m.name or '.test' in m.name or \
                m.name.endswith('pytest_config'):
            continue
        try:
            mod = importlib.import_module(m.name)
        except Exception:  # noqa
            continue
        for var, c in vars(mod).items():
            if inspect.isclass(c) and issubclass(c, Operator) and \
                    c.__module__ == m.name:
                key = var if m.name.endswith('ufunc_ops') else c.__name__
                found[(m.name, key)] = c
    claimed = set()
    for e in ENTRIES.values():
        claimed.update(e.classes)
    total = len(found)
    covered = sorted(k for k in found if k[1] in claimed)
    exempt = sorted(k for k in found
                    if k[1] in ABSTRACT_CLASSES and k[1] not in claimed)
    missing = sorted(k for k in found
                     if k[1] not in claimed and k[1] not in ABSTRACT_CLASSES)
    local = sorted(claimed - {k[1] for k in found})
    _INTROSPECT_CACHE.append({
        'classes_total': total, 'classes_with_builder': len(covered),
        'classes_exempt': ['{}.{} ({})'.format(m, n, ABSTRACT_CLASSES[n])
                           for m, n in exempt],
        'classes_missing': ['{}.{}'.format(m, n) for m, n in missing],
        'local_classes_claimed': local})
    return _INTROSPECT_CACHE[0]


def coverage_statement():
    rep = introspect()
    return ['zoo coverage (introspection over odl without contrib/tests): '
            '{} module-level Operator subclasses, {} with a catalogue '
            'builder, {} exempt abstract bases {}, not covered: {}; plus {} '
            'classes defined inside factories / properties reached through '
            'their factories; {} catalogue entries, {} of them with an '
            'in-place path the repository tests never exercise'.format(
                rep['classes_total'], rep['classes_with_builder'],
                len(rep['classes_exempt']), rep['classes_exempt'],
                rep['classes_missing'] or 'none',
                len(rep['local_classes_claimed']), len(ENTRIES),
                len(INPLACE_UNTESTED))]


# ==========================================================================
# CATALOGUE
# ==========================================================================
# --- odl.operator.default_ops ---------------------------------------------

@entry('ScalingOperator', 'default', c10=True)
def _scaling(o):
    sd = anyspace(o, 'space')
    s = o.scalar('s', cplx=_is_cplx(sd))
    return lambda: odl.ScalingOperator(B(sd), s)


@entry('ScalingOperator.field', 'default', classes=['ScalingOperator'])
def _scaling_field(o):
    f = o.pick('field', ('real', 'complex'))
    s = o.scalar('s', cplx=(f == 'complex'))
    return lambda: odl.ScalingOperator(
        odl.RealNumbers() if f == 'real' else odl.ComplexNumbers(), s)


@entry('IdentityOperator', 'default', exact=True, c10=True)
def _identity(o):
    sd = anyspace(o, 'space')
    return lambda: odl.IdentityOperator(B(sd))


@entry('LinCombOperator', 'default')
def _lincomb(o):
    sd = anyspace(o, 'space')
    a = o.scalar('a', cplx=_is_cplx(sd))
    b = o.scalar('b', cplx=_is_cplx(sd))
    return lambda: odl.LinCombOperator(B(sd), a, b)


@entry('MultiplyOperator', 'default', c10=True)
def _multiply(o):
    sd = anyspace(o, 'space')
    seed = o.seed()
    return lambda: odl.MultiplyOperator(vec(B(sd), seed))


@entry('MultiplyOperator.scalar', 'default', classes=['MultiplyOperator'],
       c10=True)
def _multiply_scalar(o):
    sd = anyspace(o, 'space')
    s = o.scalar('s', cplx=_is_cplx(sd))

    def mk():
        sp = B(sd)
        return odl.MultiplyOperator(s, domain=sp, range=sp)
    return mk


@entry('MultiplyOperator.fielddom', 'default', classes=['MultiplyOperator'])
def _multiply_field(o):
    sd = anyspace(o, 'space')
    seed = o.seed()

    def mk():
        sp = B(sd)
        return odl.MultiplyOperator(vec(sp, seed), domain=sp.field, range=sp)
    return mk


@entry('PowerOperator', 'default')
def _power(o):
    sd = anyspace(o, 'space', kinds=('rn', 'discr'))
    p = o.pick('p', [1, 2, 3, 0.5, 2.5, -1, 0])
    if sd['kind'] == 'pspace' and p in (0.5, 2.5):
        p = 3    # generic elements document integer powers only
    if p in (0.5, 2.5):
        o.dom = 'pos'
    elif p == -1:
        o.dom = 'nz'
    else:
        o.dom = 'mod'
    return lambda: odl.PowerOperator(B(sd), p)


@entry('PowerOperator.field', 'default', classes=['PowerOperator'])
def _power_field(o):
    p = o.pick('p', [1, 2, 3, 0.5, 2.5])
    o.dom = 'pos'
    return lambda: odl.PowerOperator(odl.RealNumbers(), p)


@entry('PowerOperator.derivative', 'derivative',
       classes=['OperatorLeftScalarMult', 'MultiplyOperator'])
def _power_deriv(o):
    sd = anyspace(o, 'space', kinds=('rn', 'discr'), pspace=False)
    p = o.pick('p', [2, 3, 2.5])
    seed = o.seed()

    def mk():
        sp = B(sd)
        return odl.PowerOperator(sp, p).derivative(vec(sp, seed, 'pos'))
    return mk


@entry('InnerProductOperator', 'default')
def _inner(o):
    sd = anyspace(o, 'space')
    seed = o.seed()
    return lambda: odl.InnerProductOperator(vec(B(sd), seed))


@entry('NormOperator', 'default')
def _norm(o):
    sd = anyspace(o, 'space')
    return lambda: odl.NormOperator(B(sd))


@entry('DistOperator', 'default')
def _dist(o):
    sd = anyspace(o, 'space')
    seed = o.seed()
    return lambda: odl.DistOperator(vec(B(sd), seed))


@entry('NormOperator.derivative', 'derivative',
       classes=['OperatorLeftScalarMult', 'InnerProductOperator'])
def _norm_deriv(o):
    sd = anyspace(o, 'space', kinds=('rn', 'discr'))
    seed = o.seed()
    which = o.pick('which', ('norm', 'dist'))

    def mk():
        sp = B(sd)
        if which == 'norm':
            return odl.NormOperator(sp).derivative(vec(sp, seed, 'nz'))
        return odl.DistOperator(vec(sp, seed)).derivative(
            vec(sp, seed + 1, 'nz'))
    return mk


@entry('ConstantOperator', 'default', exact=True, c10=True)
def _constant(o):
    sd = anyspace(o, 'space')
    seed = o.seed()
    zero = o.pick('zero', (False, False, False, True))

    def mk():
        sp = B(sd)
        return odl.ConstantOperator(sp.zero() if zero else vec(sp, seed))
    return mk


@entry('ConstantOperator.domran', 'default', classes=['ConstantOperator'],
       exact=True)
def _constant_dr(o):
    sd = anyspace(o, 'dom')
    rd = anyspace(o, 'ran')
    seed = o.seed()
    aslist = o.flag('aslist')

    def mk():
        ran = B(rd)
        c = vec(ran, seed)
        if aslist and not isinstance(ran, ProductSpace):
            c = c.asarray().tolist()
        return odl.ConstantOperator(c, domain=B(sd), range=ran)
    return mk


@entry('ZeroOperator', 'default', c10=True)
def _zero(o):
    sd = anyspace(o, 'space')
    return lambda: odl.ZeroOperator(B(sd))


@entry('ZeroOperator.domran', 'default', classes=['ZeroOperator'])
def _zero_dr(o):
    sd = anyspace(o, 'dom')
    rd = anyspace(o, 'ran')
    return lambda: odl.ZeroOperator(B(sd), B(rd))


def _cplx_family(name, ctor, kinds=('cn', 'cdiscr', 'rn', 'discr'), **kw):
    @entry(name, 'default', **kw)
    def _f(o):
        sd = space(o, 'space', kinds=kinds, weighted=False)
        return lambda: ctor(B(sd))
    return _f


_cplx_family('RealPart', lambda s: odl.RealPart(s), exact=True)
_cplx_family('ImagPart', lambda s: odl.ImagPart(s), exact=True)
_cplx_family('ComplexModulus', lambda s: odl.ComplexModulus(s))
_cplx_family('ComplexModulusSquared', lambda s: odl.ComplexModulusSquared(s))
_cplx_family('RealPart.inverse', lambda s: odl.RealPart(s).inverse,
             classes=['ComplexEmbedding', 'RealPart'])
_cplx_family('ImagPart.inverse', lambda s: odl.ImagPart(s).inverse,
             classes=['ComplexEmbedding', 'ZeroOperator'])
_cplx_family('RealPart.adjoint', lambda s: odl.RealPart(s).adjoint,
             classes=['ComplexEmbedding', 'RealPart'])
_cplx_family('ImagPart.adjoint', lambda s: odl.ImagPart(s).adjoint,
             classes=['ComplexEmbedding', 'ZeroOperator'])


@entry('ComplexEmbedding', 'default')
def _cembed(o):
    sd = space(o, 'space', kinds=('rn', 'discr', 'cn', 'cdiscr'),
               weighted=False)
    s = o.scalar('s', cplx=True, nonzero=True)
    how = o.pick('how', ('op', 'op', 'inverse', 'adjoint'))

    def mk():
        op = odl.ComplexEmbedding(B(sd), s)
        return op if how == 'op' else getattr(op, how)
    return mk


@entry('ComplexModulus.derivative', 'derivative',
       classes=['ComplexModulusDerivative', 'ComplexModulusDerivativeAdjoint',
                'ComplexModulusSquaredDerivative',
                'ComplexModulusSquaredDerivativeAdjoint'])
def _cmod_deriv(o):
    sd = space(o, 'space', kinds=('cn', 'cdiscr'), weighted=False)
    seed = o.seed()
    sq = o.flag('squared')
    adj = o.flag('adjoint')

    def mk():
        sp = B(sd)
        op = (odl.ComplexModulusSquared if sq else odl.ComplexModulus)(sp)
        d = op.derivative(vec(sp, seed, 'nz'))
        return d.adjoint if adj else d
    return mk


# --- odl.operator.tensor_ops ----------------------------------------------

def _vfspace(o, key='vf', cplx_ok=True, min_len=1, max_len=3):
    base = space(o, key, kinds=('discr', 'rn', 'cdiscr', 'cn') if cplx_ok
                 else ('discr', 'rn'), weighted=False, medium=False)
    return pspace_of(o, key + '.p', base, min_len=min_len, max_len=max_len)


def _pw_weighting(o, n):
    wk = o.pick('pw.w', ('none', 'none', 'const', 'array'))
    if wk == 'const':
        return o.scalar('pw.wc', positive=True)
    if wk == 'array':
        return [o.scalar('pw.wa%d' % i, positive=True) for i in range(n)]
    return None


@entry('PointwiseNorm', 'tensor')
def _pwnorm(o):
    vf = _vfspace(o)
    p = o.pick('p', [None, 1, 2, float('inf'), 3, 1.5, 2.5])
    w = _pw_weighting(o, vf['power'])
    return lambda: odl.PointwiseNorm(B(vf), exponent=p, weighting=w)


@entry('PointwiseNorm.derivative', 'derivative', classes=['PointwiseInner'])
def _pwnorm_deriv(o):
    vf = _vfspace(o, cplx_ok=False)
    p = o.pick('p', [2, 3, 1.5, 1])
    w = _pw_weighting(o, vf['power'])
    seed = o.seed()

    def mk():
        sp = B(vf)
        return odl.PointwiseNorm(sp, exponent=p, weighting=w).derivative(
            vec(sp, seed, 'nz'))
    return mk


@entry('PointwiseInner', 'tensor')
def _pwinner(o):
    vf = _vfspace(o)
    w = _pw_weighting(o, vf['power'])
    seed = o.seed()
    adj = o.flag('adjoint')

    def mk():
        sp = B(vf)
        op = odl.PointwiseInner(sp, vec(sp, seed), weighting=w)
        return op.adjoint if adj else op
    return mk


@entry('PointwiseInnerAdjoint', 'tensor')
def _pwinner_adj(o):
    vf = _vfspace(o)
    w = _pw_weighting(o, vf['power'])
    seed = o.seed()
    give_vf = o.flag('give_vfspace')

    def mk():
        sp = B(vf)
        return odl.operator.tensor_ops.PointwiseInnerAdjoint(
            sp[0], vec(sp, seed), vfspace=sp if give_vf else None,
            weighting=w)
    return mk


@entry('PointwiseSum', 'tensor')
def _pwsum(o):
    vf = _vfspace(o)
    w = _pw_weighting(o, vf['power'])
    adj = o.flag('adjoint')

    def mk():
        op = odl.PointwiseSum(B(vf), weighting=w)
        return op.adjoint if adj else op
    return mk


def _matrix(seed, m, n, cplx=False, kind='dense', dtype=None, diag=0.0):
    rng = np.random.RandomState(seed)
    a = np.round(rng.uniform(-2, 2, size=(m, n)), 2)
    if cplx:
        a = a + 1j * np.round(rng.uniform(-2, 2, size=(m, n)), 2)
    if kind in ('sparse', 'coo'):
        import scipy.sparse
        a[np.abs(a) < 0.8] = 0
        if diag:
            a = a + diag * np.eye(m, n)
        return (scipy.sparse.csr_matrix if kind == 'sparse' else
                scipy.sparse.coo_matrix)(a)
    if diag:
        a = a + diag * np.eye(m, n)
    if dtype is not None:
        a = a.astype(dtype)
    return a


@entry('MatrixOperator', 'tensor', weight=2)
def _matop(o):
    m = o.pick('m', st.integers(1, 5))
    n = o.pick('n', st.integers(1, 5))
    kind = o.pick('mkind', ('dense', 'dense', 'sparse', 'coo'))
    cplx = o.pick('cplx', ('no', 'no', 'matrix', 'both'))
    f32 = o.flag('f32') and cplx == 'no' and kind == 'dense'
    seed = o.seed()
    how = o.pick('how', ('op', 'op', 'adjoint', 'inverse'))
    domgiven = o.pick('domgiven', ('none', 'tensor', 'discr', 'weighted'))
    if cplx == 'matrix':
        how = 'op'      # complex matrix on a real domain has no adjoint
    if how == 'inverse':
        m = n

    def mk():
        mat = _matrix(seed, m, n, cplx != 'no', kind,
                      'float32' if f32 else None,
                      diag=7.0 if how == 'inverse' else 0.0)
        dt = 'complex128' if cplx == 'both' else (
            'float32' if f32 else 'float64')
        dom = None
        if domgiven == 'tensor':
            dom = odl.tensor_space(n, dtype=dt)
        elif domgiven == 'discr':
            dom = odl.uniform_discr(0, 2, n, dtype=dt)
        elif domgiven == 'weighted':
            dom = odl.tensor_space(n, dtype=dt, weighting=2.5)
        elif cplx == 'both' and kind == 'dense':
            dom = odl.cn(n)
        op = odl.MatrixOperator(mat, domain=dom)
        return op if how == 'op' else getattr(op, how)
    return mk


@entry('MatrixOperator.axis', 'tensor', classes=['MatrixOperator'], weight=5)
def _matop_axis(o):
    # three axes on purpose: numpy.dot contracts the second-to-last axis of
    # an n-d operand, so only domains with >= 3 axes tell a `dot` shortcut
    # from the documented contraction over `axis`
    nd = o.pick('nd', (2, 3, 3))
    shape = o.pick('shape', vs.small_shapes(min_ndim=nd, max_ndim=nd,
                                            max_side=4, max_size=30))
    axis = o.pick('axis', st.integers(0, len(shape) - 1))
    m = o.pick('m', st.integers(1, 4))
    cplx = o.flag('cplx')
    rangiven = o.flag('rangiven')
    neg = o.pick('negaxis', (False, False, False, True))
    how = o.pick('how', ('op', 'op', 'adjoint'))
    seed = o.seed()

    def mk():
        mat = _matrix(seed, m, shape[axis], cplx)
        dom = odl.tensor_space(shape, dtype=complex if cplx else float)
        rshape = list(shape)
        rshape[axis] = m
        ran = odl.tensor_space(rshape, dtype=complex if cplx else float) \
            if rangiven else None
        op = odl.MatrixOperator(mat, domain=dom, range=ran,
                                axis=axis - len(shape) if neg else axis)
        return op if how == 'op' else op.adjoint
    return mk


def _sampling_points(o, shape):
    """Sampling index sets: scattered (possibly repeated) points, and the
    structured sets an implementation may be tempted to turn into slices /
    views - a full row, a memory-contiguous block of the C-flattened array,
    the leading range 0..k, a repeated point."""
    nd = len(shape)
    size = int(np.prod(shape))
    pk = o.pick('ptkind', ('scattered', 'scattered', 'row', 'block', 'range',
                           'repeated'), default='scattered')
    if pk == 'scattered' or size < 2:
        npts = o.pick('npts', st.integers(1, 5))
        return [[o.pick('pt%d_%d' % (a, i), st.integers(0, shape[a] - 1))
                 for i in range(npts)] for a in range(nd)]
    if pk == 'repeated':
        flat_idx = [o.pick('rep', st.integers(0, size - 1))] * 3
    elif pk == 'range':
        flat_idx = list(range(o.pick('k', st.integers(2, min(size, 8)))))
    elif pk == 'row':
        row = o.pick('row', st.integers(0, size // shape[-1] - 1))
        flat_idx = list(range(row * shape[-1], (row + 1) * shape[-1]))
    else:
        a = o.pick('b0', st.integers(0, size - 2))
        flat_idx = list(range(a, o.pick('b1', st.integers(a + 2, min(
            size, a + 9)))))
    idx = np.unravel_index(np.array(flat_idx, dtype=int), tuple(shape))
    return [[int(v) for v in ax] for ax in idx]


@entry('SamplingOperator', 'tensor', exact=True)
def _sampling(o):
    sd = space(o, 'space', kinds=('discr', 'rn', 'cdiscr', 'cn'),
               medium=False)
    shape = build.space_shape(sd)
    pts = _sampling_points(o, shape)
    variant = o.pick('variant', ('point_eval', 'integrate'))
    how = o.pick('how', ('op', 'op', 'adjoint'))
    flat1d = o.flag('flat1d')

    def mk():
        p = pts[0] if (len(shape) == 1 and flat1d) else pts
        op = odl.SamplingOperator(B(sd), p, variant)
        return op if how == 'op' else op.adjoint
    return mk


@entry('WeightedSumSamplingOperator', 'tensor')
def _wsum_sampling(o):
    sd = space(o, 'space', kinds=('discr', 'rn', 'cdiscr', 'cn'),
               medium=False)
    shape = build.space_shape(sd)
    pts = _sampling_points(o, shape)
    variant = o.pick('variant', ('char_fun', 'dirac'))
    how = o.pick('how', ('op', 'op', 'adjoint'))

    def mk():
        op = odl.WeightedSumSamplingOperator(B(sd), pts, variant)
        return op if how == 'op' else op.adjoint
    return mk


@entry('FlatteningOperator', 'tensor', exact=True,
       classes=['FlatteningOperator', 'FlatteningOperatorInverse'])
def _flatten(o):
    sd = space(o, 'space', kinds=('discr', 'rn', 'cdiscr', 'cn'),
               ndims=(1, 3))
    order = o.pick('order', ('C', 'F'))
    how = o.pick('how', ('op', 'op', 'adjoint', 'inverse', 'invinv'))

    def mk():
        op = odl.FlatteningOperator(B(sd), order)
        if how == 'invinv':
            return op.inverse.inverse
        return op if how == 'op' else getattr(op, how)
    return mk


# --- odl.operator.pspace_ops ----------------------------------------------

# 'matsq' and 'pdiff' are deliberately NOT alias-safe (dense dot / stencil
# reading its input while writing): they make missing temporaries of the
# expression classes visible to C03
ENDO_KINDS = ['scale', 'ident', 'mult', 'sin', 'exp', 'square', 'const',
              'zero', 'vecsum', 'absolute', 'matsq', 'matsq', 'pdiff']


def endo(o, key, kinds=None, linear=False):
    """Pick a small endomorphism kind; returns f(space) -> operator."""
    if kinds is None:
        kinds = ['scale', 'ident', 'mult', 'zero'] if linear else ENDO_KINDS
    k = o.pick(key + '.k', kinds)
    seed = o.pick(key + '.seed', st.integers(0, 9999))
    s = o.scalar(key + '.s', nonzero=True)

    def mk(sp):
        if k == 'scale':
            return odl.ScalingOperator(sp, s)
        if k == 'ident':
            return odl.IdentityOperator(sp)
        if k == 'mult':
            return odl.MultiplyOperator(vec(sp, seed))
        if k in ('sin', 'exp', 'square', 'absolute'):
            if isinstance(sp, ProductSpace) or sp.is_complex:
                return odl.ScalingOperator(sp, s) * odl.MultiplyOperator(
                    vec(sp, seed))
            return getattr(odl.ufunc_ops, k)(sp)
        if k == 'const':
            return odl.ConstantOperator(vec(sp, seed))
        if k == 'zero':
            return odl.ZeroOperator(sp)
        if k == 'vecsum':
            return odl.IdentityOperator(sp) - vec(sp, seed)
        if k == 'lapl' and isinstance(sp, odl.DiscretizedSpace):
            return odl.Laplacian(sp, pad_mode='symmetric')
        if k in ('matsq', 'pdiff', 'lapl'):
            leaf = not isinstance(sp, ProductSpace) and sp.is_real
            if k == 'matsq' and leaf and sp.ndim == 1:
                return odl.MatrixOperator(
                    _matrix(seed, sp.size, sp.size, dtype=sp.dtype),
                    domain=sp, range=sp)
            if k == 'pdiff' and leaf and min(sp.shape) >= 2 and \
                    isinstance(sp, odl.DiscretizedSpace):
                return odl.PartialDerivative(sp, seed % sp.ndim,
                                             pad_mode='symmetric')
            return odl.ScalingOperator(sp, s) * odl.MultiplyOperator(
                vec(sp, seed))
        if k == 'prox':
            fac = [PO.proximal_l1, PO.proximal_l2, PO.proximal_l2_squared,
                   PO.proximal_convex_conj_l1][seed % 4]
            return fac(sp, lam=abs(s), g=vec(sp, seed) if seed % 3 else
                       None)(0.5 + (seed % 5) / 4.0)
        raise HarnessError('unknown endo kind ' + k)
    return mk


@entry('ProductSpaceOperator', 'pspace', weight=3)
def _pso(o):
    sd = space(o, 'space', kinds=('rn', 'discr', 'cn'), medium=False)
    nr = o.pick('nrows', st.integers(1, 3))
    nc = o.pick('ncols', st.integers(1, 3))
    cells = []
    for i in range(nr):
        row = []
        for j in range(nc):
            ck = o.pick('c%d%d' % (i, j), ('op', 'op', 'none', 'zero'))
            row.append(endo(o, 'e%d%d' % (i, j)) if ck == 'op' else ck)
        cells.append(row)
    how = o.pick('how', ('op', 'op', 'op', 'derivative', 'adjoint'))
    seed = o.seed()
    give_spaces = o.flag('give_spaces')

    def mk():
        sp = B(sd)
        mat = [[(None if c == 'none' else 0) if isinstance(c, str)
                else c(sp) for c in row] for row in cells]
        dom, ran = ProductSpace(sp, nc), ProductSpace(sp, nr)
        allempty = all(isinstance(c, str) for row in cells for c in row)
        if give_spaces or allempty or \
                any(all(isinstance(c, str) for c in row) for row in cells) \
                or any(all(isinstance(cells[i][j], str) for i in range(nr))
                       for j in range(nc)):
            op = odl.ProductSpaceOperator(mat, domain=dom, range=ran)
        else:
            op = odl.ProductSpaceOperator(mat)
        if how == 'derivative':
            return op.derivative(vec(op.domain, seed))
        if how == 'adjoint' and op.is_linear:
            return op.adjoint
        return op
    return mk


def _mixed_pspace(o, key='ps'):
    n = o.pick(key + '.n', st.integers(1, 4))
    parts = [space(o, key + '.%d' % i, kinds=('rn', 'discr'), medium=False)
             for i in range(n)]
    if o.flag(key + '.power'):
        return pspace_of(o, key + '.pw', parts[0], min_len=1, max_len=4)
    return {'kind': 'pspace', 'parts': parts, 'power': None,
            'weighting': None, 'exponent': 2.0}


def _cp_index(o, n):
    ik = o.pick('ikind', ('int', 'int', 'list', 'slice', 'neg'))
    if ik == 'int':
        return o.pick('idx', st.integers(0, n - 1))
    if ik == 'neg':
        return -1 - o.pick('idx', st.integers(0, n - 1))
    if ik == 'list':
        return o.pick('idxl', st.lists(st.integers(0, n - 1), min_size=1,
                                       max_size=3))
    a = o.pick('sl0', st.integers(0, n - 1))
    return ['slice', a, o.pick('sl1', st.integers(a + 1, n))]


def _mkidx(idx):
    if isinstance(idx, (list, tuple)) and len(idx) == 3 and \
            idx[0] == 'slice':
        return slice(idx[1], idx[2])
    return list(idx) if isinstance(idx, (list, tuple)) else idx


@entry('ComponentProjection', 'pspace', exact=True, weight=2)
def _cproj(o):
    ps = _mixed_pspace(o)
    n = len(build.space_parts(ps))
    idx = _cp_index(o, n)
    return lambda: odl.ComponentProjection(B(ps), _mkidx(idx))


@entry('ComponentProjectionAdjoint', 'pspace', exact=True, weight=2)
def _cproj_adj(o):
    ps = _mixed_pspace(o)
    n = len(build.space_parts(ps))
    idx = _cp_index(o, n)
    via = o.flag('via_adjoint')

    def mk():
        if via:
            return odl.ComponentProjection(B(ps), _mkidx(idx)).adjoint
        return odl.ComponentProjectionAdjoint(B(ps), _mkidx(idx))
    return mk


def _pspace_family(name, ctor, same_range):
    @entry(name, 'pspace', weight=2)
    def _f(o):
        sd = space(o, 'space', kinds=('rn', 'discr', 'cn'), medium=False)
        n = o.pick('n', st.integers(1, 3))
        parts = [endo(o, 'e%d' % i) for i in range(n)]
        how = o.pick('how', ('op', 'op', 'op', 'derivative', 'adjoint'))
        seed = o.seed()

        def mk():
            sp = B(sd)
            op = ctor(*[p(sp) for p in parts])
            if how == 'derivative':
                return op.derivative(vec(op.domain, seed))
            if how == 'adjoint' and op.is_linear:
                return op.adjoint
            return op
        return mk
    return _f


_pspace_family('BroadcastOperator', odl.BroadcastOperator, False)
_pspace_family('ReductionOperator', odl.ReductionOperator, True)
_pspace_family('DiagonalOperator', odl.DiagonalOperator, False)


@entry('BroadcastOperator.power', 'pspace',
       classes=['BroadcastOperator', 'ReductionOperator', 'DiagonalOperator'])
def _pspace_int(o):
    """The (operator, int) calling convention."""
    sd = space(o, 'space', kinds=('rn', 'discr'), medium=False)
    e = endo(o, 'e')
    n = o.pick('n', st.integers(1, 3))
    which = o.pick('which', ('Broadcast', 'Reduction', 'Diagonal'))
    return lambda: getattr(odl, which + 'Operator')(e(B(sd)), n)


# --- odl.discr.diff_ops ---------------------------------------------------

PAD_MODES = ['constant', 'symmetric', 'symmetric_adjoint', 'periodic',
             'order0', 'order0_adjoint', 'order1', 'order1_adjoint',
             'order2', 'order2_adjoint']
METHODS = ['forward', 'backward', 'central']


def _diff_space(o, key='space', ndims=(1, 3), cplx=True):
    return space(o, key, kinds=('discr', 'discr', 'cdiscr') if cplx
                 else ('discr',), ndims=ndims, min_side=3, max_side=6,
                 max_size=150, medium=False, weighted=False)


def _diff_opts(o, laplacian=False):
    modes = [m for m in PAD_MODES
             if not (laplacian and m.startswith(('order1', 'order2')))]
    pm = o.pick('pad_mode', modes)
    pc = 0
    if pm == 'constant':
        pc = o.pick('pad_const', [0, 0, 1.0, -2.5])
    return pm, pc


@entry('PartialDerivative', 'diff', weight=3)
def _pderiv(o):
    sd = _diff_space(o)
    axis = o.pick('axis', st.integers(0, len(sd['shape']) - 1))
    meth = o.pick('method', METHODS)
    pm, pc = _diff_opts(o)
    how = o.pick('how', ('op', 'op', 'op', 'adjoint', 'derivative'))
    rangiven = o.flag('rangiven')

    def mk():
        sp = B(sd)
        op = odl.PartialDerivative(sp, axis, range=sp if rangiven else None,
                                   method=meth, pad_mode=pm, pad_const=pc)
        if how == 'adjoint' and op.is_linear:
            return op.adjoint
        if how == 'derivative':
            return op.derivative(sp.zero())
        return op
    return mk


@entry('Gradient', 'diff', weight=2)
def _gradient(o):
    sd = _diff_space(o)
    meth = o.pick('method', METHODS)
    pm, pc = _diff_opts(o)
    how = o.pick('how', ('op', 'op', 'op', 'adjoint', 'derivative'))
    give = o.pick('give', ('domain', 'range', 'both'))

    def mk():
        sp = B(sd)
        kw = {}
        if give in ('domain', 'both'):
            kw['domain'] = sp
        if give in ('range', 'both'):
            kw['range'] = sp ** sp.ndim
        op = odl.Gradient(method=meth, pad_mode=pm, pad_const=pc, **kw)
        if how == 'adjoint' and op.is_linear:
            return op.adjoint
        if how == 'derivative':
            return op.derivative(sp.zero())
        return op
    return mk


@entry('Divergence', 'diff', weight=2)
def _divergence(o):
    sd = _diff_space(o)
    meth = o.pick('method', METHODS)
    pm, pc = _diff_opts(o)
    how = o.pick('how', ('op', 'op', 'op', 'adjoint', 'derivative'))
    give = o.pick('give', ('domain', 'range', 'both'))

    def mk():
        sp = B(sd)
        kw = {}
        if give in ('domain', 'both'):
            kw['domain'] = sp ** sp.ndim
        if give in ('range', 'both'):
            kw['range'] = sp
        op = odl.Divergence(method=meth, pad_mode=pm, pad_const=pc, **kw)
        if how == 'adjoint' and op.is_linear:
            return op.adjoint
        if how == 'derivative':
            return op.derivative(op.domain.zero())
        return op
    return mk


@entry('Laplacian', 'diff', weight=2)
def _laplacian(o):
    sd = _diff_space(o)
    pm, pc = _diff_opts(o, laplacian=True)
    how = o.pick('how', ('op', 'op', 'op', 'adjoint', 'derivative'))
    rangiven = o.flag('rangiven')

    def mk():
        sp = B(sd)
        op = odl.Laplacian(sp, range=sp if rangiven else None, pad_mode=pm,
                           pad_const=pc)
        if how == 'adjoint' and op.is_linear:
            return op.adjoint
        if how == 'derivative':
            return op.derivative(sp.zero())
        return op
    return mk


# --- odl.discr.discr_ops --------------------------------------------------

@entry('Resampling', 'discr', weight=2)
def _resampling(o):
    sd = space(o, 'space', kinds=('discr', 'discr', 'cdiscr'), ndims=(1, 2),
               min_side=2, max_side=6, max_size=40, medium=False,
               weighted=False)
    nd = len(sd['shape'])
    rshape = [o.pick('rs%d' % i, st.integers(1, 8)) for i in range(nd)]
    ik = o.pick('ikind', ('nearest', 'linear', 'peraxis'))
    interp = ik if ik != 'peraxis' else [
        o.pick('i%d' % i, ('nearest', 'linear')) for i in range(nd)]
    how = o.pick('how', ('op', 'op', 'inverse', 'adjoint'))
    rnob = o.flag('ran_nob')
    if o.pick('intvalues', (False, False, False, False, True), default=False):
        # integer value arrays (interpolation of those: F17 of C15)
        sd = dict(sd, dtype='int64')
        o.dom = 'int'
        o.opts['dtype'] = 'int'

    def mk():
        sp = B(sd)
        ran = odl.uniform_discr(sp.min_pt, sp.max_pt, rshape, dtype=sp.dtype,
                                nodes_on_bdry=rnob and min(rshape) > 1)
        op = odl.Resampling(sp, ran, interp)
        return op if how == 'op' else getattr(op, how)
    return mk


RESIZE_PAD = ['constant', 'symmetric', 'periodic', 'order0', 'order1']


@entry('ResizingOperator', 'discr', weight=3,
       classes=['ResizingOperator', 'ResizingOperatorAdjoint'])
def _resizing(o):
    sd = space(o, 'space', kinds=('discr', 'discr', 'cdiscr'), ndims=(1, 3),
               min_side=2, max_side=5, max_size=60, medium=False,
               weighted=False, nob=False)
    shape = sd['shape']
    pm = o.pick('pad_mode', RESIZE_PAD)
    pc = o.pick('pad_const', [0, 0, 2.0, -1.5]) if pm == 'constant' else 0
    rshape, offset = [], []
    for i, n in enumerate(shape):
        # per axis either padding or cropping (resize_array's contract);
        # documented limits: symmetric pads < n, periodic pads <= n
        mode = o.pick('m%d' % i, ('pad', 'pad', 'crop', 'same'))
        if mode == 'pad':
            maxpad = {'symmetric': n - 1, 'periodic': n}.get(pm, n + 2)
            left = o.pick('l%d' % i, st.integers(0, maxpad))
            right = o.pick('r%d' % i, st.integers(0, maxpad))
        elif mode == 'crop':
            left = -o.pick('l%d' % i, st.integers(0, n - 1))
            right = -o.pick('r%d' % i, st.integers(0, n - 1 + left))
        else:
            left = right = 0
        rshape.append(n + left + right)
        offset.append(abs(left))
    give = o.pick('give', ('ran_shp', 'ran_shp+offset', 'range'))
    how = o.pick('how', ('op', 'op', 'adjoint', 'derivative', 'adjadj'))
    # (a boundary node on both sides of a one-point axis is degenerate)
    nob = o.flag('discr_nob') and min(rshape) > 1
    def mk():
        sp = B(sd)
        kw = {'pad_mode': pm}
        if pm == 'constant':
            kw['pad_const'] = pc
        if give == 'range':
            cs = sp.cell_sides
            sgn = np.array([1 if r >= n else -1
                            for r, n in zip(rshape, shape)])
            mn = sp.min_pt - sgn * np.array(offset) * cs
            ran = odl.uniform_discr(mn, mn + np.array(rshape) * cs, rshape,
                                    dtype=sp.dtype)
            op = odl.ResizingOperator(sp, ran, **kw)
        elif give == 'ran_shp':
            if nob:
                kw['discr_kwargs'] = {'nodes_on_bdry': True}
            op = odl.ResizingOperator(sp, ran_shp=rshape, **kw)
        else:
            op = odl.ResizingOperator(sp, ran_shp=rshape, offset=offset,
                                      **kw)
        if how == 'adjoint' and op.is_linear:
            return op.adjoint
        if how == 'adjadj' and op.is_linear:
            return op.adjoint.adjoint
        if how == 'derivative':
            return op.derivative(sp.zero())
        return op
    return mk


# --- odl.ufunc_ops --------------------------------------------------------

from odl.util.ufuncs import UFUNCS  # noqa: E402

DOMS['posint'] = (1, 6)
_UF_DOM = {'arccos': 'unit', 'arcsin': 'unit', 'arctanh': 'unit',
           'log': 'pos', 'log2': 'pos', 'log10': 'pos', 'sqrt': 'pos',
           'log1p': 'pos', 'reciprocal': 'nz', 'arccosh': 'gt1',
           'power': 'pos', 'divide': 'nz', 'true_divide': 'nz',
           'floor_divide': 'nz', 'remainder': 'nz', 'mod': 'nz',
           'fmod': 'nz', 'exp': 'mod', 'expm1': 'mod', 'exp2': 'mod',
           'sinh': 'mod', 'cosh': 'mod', 'tan': 'unit', 'square': 'any',
           'logaddexp': 'mod', 'logaddexp2': 'mod'}
_UF_INT_DOM = {'power': 'nat', 'left_shift': 'nat', 'right_shift': 'nat',
               'divide': 'posint', 'true_divide': 'posint',
               'floor_divide': 'posint', 'remainder': 'posint',
               'mod': 'posint', 'fmod': 'posint', 'reciprocal': 'posint',
               'log': 'posint', 'log2': 'posint', 'log10': 'posint',
               'sqrt': 'posint', 'log1p': 'posint', 'arccosh': 'posint',
               'arccos': 'nat', 'arcsin': 'nat', 'arctanh': 'nat',
               'exp': 'nat', 'exp2': 'nat', 'expm1': 'nat', 'sinh': 'nat',
               'cosh': 'nat'}
for _d in ('arccos', 'arcsin', 'arctanh'):
    _UF_INT_DOM[_d] = 'zero'
DOMS['zero'] = (0, 0)
UFUNC_DERIV = ['sin', 'cos', 'tan', 'sqrt', 'square', 'log', 'exp',
               'reciprocal', 'sinh', 'cosh']


def _int_only(name):
    return 'shift' in name or 'bitwise' in name or name == 'invert'


def _uf_kinds(name, nin):
    """Space kinds a ufunc operator is documented to accept: real floats
    always, complex where NumPy has a complex loop, integers always (integer
    input is cast to the minimal matching float signature)."""
    if _int_only(name):
        return ['int']
    ins = [t.split('->')[0] for t in getattr(np, name).types]
    kinds = ['rn', 'rn', 'discr', 'int']
    if 'D' * nin in ins:
        kinds.append('cn')
    return kinds


def _make_ufunc_entry(name, nin, nout):
    @entry('ufunc.' + name, 'ufunc', classes=[name + '_op'])
    def _f(o):
        sd = space(o, 'space', kinds=_uf_kinds(name, nin), ndims=(1, 2),
                   weighted=True)
        isint = np.dtype(sd['dtype']).kind in 'iu'
        o.dom = (_UF_INT_DOM.get(name, 'int') if isint
                 else _UF_DOM.get(name, 'any'))
        if _is_cplx(sd) and o.dom == 'any':
            o.dom = 'mod'
        pair = o.flag('as_pair') and nin == 2

        def mk():
            sp = B(sd)
            return getattr(odl.ufunc_ops, name)(
                ProductSpace(sp, sp) if pair else sp)
        return mk

    if not _int_only(name) and nin == 1 and nout == 1:
        @entry('ufunc.' + name + '.func', 'ufuncfunc',
               classes=[name + '_func'])
        def _g(o):
            o.dom = _UF_DOM.get(name, 'any')
            how = o.pick('how', ('default', 'explicit'))
            return lambda: (getattr(odl.ufunc_ops, name)() if how == 'default'
                            else getattr(odl.ufunc_ops, name)(
                                odl.RealNumbers()))


for _name, _nin, _nout, _doc in UFUNCS:
    _make_ufunc_entry(_name, _nin, _nout)


@entry('ufunc.derivative', 'derivative', classes=['MultiplyOperator'])
def _uf_deriv(o):
    name = o.pick('name', UFUNC_DERIV)
    sd = space(o, 'space', kinds=('rn', 'discr'), weighted=True)
    seed = o.seed()

    def mk():
        sp = B(sd)
        pt = vec(sp, seed, {'sqrt': 'pos', 'log': 'pos', 'reciprocal': 'nz',
                            'tan': 'unit'}.get(name, 'mod'))
        return getattr(odl.ufunc_ops, name)(sp).derivative(pt)
    return mk


@entry('ufunc.func.gradient', 'gradient',
       classes=['FunctionalQuotient', 'ScalingFunctional',
                'FunctionalLeftScalarMult'])
def _uf_grad(o):
    name = o.pick('name', UFUNC_DERIV)
    o.dom = {'sqrt': 'pos', 'log': 'pos', 'reciprocal': 'nz',
             'tan': 'unit'}.get(name, 'mod')
    return lambda: getattr(odl.ufunc_ops, name)().gradient


@entry('ufunc.mixed-pair', 'ufunc', classes=['add_op'])
def _uf_mixed(o):
    """Two-argument ufunc on a product of two *different* spaces."""
    name = o.pick('name', ('add', 'multiply', 'maximum', 'less', 'power'))
    n = o.pick('n', st.integers(1, 5))
    o.dom = 'pos'
    return lambda: getattr(odl.ufunc_ops, name)(
        ProductSpace(odl.rn(n), odl.rn(n, dtype='float32')))


# --- expression classes of odl.operator.operator --------------------------

EXPR_KINDS = ['sum', 'comp', 'lscal', 'rscal', 'lvec', 'rvec', 'vecsum',
              'pwprod', 'neg', 'pow', 'div']


def expr(o, key, depth, linear=False, force=None, leaves=None):
    """Pick an endomorphism expression tree; returns f(space) -> operator."""
    if depth == 0:
        return endo(o, key, kinds=leaves, linear=linear)
    kinds = ['sum', 'comp', 'lscal', 'rscal', 'neg'] if linear else EXPR_KINDS
    k = force if force is not None else o.pick(key + '.x', kinds)
    a = expr(o, key + 'a', depth - 1, linear, leaves=leaves)
    b = expr(o, key + 'b', depth - 1, linear, leaves=leaves) \
        if k in ('sum', 'comp', 'pwprod') else None
    s = o.scalar(key + '.xs', nonzero=True)
    seed = o.pick(key + '.xseed', st.integers(0, 9999))
    n = o.pick(key + '.n', (3, 2, 3, 4, 1)) if k == 'pow' else 0
    tmp = o.pick(key + '.tmp', (False, False, True))
    direct = o.pick(key + '.direct', (False, True))

    def mk(sp):
        A = a(sp)
        Bop = b(sp) if b is not None else None
        v = vec(sp, seed)
        if k == 'sum':
            if direct:
                return odl.OperatorSum(A, Bop, sp.element() if tmp else None,
                                       sp.element() if tmp else None)
            return A + Bop
        if k == 'comp':
            if direct:
                return odl.OperatorComp(A, Bop, sp.element() if tmp else None)
            return A * Bop
        if k == 'lscal':
            return odl.OperatorLeftScalarMult(A, s) if direct else s * A
        if k == 'rscal':
            if direct:
                return odl.OperatorRightScalarMult(
                    A, s, sp.element() if tmp else None)
            return A * s
        if k == 'lvec':
            return odl.OperatorLeftVectorMult(A, v) if direct else v * A
        if k == 'rvec':
            return odl.OperatorRightVectorMult(A, v) if direct else A * v
        if k == 'vecsum':
            return odl.OperatorVectorSum(A, v) if direct else (
                A - v if tmp else A + v)
        if k == 'pwprod':
            return odl.OperatorPointwiseProduct(A, Bop)
        if k == 'neg':
            return -A
        if k == 'pow':
            return A ** max(n, 1)
        if k == 'div':
            return A / s
        raise HarnessError('unknown expression kind ' + k)
    return mk


def _expr_entry(kind, cls):
    @entry('expr.' + kind, 'expr', classes=[cls], weight=2)
    def _f(o):
        # every third case uses operands that are NOT alias-safe (stencils)
        # on a discretized space: a missing temporary becomes visible
        # (compositions and powers chain temporaries: two thirds there)
        unsafe = o.pick('unsafe', (False, True, True) if kind in (
            'pow', 'comp') else (False, False, True))
        if unsafe:
            sd = space(o, 'space', kinds=('discr',), min_side=3, max_side=6,
                       max_size=40, medium=False, weighted=False)
        else:
            sd = anyspace(o, 'space', kinds=('rn', 'discr', 'cn'),
                          medium=True)
        depth = o.pick('depth', (1, 1, 2))
        lin = o.flag('linear') and not unsafe and kind in (
            'sum', 'comp', 'lscal', 'rscal', 'neg')
        # the top-level node kind is fixed, the operands are drawn
        e = expr(o, 't', depth, lin, force=kind,
                 leaves=['pdiff', 'lapl', 'pdiff', 'scale', 'mult']
                 if unsafe else None)
        o.dom = 'mod'
        return lambda: e(B(sd))
    return _f


for _k, _c in [('sum', 'OperatorSum'), ('comp', 'OperatorComp'),
               ('lscal', 'OperatorLeftScalarMult'),
               ('rscal', 'OperatorRightScalarMult'),
               ('lvec', 'OperatorLeftVectorMult'),
               ('rvec', 'OperatorRightVectorMult'),
               ('vecsum', 'OperatorVectorSum'),
               ('pwprod', 'OperatorPointwiseProduct'),
               ('neg', 'OperatorLeftScalarMult'), ('pow', 'OperatorComp'),
               ('div', 'OperatorLeftScalarMult')]:
    _expr_entry(_k, _c)


@entry('expr.derived', 'expr', weight=3,
       classes=['OperatorSum', 'OperatorComp', 'OperatorLeftScalarMult',
                'OperatorRightScalarMult', 'OperatorLeftVectorMult',
                'OperatorRightVectorMult'])
def _expr_derived(o):
    """derivative(x) / adjoint / inverse of expression trees."""
    how = o.pick('how', ('derivative', 'adjoint', 'inverse'))
    # (MultiplyOperator.adjoint cannot conjugate on non-power complex
    # product spaces: adjoints are drawn on real spaces)
    sd = anyspace(o, 'space', kinds=('rn', 'discr') if how == 'adjoint'
                  else ('rn', 'discr', 'cn'), medium=False)
    depth = o.pick('depth', (1, 2))
    if how == 'derivative':
        e = expr(o, 't', depth, False)
    elif how == 'adjoint':
        e = expr(o, 't', depth, True)
    else:
        kinds = ['scale', 'ident', 'mult']
        a = endo(o, 'ia', kinds)
        b = endo(o, 'ib', kinds)
        ik = o.pick('ikind', ('comp', 'lscal', 'rscal', 'lvec', 'rvec'))
        s = o.scalar('is', nonzero=True)
        seed0 = o.seed('iseed')

        def e(sp):
            A, Bop = a(sp), b(sp)
            v = vec(sp, seed0, 'nz')
            return {'comp': lambda: A * Bop, 'lscal': lambda: s * A,
                    'rscal': lambda: A * s, 'lvec': lambda: v * A,
                    'rvec': lambda: A * v}[ik]()
    seed = o.seed()
    o.dom = 'mod'

    def mk():
        sp = B(sd)
        op = e(sp)
        if how == 'derivative':
            return op.derivative(vec(sp, seed, 'mod'))
        return getattr(op, how)
    return mk


@entry('expr.rect', 'expr', weight=2,
       classes=['OperatorComp', 'OperatorSum', 'OperatorLeftVectorMult',
                'OperatorRightVectorMult', 'OperatorVectorSum'])
def _expr_rect(o):
    """Expressions whose operands change the space (rn(n) -> rn(m))."""
    m = o.pick('m', st.integers(1, 5))
    n = o.pick('n', st.integers(1, 5))
    seed = o.seed()
    k = o.pick('k', ('comp', 'compL', 'sum', 'lvec', 'rvec', 'vecsum',
                     'lscal', 'rscal', 'adjcomp', 'func-lvec'))
    e = endo(o, 'e')
    s = o.scalar('s', nonzero=True)
    o.dom = 'mod'

    def mk():
        A = odl.MatrixOperator(_matrix(seed, m, n))
        A2 = odl.MatrixOperator(_matrix(seed + 1, m, n))
        if k == 'comp':
            return A * e(A.domain)
        if k == 'compL':
            return e(A.range) * A
        if k == 'sum':
            return A + A2
        if k == 'lvec':
            return vec(A.range, seed) * A
        if k == 'rvec':
            return A * vec(A.domain, seed)
        if k == 'vecsum':
            return A - vec(A.range, seed)
        if k == 'lscal':
            return s * A
        if k == 'rscal':
            return A * s
        if k == 'adjcomp':
            return A.adjoint * A2
        return vec(A.range, seed) * S.L2NormSquared(A.range) * A
    return mk


@entry('FunctionalLeftVectorMult', 'expr')
def _flvm(o):
    sd = anyspace(o, 'space', kinds=('rn', 'discr'), medium=False)
    rd = anyspace(o, 'ran', kinds=('rn', 'discr'), medium=True)
    fk = o.pick('f', ('l2sq', 'l1', 'inner', 'norm'))
    seed = o.seed()
    how = o.pick('how', ('op', 'op', 'derivative', 'adjoint'))
    direct = o.flag('direct')

    def mk():
        sp, ran = B(sd), B(rd)
        f = {'l2sq': lambda: S.L2NormSquared(sp), 'l1': lambda: S.L1Norm(sp),
             'inner': lambda: odl.InnerProductOperator(vec(sp, seed)),
             'norm': lambda: odl.NormOperator(sp)}[fk]()
        v = vec(ran, seed + 1)
        op = odl.FunctionalLeftVectorMult(f, v) if direct else v * f
        if how == 'derivative' and fk in ('l2sq', 'inner'):
            return op.derivative(vec(sp, seed + 2, 'nz'))
        if how == 'adjoint' and fk == 'inner':
            return op.adjoint
        return op
    return mk


# --- odl.trafos -----------------------------------------------------------

def _axes_pick(o, nd):
    ak = o.pick('axk', ('all', 'all', 'subset', 'neg'))
    if ak == 'all' or nd == 1:
        return None
    if ak == 'neg':
        return [-1]
    k = o.pick('naxes', st.integers(1, nd))
    return o.pick('axes', st.permutations(list(range(nd)))) [:k]


def _ft_space(o, real=True):
    sd = space(o, 'space', kinds=('cdiscr', 'discr') if real else
               ('cdiscr',), ndims=(1, 3), min_side=2, max_side=6,
               max_size=64, medium=False, weighted=False, nob=False,
               f32=False)
    return sd


@entry('DiscreteFourierTransform', 'trafo', weight=4,
       classes=['DiscreteFourierTransform',
                'DiscreteFourierTransformInverse'])
def _dft(o):
    sd = _ft_space(o)
    nd = len(sd['shape'])
    real = not _is_cplx(sd)
    impl = o.pick('impl', ('numpy', 'pyfftw'))
    axes = _axes_pick(o, nd)
    # (documented: no effect on complex domains)
    hc = o.flag('halfcomplex', default=False)
    sign = o.pick('sign', ('-', '-', '+')) if not (hc and real) else '-'
    how = o.pick('how', ('op', 'op', 'inverse', 'adjoint', 'invinv'))
    if real and not hc:
        # C18-F19b (known): the inverse of the r2c variant cannot be applied
        how = 'op'
    plan = o.flag('plan') and impl == 'pyfftw'
    f32 = o.flag('f32')
    o.opts['naxes'] = nd if axes is None else len(axes)
    o.opts['parity'] = 'odd' if sd['shape'][
        -1 if axes is None else axes[-1]] % 2 else 'even'
    o.dom = 'mod'

    def mk():
        sp = B(sd)
        if f32:
            sp = sp.astype('complex64' if sp.is_complex else 'float32')
        op = odl.trafos.DiscreteFourierTransform(
            sp, axes=axes, sign=sign, halfcomplex=hc, impl=impl)
        if how == 'invinv':
            op = op.inverse.inverse
        elif how != 'op':
            op = getattr(op, how)
        if plan:
            op.init_fftw_plan('estimate')
        return op
    return mk


@entry('DiscreteFourierTransformInverse', 'trafo', weight=2)
def _dft_inv(o):
    """The inverse class constructed directly from its range."""
    sd = _ft_space(o)
    nd = len(sd['shape'])
    real = not _is_cplx(sd)
    impl = o.pick('impl', ('numpy', 'pyfftw'))
    axes = _axes_pick(o, nd)
    hc = True if real else o.flag('hc', default=False)
    sign = '+' if real else o.pick('sign', ('+', '+', '-'))
    o.opts['naxes'] = nd if axes is None else len(axes)
    o.opts['halfcomplex'] = hc
    o.opts['parity'] = 'odd' if sd['shape'][
        -1 if axes is None else axes[-1]] % 2 else 'even'
    o.dom = 'mod'

    def mk():
        return odl.trafos.DiscreteFourierTransformInverse(
            B(sd), axes=axes, sign=sign, halfcomplex=hc, impl=impl)
    return mk


@entry('FourierTransform', 'trafo', weight=4,
       classes=['FourierTransform', 'FourierTransformInverse'])
def _ft(o):
    sd = _ft_space(o)
    nd = len(sd['shape'])
    real = not _is_cplx(sd)
    impl = o.pick('impl', ('numpy', 'pyfftw'))
    axes = _axes_pick(o, nd)
    na = nd if axes is None else len(axes)
    hc = o.flag('halfcomplex', default=True)
    sk = o.pick('shiftk', ('true', 'true', 'false', 'mixed'), default='true')
    shift = {'true': True, 'false': False}.get(sk)
    if shift is None:
        shift = [bool((i + o.pick('shift0', st.integers(0, 1))) % 2)
                 for i in range(na)]
    if real and hc and shift is not True:
        # documented: the halved (last transformed) axis must be shifted;
        # C18-F30b (known): an unshifted other axis gives wrong / failing
        # half-complex transforms
        shift = True
    sign = o.pick('sign', ('-', '-', '+')) if not (real and hc) else '-'
    how = o.pick('how', ('op', 'op', 'inverse', 'adjoint', 'invinv'))
    if real and not hc and shift is not True and impl == 'pyfftw':
        # C18-F30a (known): the inverse of this variant raises
        how = 'op'
    tmps = o.pick('tmps', ('none', 'none', 'create', 'plan'))
    o.opts['naxes'] = nd if axes is None else len(axes)
    o.opts['halfcomplex'] = hc and real
    o.dom = 'mod'

    def mk():
        kw = {}
        if axes is not None:
            kw['axes'] = axes
        op = odl.trafos.FourierTransform(B(sd), impl=impl, sign=sign,
                                         halfcomplex=hc, shift=shift, **kw)
        if tmps == 'create':
            op.create_temporaries()
        elif tmps == 'plan' and impl == 'pyfftw':
            op.init_fftw_plan('estimate')
        if how == 'invinv':
            return op.inverse.inverse
        return op if how == 'op' else getattr(op, how)
    return mk


WAVELETS = ['haar', 'db2', 'db3', 'sym2', 'coif1', 'bior1.3', 'rbio1.3']
WPAD = ['constant', 'symmetric', 'periodic', 'order0', 'order1', 'pywt_periodic',
        'reflect', 'antisymmetric', 'antireflect']


@entry('WaveletTransform', 'trafo', weight=3,
       classes=['WaveletTransform', 'WaveletTransformInverse'])
def _wavelet(o):
    sd = space(o, 'space', kinds=('discr', 'discr', 'cdiscr'), ndims=(1, 3),
               min_side=4, max_side=9, max_size=200, medium=False,
               weighted=False, nob=False, f32=True)
    wav = o.pick('wavelet', WAVELETS)
    nlev = o.pick('nlevels', (1, 1, 2, None))
    pm = o.pick('pad_mode', WPAD)
    how = o.pick('how', ('op', 'op', 'inverse', 'adjoint', 'invinv',
                         'direct_inverse'))
    axes = _axes_pick(o, len(sd['shape']))
    o.dom = 'mod'
    if nlev is None:
        # "maximum number of levels" can be zero for long filters on short
        # axes: the transform is then the identity (region tag)
        import pywt
        ax = range(len(sd['shape'])) if axes is None else axes
        if pywt.dwtn_max_level([sd['shape'][a] for a in ax], wav) == 0:
            o.opts['levels'] = 0

    def mk():
        sp = B(sd)
        kw = dict(wavelet=wav, nlevels=nlev, pad_mode=pm)
        if axes is not None:
            kw['axes'] = axes
        if how == 'direct_inverse':
            return odl.trafos.WaveletTransformInverse(sp, **kw)
        op = odl.trafos.WaveletTransform(sp, **kw)
        if how == 'invinv':
            return op.inverse.inverse
        return op if how == 'op' else getattr(op, how)
    return mk


# --- odl.deform, odl.tomo -------------------------------------------------

def _deform_space(o):
    return space(o, 'space', kinds=('discr',), ndims=(1, 2), min_side=3,
                 max_side=6, max_size=40, medium=False, weighted=False,
                 nob=False, f32=False)


def _interp_pick(o, nd):
    ik = o.pick('ikind', ('linear', 'nearest', 'peraxis'))
    if ik != 'peraxis':
        return ik
    return [o.pick('i%d' % i, ('nearest', 'linear')) for i in range(nd)]


@entry('LinDeformFixedTempl', 'deform', weight=2)
def _deform_templ(o):
    sd = _deform_space(o)
    interp = _interp_pick(o, len(sd['shape']))
    seed = o.seed()
    how = o.pick('how', ('op', 'op', 'derivative'))
    o.dom = 'tiny'

    def mk():
        sp = B(sd)
        op = odl.deform.LinDeformFixedTempl(vec(sp, seed), interp=interp)
        if how == 'derivative':
            return op.derivative(vec(op.domain, seed + 1, 'tiny'))
        return op
    return mk


@entry('LinDeformFixedDisp', 'deform', weight=2)
def _deform_disp(o):
    sd = _deform_space(o)
    interp = _interp_pick(o, len(sd['shape']))
    seed = o.seed()
    how = o.pick('how', ('op', 'op', 'inverse', 'adjoint'))
    o.dom = 'mod'

    def mk():
        sp = B(sd)
        op = odl.deform.LinDeformFixedDisp(
            vec(sp.tangent_bundle, seed, 'tiny'), interp=interp)
        return op if how == 'op' else getattr(op, how)
    return mk


@entry('RayTransform', 'tomo', slow=True,
       classes=['RayTransform', 'RayBackProjection'])
def _ray(o):
    n = o.pick('n', (4, 6, 8))
    nang = o.pick('nang', (3, 5, 6))
    ndet = o.pick('ndet', (8, 12))
    how = o.pick('how', ('op', 'op', 'adjoint', 'adjadj'))
    cache = o.flag('use_cache')
    f32 = o.flag('f32')
    o.dom = 'pos'

    def mk():
        sp = odl.uniform_discr([-1, -1], [1, 1], (n, n),
                               dtype='float32' if f32 else 'float64')
        geom = odl.tomo.parallel_beam_geometry(sp, nang, ndet)
        op = odl.tomo.RayTransform(sp, geom, impl='skimage',
                                   use_cache=cache)
        if how == 'adjadj':
            return op.adjoint.adjoint
        return op if how == 'op' else op.adjoint
    return mk


# --- functionals (odl.solvers.functional) ---------------------------------
# A functional spec is a function  g(o) -> (thunk, info)  where the thunk
# builds the functional and info = dict(dom=..., classes=[...]).

FUNCS = collections.OrderedDict()


def functional(name, classes=None, dom='mod', grad=True, prox=True,
               conj=True, sigma_elem=False):
    def deco(fn):
        FUNCS[name] = dict(fn=fn, classes=classes or [name], dom=dom,
                           grad=grad, prox=prox, conj=conj,
                           sigma_elem=sigma_elem)
        return fn
    return deco


def _fspace(o, pspace=True, **kw):
    kw.setdefault('kinds', ('rn', 'discr'))
    kw.setdefault('medium', True)
    return anyspace(o, 'space', pspace=pspace, **kw)


@functional('LpNorm', grad=False)
def _f_lp(o):
    # (proj_l1 behind the p=inf proximal works on tensor and power spaces)
    sd = _fspace(o, pspace='power')
    p = o.pick('p', [1, 2, float('inf'), 1.5, 3])
    return lambda: S.LpNorm(B(sd), p)


@functional('L1Norm', sigma_elem=True)
def _f_l1(o):
    sd = _fspace(o)
    return lambda: S.L1Norm(B(sd))


@functional('L2Norm')
def _f_l2(o):
    sd = _fspace(o)
    return lambda: S.L2Norm(B(sd))


@functional('L2NormSquared', sigma_elem=True)
def _f_l2sq(o):
    sd = _fspace(o)
    return lambda: S.L2NormSquared(B(sd))


@functional('LpNorm.inf', classes=['LpNorm'], grad=False)
def _f_linf(o):
    sd = _fspace(o, pspace='power')
    return lambda: S.LpNorm(B(sd), float('inf'))


@functional('GroupL1Norm')
def _f_gl1(o):
    vf = _vfspace(o, cplx_ok=False)
    p = o.pick('p', [None, 1, 2, 3, float('inf')])
    return lambda: S.GroupL1Norm(B(vf), p)


@functional('IndicatorGroupL1UnitBall', grad=False)
def _f_igl1(o):
    vf = _vfspace(o, cplx_ok=False)
    p = o.pick('p', [None, 2, float('inf'), 1])
    return lambda: S.IndicatorGroupL1UnitBall(B(vf), p)


@functional('IndicatorLpUnitBall', grad=False)
def _f_ilp(o):
    sd = _fspace(o, pspace='power')
    p = o.pick('p', [1, 2, float('inf'), 3])
    return lambda: S.IndicatorLpUnitBall(B(sd), p)


@functional('ConstantFunctional')
def _f_const(o):
    sd = _fspace(o)
    c = o.scalar('c')
    return lambda: S.ConstantFunctional(B(sd), c)


@functional('ZeroFunctional')
def _f_zero(o):
    sd = _fspace(o)
    return lambda: S.ZeroFunctional(B(sd))


@functional('ScalingFunctional', prox=False, conj=False)
def _f_scaling(o):
    s = o.scalar('s')
    return lambda: S.ScalingFunctional(odl.RealNumbers(), s)


@functional('IdentityFunctional', prox=False, conj=False)
def _f_ident(o):
    return lambda: S.IdentityFunctional(odl.RealNumbers())


@functional('IndicatorBox', grad=False, conj=False)
def _f_box(o):
    sd = _fspace(o)
    lk = o.pick('lower', ('none', 'scalar', 'elem'))
    uk = o.pick('upper', ('none', 'scalar', 'elem'))
    lo = o.pick('lo', [-1.0, 0.0, -0.5])
    hi = o.pick('hi', [1.0, 0.5, 2.0])
    seed = o.seed()

    def mk():
        sp = B(sd)
        lower = {'none': None, 'scalar': lo}.get(lk, 0)
        upper = {'none': None, 'scalar': hi}.get(uk, 0)
        if lk == 'elem':
            lower = param(vec(sp, seed, 'prob') - 1.0)
        if uk == 'elem':
            upper = param(vec(sp, seed + 1, 'prob') + 0.5)
        return S.IndicatorBox(sp, lower, upper)
    return mk


@functional('IndicatorNonnegativity', grad=False, conj=False)
def _f_nonneg(o):
    sd = _fspace(o)
    return lambda: S.IndicatorNonnegativity(B(sd))


@functional('IndicatorZero', grad=False)
def _f_izero(o):
    sd = _fspace(o)
    c = o.scalar('c')
    return lambda: S.IndicatorZero(B(sd), c)


def _kl(name, cls, dom):
    @functional(name, dom=dom)
    def _f(o):
        sd = _fspace(o, pspace=False)
        prior = o.flag('prior')
        seed = o.seed()

        def mk():
            sp = B(sd)
            return cls(sp, vec(sp, seed, 'pos') if prior else None)
        return mk


_kl('KullbackLeibler', S.KullbackLeibler, 'pos')
_kl('KullbackLeiblerConvexConj',
    S.functional.default_functionals.KullbackLeiblerConvexConj, 'prob')
_kl('KullbackLeiblerCrossEntropy', S.KullbackLeiblerCrossEntropy, 'pos')
_kl('KullbackLeiblerCrossEntropyConvexConj',
    S.functional.default_functionals.KullbackLeiblerCrossEntropyConvexConj,
    'unit')


@functional('SeparableSum')
def _f_sepsum(o):
    sd = space(o, 'space', kinds=('rn', 'discr'), medium=False)
    n = o.pick('n', st.integers(1, 3))
    kinds = [o.pick('k%d' % i, ('l1', 'l2', 'l2sq', 'const'))
             for i in range(n)]
    power = o.flag('power')

    def mk():
        sp = B(sd)
        mkf = {'l1': S.L1Norm, 'l2': S.L2Norm, 'l2sq': S.L2NormSquared,
               'const': lambda s: S.ConstantFunctional(s, 1.5)}
        if power:
            return S.SeparableSum(mkf[kinds[0]](sp), n)
        return S.SeparableSum(*[mkf[k](sp) for k in kinds])
    return mk


@functional('QuadraticForm', prox=False)
def _f_quad(o):
    n = o.pick('n', st.integers(1, 5))
    parts = o.pick('parts', ('op', 'vec', 'both'))
    c = o.scalar('c')
    seed = o.seed()

    def mk():
        sp = odl.rn(n)
        a = _matrix(seed, n, n)
        A = odl.MatrixOperator(a + a.T + 6 * np.eye(n)) \
            if parts != 'vec' else None
        v = vec(sp, seed) if parts != 'op' else None
        return S.QuadraticForm(A, v, c)
    return mk


def _matrix_space(o):
    base = space(o, 'space', kinds=('rn', 'discr'), medium=False,
                 weighted=False, max_size=8)
    n = o.pick('nrow', st.integers(1, 3))
    m = o.pick('ncol', st.integers(1, 3))
    return base, n, m


@functional('NuclearNorm', grad=False)
def _f_nuc(o):
    base, n, m = _matrix_space(o)
    oe = o.pick('outer', [1, 2, float('inf')])
    se = o.pick('sing', [1, 2, float('inf')])
    o.opts['matshape'] = 'wide' if n < m else 'tall'
    return lambda: S.NuclearNorm(ProductSpace(ProductSpace(B(base), m), n),
                                 oe, se)


@functional('IndicatorNuclearNormUnitBall', grad=False)
def _f_inuc(o):
    base, n, m = _matrix_space(o)
    oe = o.pick('outer', [1, 2, float('inf')])
    se = o.pick('sing', [1, 2, float('inf')])
    o.opts['matshape'] = 'wide' if n < m else 'tall'
    return lambda: S.IndicatorNuclearNormUnitBall(
        ProductSpace(ProductSpace(B(base), m), n), oe, se)


@functional('IndicatorSimplex', grad=False, conj=False)
def _f_simplex(o):
    sd = _fspace(o, pspace=False)
    d = o.scalar('diameter', positive=True)
    return lambda: S.IndicatorSimplex(B(sd), d)


@functional('IndicatorSumConstraint', grad=False, conj=False)
def _f_sumc(o):
    sd = _fspace(o, pspace=False)
    d = o.scalar('sum_value')
    return lambda: S.IndicatorSumConstraint(B(sd), d)


@functional('MoreauEnvelope', prox=False, conj=False)
def _f_moreau(o):
    sd = _fspace(o)
    fk = o.pick('f', ('l1', 'l2', 'l2sq'))
    sig = o.scalar('sigma', positive=True)

    def mk():
        sp = B(sd)
        f = {'l1': S.L1Norm, 'l2': S.L2Norm, 'l2sq': S.L2NormSquared}[fk](sp)
        return S.MoreauEnvelope(f, sig)
    return mk


@functional('Huber')
def _f_huber(o):
    # (vector-field Huber is F11's known region: scalar fields only)
    sd = _fspace(o, pspace=False, weighted=False)
    g = o.pick('gamma', [0.1, 0.5, 2.0])
    return lambda: S.Huber(B(sd), g)


@functional('RosenbrockFunctional', prox=False, conj=False)
def _f_rosen(o):
    n = o.pick('n', st.integers(2, 6))
    sc = o.pick('scale', [1.0, 100.0, 2.5])
    return lambda: S.RosenbrockFunctional(odl.rn(n), sc)


# derived functionals -------------------------------------------------------

def _base_f(o, key='b', smooth=False):
    """A small pool of base functionals on a given space."""
    k = o.pick(key + '.f', ('l2sq', 'l2sq', 'l1', 'l2', 'huber')
               if not smooth else ('l2sq',))

    def mk(sp):
        if k == 'huber' and not isinstance(sp, ProductSpace) and \
                not sp.is_weighted:
            return S.Huber(sp, 0.5)
        return {'l1': S.L1Norm, 'l2': S.L2Norm}.get(k, S.L2NormSquared)(sp)
    return mk


def _derived(name, cls, make, grad=True, prox=True, conj=True, dom='mod',
             pspace=True):
    @functional(name, classes=[cls], grad=grad, prox=prox, conj=conj,
                dom=dom)
    def _f(o):
        sd = _fspace(o, pspace=pspace, medium=False)
        b = _base_f(o)
        s = o.scalar('s', positive=True)
        c = o.scalar('c')
        seed = o.seed()
        e = endo(o, 'e', ['scale', 'mult', 'ident', 'sin', 'vecsum'])

        def mk():
            sp = B(sd)
            return make(b(sp), sp, s, c, seed, e)
        return mk


_derived('FunctionalLeftScalarMult', 'FunctionalLeftScalarMult',
         lambda f, sp, s, c, seed, e: s * f)
_derived('FunctionalRightScalarMult', 'FunctionalRightScalarMult',
         lambda f, sp, s, c, seed, e: f * (c if c != 0 else 2.0))
_derived('FunctionalComp', 'FunctionalComp',
         lambda f, sp, s, c, seed, e: f * e(sp), prox=False, conj=False)
_derived('FunctionalRightVectorMult', 'FunctionalRightVectorMult',
         lambda f, sp, s, c, seed, e: f * vec(sp, seed, 'nz'), prox=False)
_derived('FunctionalSum', 'FunctionalSum',
         lambda f, sp, s, c, seed, e: f + S.L2NormSquared(sp), prox=False,
         conj=False)
_derived('FunctionalScalarSum', 'FunctionalScalarSum',
         lambda f, sp, s, c, seed, e: f + c)
_derived('FunctionalTranslation', 'FunctionalTranslation',
         lambda f, sp, s, c, seed, e: f.translated(vec(sp, seed)))
_derived('InfimalConvolution', 'InfimalConvolution',
         lambda f, sp, s, c, seed, e: S.InfimalConvolution(
             f, S.L2NormSquared(sp)), grad=False, prox=False)
_derived('FunctionalQuadraticPerturb', 'FunctionalQuadraticPerturb',
         lambda f, sp, s, c, seed, e: S.FunctionalQuadraticPerturb(
             f, quadratic_coeff=s if seed % 3 else 0,
             linear_term=vec(sp, seed) if seed % 2 else None, constant=c))
_derived('FunctionalProduct', 'FunctionalProduct',
         lambda f, sp, s, c, seed, e: S.FunctionalProduct(
             f, S.L2NormSquared(sp)), prox=False, conj=False)
_derived('FunctionalQuotient', 'FunctionalQuotient',
         lambda f, sp, s, c, seed, e: S.FunctionalQuotient(
             f, S.L2NormSquared(sp) + 1.0), prox=False, conj=False)
_derived('FunctionalDefaultConvexConjugate',
         'FunctionalDefaultConvexConjugate',
         lambda f, sp, s, c, seed, e: S.functional.functional.FunctionalDefaultConvexConjugate(f),
         grad=False)
_derived('BregmanDistance', 'BregmanDistance',
         lambda f, sp, s, c, seed, e: S.BregmanDistance(
             S.L2NormSquared(sp) if seed % 2 else S.L1Norm(sp),
             vec(sp, seed, 'nz'),
             (S.L2NormSquared(sp) if seed % 2 else
              S.L1Norm(sp)).gradient(vec(sp, seed, 'nz'))))
_derived('SimpleFunctional', 'SimpleFunctional',
         lambda f, sp, s, c, seed, e: S.functional.functional.simple_functional(
             sp, fcall=lambda x: x.norm() ** 2,
             grad=odl.ScalingOperator(sp, 2.0),
             prox=lambda sig: odl.ScalingOperator(sp, 1 / (1 + 2 * sig)),
             convex_conj_fcall=lambda x: x.norm() ** 2 / 4,
             convex_conj_grad=odl.ScalingOperator(sp, 0.5),
             convex_conj_prox=lambda sig: odl.ScalingOperator(
                 sp, 1 / (1 + sig / 2))))


GRADIENT_CLASSES = ['L1Gradient', 'L2Gradient', 'GroupL1Gradient',
                    'KLGradient', 'KLCCGradient', 'KLCrossEntropyGradient',
                    'KLCrossEntCCGradient', 'HuberGradient',
                    'FunctionalCompositionGradient',
                    'FunctionalProductGradient', 'FunctionalQuotientGradient',
                    'RosenbrockGradient', 'SimpleFunctionalGradient',
                    'SimpleFunctionalConvexConjGradient']


def sigma_pick(o, elem_ok):
    """Step size: positive scalar, or (where documented) element-valued."""
    sk = o.pick('sigma.kind', ('scalar', 'scalar', 'elem') if elem_ok
                else ('scalar',))
    sig = o.scalar('sigma', positive=True)
    seed = o.pick('sigma.seed', st.integers(0, 9999))

    def mk(sp):
        if sk == 'elem':
            return vec(sp, seed, 'pos')
        return sig
    return mk, sk


def _make_functional_entries(name, spec):
    @entry('func.' + name, 'functional', classes=spec['classes'])
    def _f(o):
        thunk = spec['fn'](o)
        how = o.pick('how', ('f', 'f', 'conj')) if spec['conj'] else 'f'
        o.dom = spec['dom'] if how == 'f' else 'prob'
        return lambda: thunk() if how == 'f' else thunk().convex_conj

    if spec['grad']:
        @entry('grad.' + name, 'gradient', classes=spec['classes'])
        def _g(o):
            thunk = spec['fn'](o)
            how = o.pick('how', ('grad', 'grad', 'grad', 'conjgrad',
                                 'gradderiv'))
            if not spec['conj'] and how == 'conjgrad':
                how = 'grad'
            if name in ('ScalingFunctional', 'IdentityFunctional'):
                how = 'grad'    # Functional.derivative needs a vector space
            o.dom = spec['dom'] if how != 'conjgrad' else 'prob'
            seed = o.seed('gseed')

            def mk():
                f = thunk()
                if how == 'conjgrad':
                    return f.convex_conj.gradient
                g = f.gradient
                if how == 'gradderiv':
                    return g.derivative(vec(g.domain, seed, spec['dom']))
                return g
            return mk

    if spec['prox']:
        @entry('fprox.' + name, 'funcprox', classes=spec['classes'],
               c10=True)
        def _p(o):
            thunk = spec['fn'](o)
            how = o.pick('how', ('prox', 'prox', 'conjprox')) \
                if spec['conj'] else 'prox'
            sig, sk = sigma_pick(o, spec['sigma_elem'] and how == 'prox')
            o.dom = spec['dom'] if how == 'prox' else 'mod'
            if name.startswith('KullbackLeibler') and how == 'conjprox':
                o.dom = 'pos'

            def mk():
                f = thunk()
                if how == 'conjprox':
                    f = f.convex_conj
                return f.proximal(sig(f.domain))
            return mk


for _n, _spec in FUNCS.items():
    _make_functional_entries(_n, _spec)


@entry('NumericalGradient', 'gradient')
def _numgrad(o):
    # (the implementation indexes flat: one-dimensional spaces only)
    sd = space(o, 'space', kinds=('rn', 'discr'), medium=False, ndims=(1, 1))
    meth = o.pick('method', METHODS)
    step = o.pick('step', (None, 1e-3))
    fk = o.pick('f', ('l2sq', 'l1', 'l2'))
    how = o.pick('how', ('op', 'op', 'derivative'))
    seed = o.seed()

    def mk():
        sp = B(sd)
        f = {'l1': S.L1Norm, 'l2': S.L2Norm, 'l2sq': S.L2NormSquared}[fk](sp)
        op = S.NumericalGradient(f, method=meth, step=step)
        if how == 'derivative':
            return op.derivative(vec(sp, seed))
        return op
    return mk


@entry('NumericalDerivative', 'gradient')
def _numderiv(o):
    sd = space(o, 'space', kinds=('rn', 'discr'), medium=False)
    meth = o.pick('method', METHODS)
    step = o.pick('step', (None, 1e-3))
    e = endo(o, 'e', ['sin', 'exp', 'square', 'scale', 'mult'])
    seed = o.seed()

    def mk():
        sp = B(sd)
        return S.NumericalDerivative(e(sp), vec(sp, seed), method=meth,
                                     step=step)
    return mk


# --- proximal factories (odl.solvers.nonsmooth.proximal_operators) --------

def _prox_common(o, space_kw=None, pspace=True, vf=False, elem_ok=False,
                 g_ok=True, lam_ok=True, g_dom='mod'):
    if vf:
        sd = _vfspace(o, cplx_ok=False)
    else:
        kw = dict(kinds=('rn', 'discr'), medium=True)
        kw.update(space_kw or {})
        sd = anyspace(o, 'space', pspace=pspace, **kw)
    lam = o.scalar('lam', positive=True) if lam_ok else 1
    with_g = o.flag('g') if g_ok else False
    gseed = o.seed('gseed')
    sig, sk = sigma_pick(o, elem_ok)
    o.opts['variant'] = ('g' if with_g else 'nog') + ',' + sk
    o.dom = 'mod'

    def parts():
        sp = B(sd)
        g = vec(sp, gseed, g_dom) if with_g else None
        return sp, lam, g, sig(sp)
    return parts


def _prox_entry(fname, cls, **kw):
    @entry('prox.' + fname, 'prox', classes=[cls], c10=True, weight=2)
    def _f(o):
        parts = _prox_common(o, **kw)

        def mk():
            sp, lam, g, sig = parts()
            fac = getattr(PO, fname)
            if kw.get('g_ok', True):
                return fac(sp, lam=lam, g=g)(sig)
            return fac(sp)(sig)
        return mk


_prox_entry('proximal_l1', 'ProximalL1', elem_ok=True)
_prox_entry('proximal_convex_conj_l1', 'ProximalConvexConjL1', elem_ok=True)
_prox_entry('proximal_l2', 'ProximalL2')
_prox_entry('proximal_convex_conj_l2', 'OperatorSum')
_prox_entry('proximal_l2_squared', 'ProximalL2Squared', elem_ok=True)
_prox_entry('proximal_convex_conj_l2_squared', 'ProximalConvexConjL2Squared',
            elem_ok=True)
_prox_entry('proximal_l1_l2', 'ProximalL1L2', vf=True)
_prox_entry('proximal_convex_conj_l1_l2', 'ProximalConvexConjL1L2', vf=True)
# (proj_l1 / proj_simplex work on power spaces, not on general products)
_prox_entry('proximal_linfty', 'ProximalLInfty', pspace='power', g_ok=False,
            lam_ok=False)
_prox_entry('proximal_convex_conj_linfty', 'ProximalConvexConjLinfty',
            pspace='power', g_ok=False, lam_ok=False)
_prox_entry('proximal_convex_conj_kl', 'ProximalConvexConjKL', pspace=False,
            g_dom='pos')
_prox_entry('proximal_convex_conj_kl_cross_entropy',
            'ProximalConvexConjKLCrossEntropy', pspace=False, g_dom='pos')
_prox_entry('proximal_const_func', 'IdentityOperator', g_ok=False,
            lam_ok=False)
_prox_entry('proximal_nonnegativity', 'ProxOpBoxConstraint', g_ok=False,
            lam_ok=False)


@entry('prox.proximal_box_constraint', 'prox',
       classes=['ProxOpBoxConstraint'], c10=True, weight=2)
def _prox_box(o):
    sd = anyspace(o, 'space', kinds=('rn', 'discr'), pspace=False)
    lk = o.pick('lower', ('none', 'scalar', 'elem'))
    uk = o.pick('upper', ('none', 'scalar', 'elem'))
    lo = o.pick('lo', [-1.0, 0.0, -0.5])
    hi = o.pick('hi', [1.0, 0.5, 2.0])
    seed = o.seed()
    o.opts['variant'] = lk + '/' + uk
    o.dom = 'mod'

    def mk():
        sp = B(sd)
        lower = {'none': None, 'scalar': lo}.get(lk, 0)
        upper = {'none': None, 'scalar': hi}.get(uk, 0)
        if lk == 'elem':
            lower = param(vec(sp, seed, 'prob') - 1.0)
        if uk == 'elem':
            upper = param(vec(sp, seed + 1, 'prob') + 0.5)
        return PO.proximal_box_constraint(sp, lower, upper)(1.0)
    return mk


@entry('prox.proximal_huber', 'prox', classes=['ProximalHuber'], c10=True,
       weight=2)
def _prox_huber(o):
    # scalar fields only (vector fields: F11's known region)
    sd = anyspace(o, 'space', kinds=('rn', 'discr'), pspace=False,
                  weighted=False)
    gamma = o.pick('gamma', [0.1, 0.5, 2.0, 0.0])
    sig = o.scalar('sigma', positive=True)
    o.opts['variant'] = 'scalar'
    o.dom = 'mod'
    return lambda: PO.proximal_huber(B(sd), gamma)(sig)


BASE_PROX = ['l1', 'l2', 'l2sq', 'ccl1', 'ccl2sq', 'box', 'linf']
# base factories documented to accept element-valued steps
ELEM_STEP_PROX = ['l1', 'l2sq', 'ccl1', 'ccl2sq']


def _base_prox_factory(k, sp, lam, g):
    if isinstance(sp, ProductSpace) and not sp.is_power_space and \
            k == 'linf':
        k = 'l2'
    return {'l1': lambda: PO.proximal_l1(sp, lam, g),
            'l2': lambda: PO.proximal_l2(sp, lam, g),
            'l2sq': lambda: PO.proximal_l2_squared(sp, lam, g),
            'ccl1': lambda: PO.proximal_convex_conj_l1(sp, lam, g),
            'ccl2sq': lambda: PO.proximal_convex_conj_l2_squared(sp, lam, g),
            'box': lambda: PO.proximal_box_constraint(sp, -0.5, 1.0),
            'linf': lambda: PO.proximal_linfty(sp)}[k]()


def _calc_entry(rule, classes):
    @entry('prox.' + rule, 'prox', classes=classes, c10=True, weight=2)
    def _f(o):
        # element-valued steps where the rule hands the step on to the base
        # factory ("a pointwise positive space element ... if prox_factory
        # supports that")
        elem_rule = rule in ('proximal_convex_conj', 'proximal_translation')
        parts = _prox_common(o, pspace=(rule != 'proximal_composition'),
                             elem_ok=elem_rule)
        bk = o.pick('base', BASE_PROX)
        bk2 = o.pick('base2', BASE_PROX)
        s = o.scalar('s', nonzero=True)
        sk = o.pick('scaling.kind', ('scalar', 'scalar', 'zero', 'array'))
        a = o.pick('a', [0.0, 0.5, 2.0])
        with_u = o.flag('u')
        seed = o.seed()
        persig = o.flag('per_component_sigma')
        o.opts['variant'] = o.opts['variant'] + ',' + bk

        def mk():
            sp, lam, g, sig = parts()
            bk_ = bk
            if not np.isscalar(sig) and bk not in ELEM_STEP_PROX:
                bk_ = ELEM_STEP_PROX[BASE_PROX.index(bk) %
                                     len(ELEM_STEP_PROX)]
            fac = _base_prox_factory(bk_, sp, lam, g)
            if rule == 'proximal_convex_conj':
                return PO.proximal_convex_conj(fac)(sig)
            if rule == 'proximal_translation':
                return PO.proximal_translation(fac, vec(sp, seed))(sig)
            if rule == 'proximal_arg_scaling':
                if sk == 'zero':
                    sc = 0.0
                elif sk == 'array' and not isinstance(sp, ProductSpace) \
                        and bk in ('l1', 'l2sq', 'ccl1', 'ccl2sq'):
                    # element-valued scaling needs a factory that accepts
                    # element-valued steps
                    sc = vec(sp, seed, 'pos').asarray()
                else:
                    sc = s
                return PO.proximal_arg_scaling(fac, sc)(sig)
            if rule == 'proximal_quadratic_perturbation':
                u = vec(sp, seed) if with_u else None
                return PO.proximal_quadratic_perturbation(fac, a, u)(sig)
            if rule == 'proximal_composition':
                # unitary up to scaling: L = s * I, L^* L = s^2 I
                L = odl.ScalingOperator(sp, s)
                return PO.proximal_composition(fac, L, s * s)(sig)
            if rule == 'combine_proximals':
                fac2 = _base_prox_factory(bk2, sp, lam, None)
                comb = PO.combine_proximals(fac, fac2)
                if persig and np.isscalar(sig):
                    return comb([sig, 0.5 * sig])
                return comb(sig if np.isscalar(sig) else 1.0)
            raise HarnessError(rule)
        return mk


_calc_entry('proximal_convex_conj', ['OperatorSum', 'OperatorComp'])
_calc_entry('proximal_translation', ['OperatorSum', 'OperatorComp',
                                     'ConstantOperator'])
_calc_entry('proximal_arg_scaling', ['OperatorComp', 'MultiplyOperator'])
_calc_entry('proximal_quadratic_perturbation', ['OperatorComp',
                                                'OperatorVectorSum'])
_calc_entry('proximal_composition', ['OperatorSum'])
_calc_entry('combine_proximals', ['DiagonalOperator'])


@entry('proj_l1', 'prox', classes=['ProximalConvexConjLinfty'], c10=False)
def _proj(o):
    """proj_l1 / proj_simplex are plain functions; reached through the
    conj-Linfty proximal and IndicatorSimplex (see fprox.*)."""
    sd = anyspace(o, 'space', kinds=('rn', 'discr'), pspace=False)
    o.dom = 'mod'
    return lambda: PO.proximal_convex_conj_linfty(B(sd))(1.0)


# --- solver building blocks applied in place (C10 only) -------------------

SAFE_LEAVES = ['scale', 'ident', 'mult', 'const', 'zero', 'vecsum']


class ElemDivide(Operator):
    """``data.divide(x, out=out)`` as OS-MLEM applies it to its temporary
    (harness-side wrapper around the element method)."""

    def __init__(self, data):
        super(ElemDivide, self).__init__(data.space, data.space)
        self.data = data

    def _call(self, x, out):
        self.data.divide(x, out=out)


class ElemMaximum(Operator):
    """``x.ufuncs.maximum(eps, out=out)`` (OS-MLEM)."""

    def __init__(self, spc, eps):
        super(ElemMaximum, self).__init__(spc, spc)
        self.eps = eps

    def _call(self, x, out):
        x.ufuncs.maximum(self.eps, out=out)


class ElemLincomb(Operator):
    """``out.lincomb(a, x, b, y)`` with the iterate as output (prox-DCA)."""

    def __init__(self, a, b, y):
        super(ElemLincomb, self).__init__(y.space, y.space)
        self.a, self.b, self.y = a, b, y

    def _call(self, x, out):
        out.lincomb(self.a, x, self.b, self.y)


@entry('elem.divide', 'solverblock', classes=['ElemDivide'], c03=False,
       c10=True)
def _elem_divide(o):
    sd = space(o, 'space', kinds=('rn', 'discr'))
    seed = o.seed()
    o.dom = 'nz'
    return lambda: ElemDivide(vec(B(sd), seed))


@entry('elem.maximum', 'solverblock', classes=['ElemMaximum'], c03=False,
       c10=True)
def _elem_maximum(o):
    sd = space(o, 'space', kinds=('rn', 'discr'))
    eps = o.pick('eps', [1e-8, 0.5, 0.0])
    o.dom = 'mod'
    return lambda: ElemMaximum(B(sd), eps)


@entry('elem.lincomb', 'solverblock', classes=['ElemLincomb'], c03=False,
       c10=True)
def _elem_lincomb(o):
    sd = anyspace(o, 'space', kinds=('rn', 'discr'))
    a = o.scalar('a')
    b = o.scalar('b')
    seed = o.seed()
    o.dom = 'mod'
    return lambda: ElemLincomb(a, b, vec(B(sd), seed))


@entry('alias.LinCombOperator', 'solverblock', classes=['LinCombOperator'],
       c03=False, c10=True)
def _alias_lincomb(o):
    sd = anyspace(o, 'space', kinds=('rn', 'discr', 'cn'))
    a = o.scalar('a')
    b = o.scalar('b')
    o.opts['alias_part'] = o.pick('part', (0, 1))
    o.dom = 'mod'
    return lambda: odl.LinCombOperator(B(sd), a, b)


@entry('alias.expr', 'solverblock', c03=False, c10=True, weight=4,
       classes=['OperatorSum', 'OperatorComp', 'OperatorLeftScalarMult',
                'OperatorRightScalarMult', 'OperatorLeftVectorMult',
                'OperatorRightVectorMult', 'OperatorVectorSum',
                'OperatorPointwiseProduct'])
def _alias_expr(o):
    """Expression classes over alias-safe leaves (scaling, multiplication,
    constants, translations, proximals)."""
    sd = anyspace(o, 'space', kinds=('rn', 'discr'))
    depth = o.pick('depth', (1, 1, 2))
    e = expr(o, 't', depth, leaves=SAFE_LEAVES + ['prox'])
    o.opts['variant'] = o.opts.get('t.x')
    o.dom = 'mod'
    return lambda: e(B(sd))


# --------------------------------------------------------------------------
# aliased call sites of the shipped solvers (AST scan, C10)

def aliased_call_sites():
    """Calls in ``odl/solvers`` whose ``out=`` argument is (a) the first
    positional argument itself, (b) the object whose ``lincomb`` result is
    the first argument (``P(x.lincomb(...), out=x)``), or (c) the object the
    called method belongs to (``x.ufuncs.maximum(eps, out=x)``)."""
    root = os.path.join(odl_root(), 'odl', 'solvers')
    sites = []
    for dirpath, _, files in sorted(os.walk(root)):
        for fn in sorted(files):
            if not fn.endswith('.py'):
                continue
            path = os.path.join(dirpath, fn)
            with open(path) as f:
                try:
                    tree = ast.parse(f.read())
                except SyntaxError:
                    continue
            for node in ast.walk(tree):
                if not isinstance(node, ast.Call):
                    continue
                outs = [k.value for k in node.keywords if k.arg == 'out']
                if not outs:
                    continue
                out = ast.unparse(outs[0])
                mode = None
                if node.args and ast.unparse(node.args[0]) == out:
                    mode = 'direct'
                elif node.args and isinstance(node.args[0], ast.Call) and \
                        isinstance(node.args[0].func, ast.Attribute) and \
                        node.args[0].func.attr == 'lincomb' and \
                        ast.unparse(node.args[0].func.value) == out:
                    mode = 'lincomb'
                else:
                    base = node.func
                    while isinstance(base, ast.Attribute):
                        base = base.value
                        if ast.unparse(base) == out:
                            mode = 'self'
                            break
                if mode is None:
                    continue
                callee = ast.unparse(node.func)
                if 'prox' in callee:
                    cat = 'proximal'
                elif callee.endswith('.divide') or callee.endswith(
                        '.multiply'):
                    cat = 'elem.divide'
                elif '.ufuncs.' in callee:
                    cat = 'elem.ufunc'
                elif callee.endswith('.lincomb'):
                    cat = 'elem.lincomb'
                else:
                    cat = 'other'
                sites.append((os.path.relpath(path, odl_root()),
                              node.lineno, callee, mode, cat))
    return sites


SITE_FAMILIES = {'proximal': ('prox', 'funcprox'),
                 'elem.divide': ('solverblock',),
                 'elem.ufunc': ('solverblock',),
                 'elem.lincomb': ('solverblock',)}


# --------------------------------------------------------------------------
# operators whose out-of-place result shares memory with the input

def _all_leaves(x, spc):
    if isinstance(spc, Field):
        return []
    return [np.asarray(a) for a, _ in flat.leaf_arrays(x, spc)]


def result_shares_memory(op, x):
    """True if ``op(x)`` is ``x`` itself or a view of (part of) ``x``."""
    if isinstance(op.domain, Field) or isinstance(op.range, Field):
        return False
    r = op(x)
    if r is x:
        return True
    xs = _all_leaves(x, op.domain)
    return any(np.shares_memory(a, b)
               for a in _all_leaves(r, op.range) for b in xs)


def shares_memory(r, ran, x, dom):
    """True if the element ``r`` of ``ran`` is ``x`` or shares memory with
    the element ``x`` of ``dom``."""
    if isinstance(dom, Field) or isinstance(ran, Field):
        return False
    if r is x:
        return True
    xs = _all_leaves(x, dom)
    return any(np.shares_memory(a, b)
               for a in _all_leaves(r, ran) for b in xs)


# entries whose out-of-place result is documented / known to be a view of the
# argument (np.ravel / np.reshape); for every other catalogue operator the
# result must not share memory with x
VIEW_ALLOWED = ('FlatteningOperator',)

_VIEW_POOL = []


def get_view_pool():
    """Names of the catalogue entries for which some drawn configuration
    returns a view of its argument; determined once per process by probing
    every C03 entry (2 seeded draws each, 8 for the data-movement families)
    with ``np.shares_memory``."""
    if _VIEW_POOL:
        return _VIEW_POOL[0]

    @st.composite
    def probe_case(draw, name):
        od = draw(entry_descs(name))
        return {'op': od, 'x': draw(point_descs(od['dom'], orders=('C',)))}

    names = [n for n, e in ENTRIES.items()
             if e.c03 and e.family not in ('expr',) and
             not n.startswith('expr.view')]
    pool = []
    with np.errstate(all='ignore'):
        for name in names:
            # data-movement families get more draws (views depend on the
            # drawn space kind / variant)
            many = ENTRIES[name].family in ('default', 'tensor', 'pspace',
                                            'discr')
            for d in sweep(lambda n: probe_case(n), [name],
                           per_entry=8 if many else 2, seed=777):
                try:
                    op, _ = build_op(d['op'])
                    if result_shares_memory(op, point(op.domain, d['x'])):
                        pool.append(name)
                        break
                except Exception:  # noqa
                    continue
    _VIEW_POOL.append(pool)
    return pool


VIEW_FALLBACK = ['FlatteningOperator', 'RealPart', 'ImagPart']
VIEW_EXPR_KINDS = ['sum-left', 'sum-right', 'sum-self', 'vecsum', 'vecdiff',
                   'lscal', 'rscal', 'lvec', 'rvec', 'pwprod', 'neg', 'div',
                   'comp-outer', 'comp-inner', 'comp-inner-vecsum',
                   'fcomp', 'fsum', 'fscalarsum', 'flscal', 'frscal', 'flvm']


@entry('expr.viewoperand', 'expr', weight=20,
       classes=['OperatorSum', 'OperatorVectorSum', 'OperatorComp',
                'OperatorLeftScalarMult', 'OperatorRightScalarMult',
                'OperatorLeftVectorMult', 'OperatorRightVectorMult',
                'OperatorPointwiseProduct', 'FunctionalComp',
                'FunctionalSum', 'FunctionalScalarSum',
                'FunctionalLeftScalarMult', 'FunctionalRightScalarMult',
                'FunctionalLeftVectorMult'])
def _expr_view(o):
    """Expression classes around an operand whose out-of-place result is a
    view of (or identical to) its argument: an expression class that
    accumulates into what an operand returned overwrites the caller's x."""
    # (should no catalogued operator return views any more, the historical
    # candidates keep the expression classes exercised)
    name = o.pick('operand', (get_view_pool() or VIEW_FALLBACK)
                  if o.draw is not None else ())
    c = o.child('v')
    vthunk = ENTRIES[name].func(c)
    k = o.pick('kind', VIEW_EXPR_KINDS)
    s = o.scalar('s', nonzero=True)
    seed = o.seed()
    direct = o.flag('direct')
    o.dom = c.dom
    o.opts['variant'] = k

    def mk():
        V = vthunk()
        dom, ran = V.domain, V.range
        if isinstance(dom, Field) or isinstance(ran, Field):
            raise NotImplementedError('operand without vector range')
        v_ran, v_dom = vec(ran, seed), vec(dom, seed + 1)
        P = odl.ConstantOperator(vec(ran, seed + 2), domain=dom, range=ran)

        def f():
            # (a real-valued functional: FunctionalComp takes its range from
            # the field of V.domain, which may differ from that of V.range)
            return S.L2Norm(ran) * V

        op = {
            'sum-left': lambda: odl.OperatorSum(V, P) if direct else V + P,
            'sum-right': lambda: odl.OperatorSum(P, V) if direct else P + V,
            'sum-self': lambda: V + V,
            'vecsum': lambda: odl.OperatorVectorSum(V, v_ran) if direct
            else V + v_ran,
            'vecdiff': lambda: V - v_ran,
            'lscal': lambda: s * V,
            'rscal': lambda: V * s,
            'lvec': lambda: v_ran * V,
            'rvec': lambda: V * v_dom,
            'pwprod': lambda: odl.OperatorPointwiseProduct(V, P),
            'neg': lambda: -V,
            'div': lambda: V / s,
            'comp-outer': lambda: V * odl.ScalingOperator(dom, s),
            'comp-inner': lambda: odl.ScalingOperator(ran, s) * V,
            'comp-inner-vecsum': lambda: (odl.IdentityOperator(ran) -
                                          v_ran) * V,
            'fcomp': f,
            'fsum': lambda: f() + f(),
            'fscalarsum': lambda: f() + s,
            'flscal': lambda: abs(s) * f(),
            'frscal': lambda: f() * s,
            'flvm': lambda: v_dom * f(),
        }[k]()
        op._verif_view_operand = V
        return op
    return mk


# --------------------------------------------------------------------------
# operands that implement only the out-of-place `_call(self, x)`

class UserOopOperator(Operator):
    """User-style operator written with ``_call(self, x)`` only (the in-place
    call goes through the default bridging of `Operator`)."""

    def __init__(self, spc, shift, scale):
        super(UserOopOperator, self).__init__(spc, spc, linear=False)
        self.shift, self.scale = shift, scale

    def _call(self, x):
        return self.scale * x + self.shift


@entry('user.oop-only', 'solverblock', classes=['UserOopOperator'], c10=True)
def _user_oop(o):
    sd = anyspace(o, 'space', kinds=('rn', 'discr'))
    seed = o.seed()
    s = o.scalar('s', nonzero=True)
    o.dom = 'mod'

    def mk():
        sp = B(sd)
        return UserOopOperator(sp, vec(sp, seed), s)
    return mk


_OOP_POOL = []


def get_oop_pool():
    """Names of catalogue entries (domain == range, not field-valued) whose
    operator class implements only ``_call(self, x)``; found once per process
    by probing ``_call_has_out`` over the catalogue (2 seeded draws each)."""
    if _OOP_POOL:
        return _OOP_POOL[0]
    names = [n for n, e in ENTRIES.items()
             if e.family in ('gradient', 'funcprox', 'prox', 'default',
                             'derivative', 'tensor', 'solverblock') and
             not n.startswith(('alias.', 'elem.'))]
    pool = []
    with np.errstate(all='ignore'):
        for name in names:
            for d in sweep(lambda n: entry_descs(n), [name], per_entry=2,
                           seed=778):
                try:
                    op, _ = build_op({'entry': d['entry'], 'opts': d['opts']})
                except Exception:  # noqa
                    continue
                if op.domain == op.range and not op.is_functional and \
                        not isinstance(op.domain, Field) and \
                        not type(op)._call_has_out:
                    pool.append(name)
                    break
    _OOP_POOL.append(pool)
    return pool


OOP_EXPR_KINDS = ['sum-left', 'sum-right', 'sum-self', 'comp-inner',
                  'comp-outer', 'lscal', 'rscal', 'lvec', 'rvec', 'vecsum',
                  'pwprod']


@entry('alias.expr.oop-operand', 'solverblock', c03=False, c10=True,
       weight=8,
       classes=['OperatorSum', 'OperatorComp', 'OperatorLeftScalarMult',
                'OperatorRightScalarMult', 'OperatorLeftVectorMult',
                'OperatorRightVectorMult', 'OperatorVectorSum',
                'OperatorPointwiseProduct'])
def _alias_expr_oop(o):
    """Operator-arithmetic wrappers with an operand that only implements the
    out-of-place call (functional gradients, NuclearNorm proximal, user-style
    operators) in every position."""
    name = o.pick('operand', (get_oop_pool() or ['user.oop-only'])
                  if o.draw is not None else ())
    c = o.child('v')
    vthunk = ENTRIES[name].func(c)
    k = o.pick('kind', OOP_EXPR_KINDS)
    s = abs(o.scalar('s', nonzero=True))
    s = s if s <= 1 else 1 / s
    seed = o.seed()
    o.dom = c.dom
    o.opts['variant'] = k

    def mk():
        V = vthunk()
        sp = V.domain
        if V.domain != V.range or isinstance(sp, Field):
            raise NotImplementedError('operand is not an endomorphism')
        # partners keep points inside the documented domain of V (positive
        # factors <= 1: positive stays positive, (0, 1) stays in (0, 1))
        E = odl.ScalingOperator(sp, s)
        w = vec(sp, seed, 'prob')
        op = {
            'sum-left': lambda: V + E, 'sum-right': lambda: E + V,
            'sum-self': lambda: V + V,
            'comp-inner': lambda: E * V, 'comp-outer': lambda: V * E,
            'lscal': lambda: s * V, 'rscal': lambda: V * s,
            'lvec': lambda: w * V, 'rvec': lambda: V * w,
            'vecsum': lambda: V + w,
            'pwprod': lambda: odl.OperatorPointwiseProduct(V, E),
        }[k]()
        op._verif_oop_operand = V
        return op
    return mk


# --------------------------------------------------------------------------
# large tensors: the BLAS regime (>= 50000 entries) of lincomb / assign /
# multiply, reached through the operators built on them

LARGE_SHAPES = [[50000], [50001], [250, 200], [60000], [300, 200]]


@entry('large.lincomb-based', 'large', weight=1,
       classes=['ScalingOperator', 'IdentityOperator', 'LinCombOperator',
                'ConstantOperator', 'MultiplyOperator', 'OperatorSum',
                'ZeroOperator', 'ProximalL2', 'ProximalL2Squared',
                'ProximalConvexConjL2Squared'])
def _large(o):
    shape = o.pick('shape', LARGE_SHAPES)
    dtype = o.pick('dtype', ('float64', 'float64', 'float32', 'complex128'))
    kind = o.pick('kind', ('scaling', 'identity', 'lincomb', 'constant',
                           'multiply', 'sum', 'zero', 'prox_l2',
                           'prox_l2sq', 'prox_ccl2sq', 'comp', 'lscal'))
    s = o.scalar('s', nonzero=True)
    seed = o.seed()
    o.dom = 'mod'
    o.opts['large'] = True

    def mk():
        sp = odl.tensor_space(shape, dtype=dtype)
        real = sp.is_real
        if kind.startswith('prox') and not real:
            sp = odl.rn(shape)
        v = vec(sp, seed)
        return {
            'scaling': lambda: odl.ScalingOperator(sp, s),
            'identity': lambda: odl.IdentityOperator(sp),
            'lincomb': lambda: odl.LinCombOperator(sp, s, 1.5),
            'constant': lambda: odl.ConstantOperator(v),
            'multiply': lambda: odl.MultiplyOperator(v),
            'sum': lambda: odl.ScalingOperator(sp, s) +
            odl.IdentityOperator(sp),
            'zero': lambda: odl.ZeroOperator(sp),
            'prox_l2': lambda: PO.proximal_l2(sp, lam=2.0, g=v)(0.7),
            'prox_l2sq': lambda: PO.proximal_l2_squared(sp, g=v)(abs(s)),
            'prox_ccl2sq': lambda: PO.proximal_convex_conj_l2_squared(
                sp, g=v)(abs(s)),
            'comp': lambda: odl.ScalingOperator(sp, s) *
            odl.MultiplyOperator(v),
            'lscal': lambda: s * odl.MultiplyOperator(v),
        }[kind]()
    return mk


# --------------------------------------------------------------------------
# compositions whose inner operator returns a view of its argument (C10)

class UserViewOperator(Operator):
    """User-style operator returning a view: a reshape round trip that wraps
    the memory of its argument (out-of-place only)."""

    def __init__(self, spc):
        super(UserViewOperator, self).__init__(spc, spc, linear=True)

    def _call(self, x):
        return self.range.element(x.asarray().reshape(-1)[:].reshape(
            self.range.shape))


@entry('alias.expr.view-inner', 'solverblock', c03=False, c10=True, weight=6,
       classes=['OperatorComp'])
def _alias_view_inner(o):
    """P * V and P * V * W with a view-returning inner operator V
    (FlatteningOperator on a one-dimensional space, its inverse, a
    user-style reshaping operator) and a proximal P."""
    n = o.pick('n', st.integers(2, 9))
    sk = o.pick('skind', ('rn', 'discr'))
    vk = o.pick('V', ('flatten', 'flatten.inverse', 'user'))
    wk = o.pick('W', ('none', 'none', 'flatten', 'user', 'scale'))
    pk = o.pick('P', ('l1', 'l1g', 'linf', 'cckl', 'l2sq-elem-g', 'ccl1',
                      'l2', 'huber', 'box'))
    sig = o.scalar('sigma', positive=True)
    seed = o.seed()
    o.opts['variant'] = '{}*{}{}'.format(pk, vk, '' if wk == 'none'
                                         else '*' + wk)
    o.dom = 'mod'

    def mk():
        sp = odl.rn(n) if sk == 'rn' else odl.uniform_discr(0, 1, n)
        # FlatteningOperator maps into rn(n): endomorphism only on rn
        def view(k):
            if k == 'user' or sk != 'rn':
                return UserViewOperator(sp)
            F = odl.FlatteningOperator(sp)
            return F if k == 'flatten' else F.inverse
        V = view(vk)
        if V.range != sp:
            V = UserViewOperator(sp)
        g = vec(sp, seed)
        P = {'l1': lambda: PO.proximal_l1(sp)(sig),
             'l1g': lambda: PO.proximal_l1(sp, g=g)(sig),
             'linf': lambda: PO.proximal_linfty(sp)(sig),
             'cckl': lambda: PO.proximal_convex_conj_kl(sp, g=vec(
                 sp, seed, 'pos'))(sig),
             'l2sq-elem-g': lambda: PO.proximal_l2_squared(sp, g=g)(
                 vec(sp, seed + 1, 'pos')),
             'ccl1': lambda: PO.proximal_convex_conj_l1(sp)(sig),
             'l2': lambda: PO.proximal_l2(sp, g=g)(sig),
             'huber': lambda: PO.proximal_huber(sp, 0.5)(sig),
             'box': lambda: PO.proximal_box_constraint(sp, -0.5, 1.0)(sig),
             }[pk]()
        op = P * V
        if wk == 'scale':
            op = op * odl.ScalingOperator(sp, 0.5)
        elif wk != 'none':
            op = op * view(wk)
        op._verif_view_inner = V
        return op
    return mk


# --------------------------------------------------------------------------
# dense ProductSpaceOperator blocks whose row entries are NOT adjacent in the
# stored COO order: adjoints (transposed storage) and user COO matrices with
# interleaved rows (`COOMatrix` documents out-of-order indices as allowed)

LIN_BLOCK_KINDS = ['scale', 'ident', 'mult', 'matsq', 'pdiff', 'scale']


def _make_pso_dense(tag, nr, nc, how):
    @entry('ProductSpaceOperator.dense.' + tag, 'pspace',
           classes=['ProductSpaceOperator'])
    def _f(o):
        sd = space(o, 'space', kinds=('rn', 'discr', 'cn'), medium=False)
        cells = [[endo(o, 'e%d%d' % (i, j), LIN_BLOCK_KINDS)
                  for j in range(nc)] for i in range(nr)]
        o.opts['blocks'] = '{}x{}'.format(nr, nc)
        o.opts['how'] = how

        def mk():
            sp = B(sd)
            mat = [[c(sp) for c in row] for row in cells]
            if how == 'coo-interleaved':
                from odl.util import COOMatrix
                # column-major storage order: consecutive entries belong to
                # different rows
                idx = [(i, j) for j in range(nc) for i in range(nr)]
                data = np.empty(len(idx), dtype=object)
                for k, (i, j) in enumerate(idx):
                    data[k] = mat[i][j]
                op = odl.ProductSpaceOperator(COOMatrix(
                    data, ([i for i, _ in idx], [j for _, j in idx]),
                    (nr, nc)))
            else:
                op = odl.ProductSpaceOperator(mat)
                if how == 'adjoint':
                    op = op.adjoint
                elif how == 'adjadj':
                    op = op.adjoint.adjoint
            op._verif_pso_dense = True
            return op
        return mk


for _nr, _nc in ((2, 2), (2, 3), (3, 2)):
    for _how in ('adjoint', 'adjadj'):
        _make_pso_dense('{}x{}.{}'.format(_nr, _nc, _how), _nr, _nc, _how)
_make_pso_dense('2x2.coo-interleaved', 2, 2, 'coo-interleaved')
_make_pso_dense('2x3.coo-interleaved', 2, 3, 'coo-interleaved')
