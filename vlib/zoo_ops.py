"""Operator catalogue ("zoo") shared by C03 (call protocol) and C10 (aliasing).

Every catalogue entry is ONE function ``f(o) -> thunk``.  ``o`` is an option
source (`Src`): in *draw* mode ``o.pick(key, strategy)`` draws a plain-data
option from Hypothesis and records it in ``o.opts``; in *replay* mode it reads
the recorded value back.  The function only handles plain data while picking
and returns a thunk that builds the live ODL operator, so the same code is the
Hypothesis strategy of the entry's options *and* the descriptor -> operator
builder (the thunk is never called while drawing).

Descriptor of an operator::

    {"entry": "PartialDerivative", "opts": {...plain data...}}

Descriptor of a domain point (`point`)::

    {"dom": "any|pos|unit|gt1|nz|int|nat|tiny|prob", "vals": [<=24 numbers],
     "seed": int, "order": "C|F|strided"}

The first ``len(vals)`` real coordinates of the point are the explicit values
(Hypothesis can shrink them), the rest comes from ``RandomState(seed)``
restricted to the same documented domain.
"""
import ast
import collections
import importlib
import inspect
import os
import pkgutil
import re

import numpy as np
from hypothesis import strategies as st
from hypothesis.strategies import SearchStrategy

from . import build, flat, strategies as vs
from .core import HarnessError, import_odl, odl_root

odl = import_odl()
from odl.operator import Operator  # noqa: E402
from odl.set.sets import Field  # noqa: E402
from odl.space.pspace import ProductSpace  # noqa: E402

S = odl.solvers
PO = odl.solvers.nonsmooth.proximal_operators


# --------------------------------------------------------------------------
# option source

class Src(object):
    """Record/replay source of plain-data options."""

    def __init__(self, draw=None, opts=None):
        self.draw = draw
        self.opts = {} if opts is None else opts
        self.dom = 'any'        # documented domain of the operator's input
        self.xscale = None      # optional (lo, hi) override for 'any'
        self.notes = []

    def pick(self, key, strat):
        if self.draw is None:
            try:
                return self.opts[key]
            except KeyError:
                raise HarnessError('descriptor lacks option {!r}'.format(key))
        if not isinstance(strat, SearchStrategy):
            strat = st.sampled_from(list(strat))
        val = self.draw(strat)
        self.opts[key] = val
        return val

    def child(self, key):
        """Source for a nested option dict (operands of expressions)."""
        if self.draw is None:
            try:
                sub = self.opts[key]
            except KeyError:
                raise HarnessError('descriptor lacks option {!r}'.format(key))
        else:
            sub = self.opts[key] = {}
        c = Src(self.draw, sub)
        return c

    # frequently used picks
    def seed(self, key='seed'):
        return self.pick(key, st.integers(0, 9999))

    def flag(self, key):
        return self.pick(key, st.booleans())

    def scalar(self, key, cplx=False, positive=False, nonzero=False):
        if positive:
            s = st.sampled_from([1.0, 0.5, 2.0, 0.3, 3.5, 0.05]) | \
                st.floats(0.05, 8.0).map(vs._round)
        else:
            pal = [1.0, -1.0, 2.0, -0.5, 3.0, 0.25, -2.5]
            if not nonzero:
                pal = pal + [0.0]
            s = st.sampled_from(pal) | st.floats(0.05, 8.0).map(vs._round) | \
                st.floats(-8.0, -0.05).map(vs._round)
        v = self.pick(key, s)
        if cplx:
            im = self.pick(key + '_im', st.sampled_from([0.0, 1.0, -2.0, 0.5]))
            if im != 0.0:
                return complex(v, im)
        return v


class Entry(object):
    def __init__(self, name, func, family, classes, exact=False, ktol=16,
                 c10=False, c03=True, weight=1, slow=False):
        self.name = name
        self.func = func
        self.family = family
        self.classes = tuple(classes)
        self.exact = exact       # in-place == out-of-place exactly (copy ops)
        self.ktol = ktol
        self.c10 = c10           # documented alias-safe building block
        self.c03 = c03
        self.weight = weight
        self.slow = slow


ENTRIES = collections.OrderedDict()


def entry(name, family, classes=(), **kw):
    def deco(func):
        if name in ENTRIES:
            raise HarnessError('duplicate zoo entry ' + name)
        ENTRIES[name] = Entry(name, func, family, classes or (name,), **kw)
        return func
    return deco


# --------------------------------------------------------------------------
# plain-data helpers (spaces)

def _is_cplx(sd):
    return np.dtype(build.leaf_descs(sd)[0].get('dtype', 'float64')).kind == 'c'


def _shape_st(ndims=(1, 2), max_side=5, max_size=24, min_side=1, medium=True):
    base = vs.small_shapes(min_ndim=min(ndims), max_ndim=max(ndims),
                           min_side=min_side, max_side=max_side,
                           max_size=max_size)
    if not medium:
        return base
    # the >= 100 regime of _lincomb_impl is entered on purpose now and then
    med = st.sampled_from([[100], [128], [10, 12], [101]])
    if max(ndims) < 2:
        med = st.sampled_from([[100], [128], [101]])
    if min(ndims) > 1:
        med = st.sampled_from([[10, 12], [12, 10]])
    return st.one_of(base, base, base, base, base, base, base, med)


def space(o, key, kinds=('rn', 'cn', 'discr', 'cdiscr'), ndims=(1, 2),
          max_side=5, max_size=24, min_side=1, weighted=True, medium=True,
          f32=True, nob=True):
    """Pick a (leaf) space descriptor."""
    kind = o.pick(key + '.kind', kinds)
    wk = ('none', 'none', 'const', 'array') if weighted else ('none',)
    shapes = _shape_st(ndims, max_side, max_size, min_side, medium)
    if kind in ('rn', 'cn', 'int'):
        dts = {'rn': ['float64', 'float64', 'float32'] if f32 else
               ['float64'],
               'cn': ['complex128', 'complex128', 'complex64'] if f32 else
               ['complex128'],
               'int': ['int64', 'int32']}[kind]
        sd = o.pick(key, vs.tensor_space_descs(
            shapes=shapes, dtypes=dts, weighting_kinds=wk))
        if sd['dtype'] in ('float32', 'complex64') and \
                (sd.get('weighting') or {}).get('type') == 'array':
            # array weights must have the space dtype (documented ValueError)
            sd = dict(sd, weighting=None)
        return sd
    dts = {'discr': ['float64', 'float64', 'float32'] if f32 else ['float64'],
           'cdiscr': ['complex128']}[kind]
    return o.pick(key, vs.discr_space_descs(
        shapes=shapes, dtypes=dts, nodes_on_bdry=nob,
        weighting_kinds=('none', 'none', 'const') if weighted else
        ('none',)))


def pspace_of(o, key, base_sd, max_len=3, min_len=1, weighted=True):
    n = o.pick(key + '.n', st.integers(min_len, max_len))
    wk = o.pick(key + '.w', ('none', 'none', 'const', 'array')
                if weighted else ('none',))
    w = None
    if wk == 'const':
        w = {'type': 'const', 'value': o.scalar(key + '.wc', positive=True)}
    elif wk == 'array':
        w = {'type': 'array',
             'data': [o.scalar(key + '.wa%d' % i, positive=True)
                      for i in range(n)]}
    return {'kind': 'pspace', 'base': base_sd, 'power': n, 'weighting': w,
            'exponent': 2.0}


def anyspace(o, key, pspace=True, **kw):
    """Leaf space, or (sometimes) a power / product space of leaves."""
    how = o.pick(key + '.how', ('leaf', 'leaf', 'leaf', 'power', 'product')
                 if pspace else ('leaf',))
    if how == 'leaf':
        return space(o, key, **kw)
    kw = dict(kw)
    kw['medium'] = False
    if how == 'power':
        return pspace_of(o, key + '.p', space(o, key, **kw))
    a = space(o, key + '.a', **kw)
    kinds = kw.get('kinds', ('rn', 'cn', 'discr', 'cdiscr'))
    same = ('cn', 'cdiscr') if _is_cplx(a) else ('rn', 'discr')
    kw['kinds'] = [k for k in kinds if k in same] or [kinds[0]]
    b = space(o, key + '.b', **kw)
    return {'kind': 'pspace', 'parts': [a, b], 'power': None,
            'weighting': None, 'exponent': 2.0}


B = build.build_space


# --------------------------------------------------------------------------
# runtime helpers (data from seeds)

DOMS = {
    'any': (-30.0, 30.0), 'pos': (0.05, 5.0), 'unit': (-0.95, 0.95),
    'gt1': (1.05, 4.0), 'nz': (0.2, 3.0), 'int': (-6, 6), 'nat': (0, 5),
    'tiny': (-0.12, 0.12), 'prob': (0.05, 0.95), 'mod': (-3.0, 3.0),
}


def dom_values(dom):
    """Hypothesis strategy of single real coordinates inside ``dom``."""
    lo, hi = DOMS[dom]
    if dom in ('int', 'nat'):
        return st.integers(lo, hi)
    gen = st.floats(lo, hi, allow_nan=False).map(vs._round).map(
        lambda v: min(max(v, lo), hi))
    if dom in ('any', 'mod'):
        return st.one_of(st.sampled_from(
            [0.0, 1.0, -1.0, 2.0, -3.0, 0.5, -0.25, 1.5, -0.0, 2.5]), gen)
    if dom == 'nz':
        return st.one_of(gen, gen.map(lambda v: -v))
    return gen


def _seeded(dom, seed, n):
    lo, hi = DOMS[dom]
    rng = np.random.RandomState(int(seed) % (2 ** 32))
    if dom in ('int', 'nat'):
        return rng.randint(lo, hi + 1, size=n).astype(float)
    v = rng.uniform(lo, hi, size=n)
    if dom == 'nz':
        v *= rng.choice([-1.0, 1.0], size=n)
    return v


def flatvals(n, xd):
    vals = [float(v) for v in xd.get('vals', [])][:n]
    v = _seeded(xd.get('dom', 'any'), xd.get('seed', 0), n)
    v[:len(vals)] = vals
    return v


def relayout(elem, order):
    """Element with the same values whose leaves have the given layout."""
    if order in (None, 'C'):
        return elem
    sp = elem.space
    if isinstance(sp, ProductSpace):
        return sp.element([relayout(p, order) for p in elem])
    arr = elem.asarray()
    if order == 'F':
        new = np.asfortranarray(arr)
        if arr.ndim < 2:
            new = arr.copy()
    elif order == 'strided':
        big = np.zeros(tuple(2 * s for s in arr.shape), dtype=arr.dtype)
        new = big[tuple(slice(None, None, 2) for _ in arr.shape)]
        new[...] = arr
    else:
        raise HarnessError('unknown order {!r}'.format(order))
    return sp.element(new)


def point(spc, xd):
    """Domain point described by ``xd`` (see module docstring)."""
    n = flat.rdim(spc)
    x = flat.unflat(flatvals(n, xd), spc)
    if isinstance(spc, Field):
        return x
    return relayout(x, xd.get('order', 'C'))


def vec(spc, seed, dom='mod'):
    """Auxiliary element (multiplicand, data term, ...) from a seed."""
    return flat.unflat(_seeded(dom, seed, flat.rdim(spc)), spc)


def is_intspace(spc):
    if isinstance(spc, Field):
        return False
    if isinstance(spc, ProductSpace):
        return len(spc) > 0 and is_intspace(spc[0])
    return np.dtype(spc.dtype).kind in 'iub'


# --------------------------------------------------------------------------
# build / strategy front-ends

def build_op(desc):
    """Descriptor -> (operator, entry)."""
    try:
        e = ENTRIES[desc['entry']]
    except KeyError:
        raise HarnessError('unknown zoo entry {!r}'.format(desc.get('entry')))
    o = Src(None, desc['opts'])
    thunk = e.func(o)
    return thunk(), e


@st.composite
def op_descs(draw, names):
    """Strategy of operator descriptors for the given entry names, together
    with the documented input domain kind."""
    name = draw(st.sampled_from(list(names)))
    return draw(entry_descs(name))


@st.composite
def entry_descs(draw, name):
    e = ENTRIES[name]
    o = Src(draw)
    e.func(o)
    return {'entry': name, 'opts': o.opts, 'dom': o.dom}


@st.composite
def point_descs(draw, dom, orders=('C', 'C', 'F', 'strided'), nvals=24):
    n = draw(st.sampled_from([nvals, nvals, 8, 0]))
    vals = draw(st.lists(dom_values(dom), min_size=n, max_size=n))
    return {'dom': dom, 'vals': vals, 'seed': draw(st.integers(0, 9999)),
            'order': draw(st.sampled_from(list(orders)))}


FAMILY_WEIGHTS = collections.OrderedDict([
    ('default', 6), ('ufuncfunc', 2), ('derivative', 3), ('tensor', 5), ('pspace', 5),
    ('diff', 5), ('discr', 4), ('ufunc', 6), ('expr', 6), ('trafo', 4),
    ('deform', 1), ('tomo', 1), ('functional', 5), ('gradient', 4),
    ('prox', 6), ('funcprox', 5), ('solverblock', 2),
])


@st.composite
def weighted_entry_names(draw, names):
    """Family by weight, then entry uniformly inside the family."""
    byfam = collections.OrderedDict()
    for n in names:
        byfam.setdefault(ENTRIES[n].family, []).append(n)
    fams = []
    for f, members in byfam.items():
        fams.extend([f] * FAMILY_WEIGHTS.get(f, 1))
    fam = draw(st.sampled_from(fams))
    pool = []
    for n in byfam[fam]:
        pool.extend([n] * ENTRIES[n].weight)
    return draw(st.sampled_from(pool))


def sweep(case_strategy_for, names, per_entry=3, seed=20260926):
    """Deterministic list of descriptors: ``per_entry`` Hypothesis draws of
    ``case_strategy_for(name)`` for every entry name."""
    import hypothesis
    from hypothesis import given, settings, HealthCheck, Phase
    out = []
    for i, name in enumerate(names):
        got = []

        @hypothesis.seed(seed + i)
        @settings(max_examples=per_entry, database=None, deadline=None,
                  phases=[Phase.generate],
                  suppress_health_check=list(HealthCheck))
        @given(case_strategy_for(name))
        def collect(d):
            got.append(d)

        collect()
        out.extend(got[:per_entry])
    return out


DOCUMENTED_BUILD_REJECTIONS = (NotImplementedError,)


def innermost_is_harness(exc):
    """True if the exception was raised by harness code (not inside odl)."""
    import traceback
    root = os.path.join(odl_root(), 'odl') + os.sep
    frames = traceback.extract_tb(exc.__traceback__)
    return not any(os.path.abspath(fr.filename).startswith(root)
                   for fr in frames)


def _walk_ops(op, depth=0, seen=None):
    """The operator and the operators reachable through its public operand
    attributes (expression trees, product-space operator matrices)."""
    seen = set() if seen is None else seen
    if id(op) in seen or depth > 6 or not isinstance(op, Operator):
        return
    seen.add(id(op))
    yield op
    for attr in ('left', 'right', 'operator', 'functional', 'prod_op',
                 'inverse_of', 'operators', 'functionals'):
        try:
            sub = getattr(op, attr)
        except Exception:  # noqa
            continue
        if isinstance(sub, Operator):
            for s in _walk_ops(sub, depth + 1, seen):
                yield s
        elif isinstance(sub, (list, tuple)):
            for s_ in sub:
                for s in _walk_ops(s_, depth + 1, seen):
                    yield s
    ops = getattr(op, 'ops', None)
    if ops is not None and hasattr(ops, 'data'):
        for s_ in ops.data:
            for s in _walk_ops(s_, depth + 1, seen):
                yield s


def uses_pyfftw(op):
    return any(getattr(s, 'impl', None) == 'pyfftw' for s in _walk_ops(op))


def _space_tag(spc):
    if isinstance(spc, Field):
        return 'field'
    if isinstance(spc, ProductSpace):
        return 'pspace'
    tag = 'discr' if isinstance(spc, odl.DiscretizedSpace) else 'tensor'
    k = np.dtype(spc.dtype).kind
    return tag + {'f': '', 'c': '-cplx', 'i': '-int', 'u': '-int',
                  'b': '-bool'}.get(k, '')


def region(op, desc):
    """Region part of a violation signature: entry, space kinds, size regime
    and the options that select a code path."""
    opts = desc['op']['opts']
    parts = [desc['op']['entry'], 'dom=' + _space_tag(op.domain),
             'ran=' + _space_tag(op.range)]
    n = flat.rdim(op.range) if not isinstance(op.range, Field) else 1
    parts.append('small' if n < 100 else 'medium')
    for k in ('impl', 'halfcomplex', 'naxes', 'variant', 'how', 'name'):
        if k in opts:
            parts.append('{}={}'.format(k, opts[k]))
    return ','.join(parts)


# classes whose in-place path the repository's own tests never call:
# computed once from odl/test (a test function that names the class and
# passes ``out=`` counts as in-place tested)
def _inplace_tested_classes():
    root = os.path.join(odl_root(), 'odl', 'test')
    tested = set()
    names = set()
    for e in ENTRIES.values():
        names.update(e.classes)
    for dirpath, _, files in os.walk(root):
        for fn in files:
            if not fn.endswith('.py'):
                continue
            with open(os.path.join(dirpath, fn)) as f:
                src = f.read()
            for chunk in re.split(r'\ndef test_', src):
                if 'out=' not in chunk:
                    continue
                for n in names:
                    if n in chunk:
                        tested.add(n)
    return tested


class _Lazy(object):
    """Set of entry names computed on first use."""

    def __init__(self, fn):
        self.fn, self.val = fn, None

    def __contains__(self, item):
        if self.val is None:
            self.val = self.fn()
        return item in self.val

    def __len__(self):
        if self.val is None:
            self.val = self.fn()
        return len(self.val)


def _untested():
    tested = _inplace_tested_classes()
    return {n for n, e in ENTRIES.items()
            if not any(c in tested for c in e.classes)}


INPLACE_UNTESTED = _Lazy(_untested)

ABSTRACT_CLASSES = {
    'Operator': 'abstract base', 'Functional': 'abstract base',
    'PointwiseTensorFieldOperator': 'abstract base',
    'PointwiseInnerBase': 'abstract base',
    'DiscreteFourierTransformBase': 'abstract base',
    'FourierTransformBase': 'abstract base',
    'WaveletTransformBase': 'abstract base',
}


def introspect():
    """All Operator subclasses defined at module level in odl (without
    contrib / tests), diffed against the classes the catalogue claims."""
    found = {}
    for m in pkgutil.walk_packages(odl.__path__, 'odl.'):
        if '.contrib' in m.name or '.test' in m.name or \
                m.name.endswith('pytest_config'):
            continue
        try:
            mod = importlib.import_module(m.name)
        except Exception:  # noqa
            continue
        for var, c in vars(mod).items():
            if inspect.isclass(c) and issubclass(c, Operator) and \
                    c.__module__ == m.name:
                key = var if m.name.endswith('ufunc_ops') else c.__name__
                found[(m.name, key)] = c
    claimed = set()
    for e in ENTRIES.values():
        claimed.update(e.classes)
    total = len(found)
    covered = sorted(k for k in found if k[1] in claimed)
    exempt = sorted(k for k in found
                    if k[1] in ABSTRACT_CLASSES and k[1] not in claimed)
    missing = sorted(k for k in found
                     if k[1] not in claimed and k[1] not in ABSTRACT_CLASSES)
    local = sorted(claimed - {k[1] for k in found})
    return {'classes_total': total, 'classes_with_builder': len(covered),
            'classes_exempt': ['{}.{} ({})'.format(m, n, ABSTRACT_CLASSES[n])
                               for m, n in exempt],
            'classes_missing': ['{}.{}'.format(m, n) for m, n in missing],
            'local_classes_claimed': local}


def coverage_statement():
    rep = introspect()
    return ['zoo coverage (introspection over odl without contrib/tests): '
            '{} module-level Operator subclasses, {} with a catalogue '
            'builder, {} exempt abstract bases {}, not covered: {}; plus {} '
            'classes defined inside factories / properties reached through '
            'their factories; {} catalogue entries, {} of them with an '
            'in-place path the repository tests never exercise'.format(
                rep['classes_total'], rep['classes_with_builder'],
                len(rep['classes_exempt']), rep['classes_exempt'],
                rep['classes_missing'] or 'none',
                len(rep['local_classes_claimed']), len(ENTRIES),
                len(INPLACE_UNTESTED))]


# ==========================================================================
# CATALOGUE
# ==========================================================================
# --- odl.operator.default_ops ---------------------------------------------

@entry('ScalingOperator', 'default', c10=True)
def _scaling(o):
    sd = anyspace(o, 'space')
    s = o.scalar('s', cplx=_is_cplx(sd))
    return lambda: odl.ScalingOperator(B(sd), s)


@entry('ScalingOperator.field', 'default', classes=['ScalingOperator'])
def _scaling_field(o):
    f = o.pick('field', ('real', 'complex'))
    s = o.scalar('s', cplx=(f == 'complex'))
    return lambda: odl.ScalingOperator(
        odl.RealNumbers() if f == 'real' else odl.ComplexNumbers(), s)


@entry('IdentityOperator', 'default', exact=True, c10=True)
def _identity(o):
    sd = anyspace(o, 'space')
    return lambda: odl.IdentityOperator(B(sd))


@entry('LinCombOperator', 'default')
def _lincomb(o):
    sd = anyspace(o, 'space')
    a = o.scalar('a', cplx=_is_cplx(sd))
    b = o.scalar('b', cplx=_is_cplx(sd))
    return lambda: odl.LinCombOperator(B(sd), a, b)


@entry('MultiplyOperator', 'default', c10=True)
def _multiply(o):
    sd = anyspace(o, 'space')
    seed = o.seed()
    return lambda: odl.MultiplyOperator(vec(B(sd), seed))


@entry('MultiplyOperator.scalar', 'default', classes=['MultiplyOperator'],
       c10=True)
def _multiply_scalar(o):
    sd = anyspace(o, 'space')
    s = o.scalar('s', cplx=_is_cplx(sd))

    def mk():
        sp = B(sd)
        return odl.MultiplyOperator(s, domain=sp, range=sp)
    return mk


@entry('MultiplyOperator.fielddom', 'default', classes=['MultiplyOperator'])
def _multiply_field(o):
    sd = anyspace(o, 'space')
    seed = o.seed()

    def mk():
        sp = B(sd)
        return odl.MultiplyOperator(vec(sp, seed), domain=sp.field, range=sp)
    return mk


@entry('PowerOperator', 'default')
def _power(o):
    sd = anyspace(o, 'space', kinds=('rn', 'discr'))
    p = o.pick('p', [1, 2, 3, 0.5, 2.5, -1, 0])
    if sd['kind'] == 'pspace' and p in (0.5, 2.5):
        p = 3    # generic elements document integer powers only
    if p in (0.5, 2.5):
        o.dom = 'pos'
    elif p == -1:
        o.dom = 'nz'
    else:
        o.dom = 'mod'
    return lambda: odl.PowerOperator(B(sd), p)


@entry('PowerOperator.field', 'default', classes=['PowerOperator'])
def _power_field(o):
    p = o.pick('p', [1, 2, 3, 0.5, 2.5])
    o.dom = 'pos'
    return lambda: odl.PowerOperator(odl.RealNumbers(), p)


@entry('PowerOperator.derivative', 'derivative',
       classes=['OperatorLeftScalarMult', 'MultiplyOperator'])
def _power_deriv(o):
    sd = anyspace(o, 'space', kinds=('rn', 'discr'), pspace=False)
    p = o.pick('p', [2, 3, 2.5])
    seed = o.seed()

    def mk():
        sp = B(sd)
        return odl.PowerOperator(sp, p).derivative(vec(sp, seed, 'pos'))
    return mk


@entry('InnerProductOperator', 'default')
def _inner(o):
    sd = anyspace(o, 'space')
    seed = o.seed()
    return lambda: odl.InnerProductOperator(vec(B(sd), seed))


@entry('NormOperator', 'default')
def _norm(o):
    sd = anyspace(o, 'space')
    return lambda: odl.NormOperator(B(sd))


@entry('DistOperator', 'default')
def _dist(o):
    sd = anyspace(o, 'space')
    seed = o.seed()
    return lambda: odl.DistOperator(vec(B(sd), seed))


@entry('NormOperator.derivative', 'derivative',
       classes=['OperatorLeftScalarMult', 'InnerProductOperator'])
def _norm_deriv(o):
    sd = anyspace(o, 'space', kinds=('rn', 'discr'))
    seed = o.seed()
    which = o.pick('which', ('norm', 'dist'))

    def mk():
        sp = B(sd)
        if which == 'norm':
            return odl.NormOperator(sp).derivative(vec(sp, seed, 'nz'))
        return odl.DistOperator(vec(sp, seed)).derivative(
            vec(sp, seed + 1, 'nz'))
    return mk


@entry('ConstantOperator', 'default', exact=True, c10=True)
def _constant(o):
    sd = anyspace(o, 'space')
    seed = o.seed()
    zero = o.pick('zero', (False, False, False, True))

    def mk():
        sp = B(sd)
        return odl.ConstantOperator(sp.zero() if zero else vec(sp, seed))
    return mk


@entry('ConstantOperator.domran', 'default', classes=['ConstantOperator'],
       exact=True)
def _constant_dr(o):
    sd = anyspace(o, 'dom')
    rd = anyspace(o, 'ran')
    seed = o.seed()
    aslist = o.flag('aslist')

    def mk():
        ran = B(rd)
        c = vec(ran, seed)
        if aslist and not isinstance(ran, ProductSpace):
            c = c.asarray().tolist()
        return odl.ConstantOperator(c, domain=B(sd), range=ran)
    return mk


@entry('ZeroOperator', 'default', c10=True)
def _zero(o):
    sd = anyspace(o, 'space')
    return lambda: odl.ZeroOperator(B(sd))


@entry('ZeroOperator.domran', 'default', classes=['ZeroOperator'])
def _zero_dr(o):
    sd = anyspace(o, 'dom')
    rd = anyspace(o, 'ran')
    return lambda: odl.ZeroOperator(B(sd), B(rd))


def _cplx_family(name, ctor, kinds=('cn', 'cdiscr', 'rn', 'discr'), **kw):
    @entry(name, 'default', **kw)
    def _f(o):
        sd = space(o, 'space', kinds=kinds, weighted=False)
        return lambda: ctor(B(sd))
    return _f


_cplx_family('RealPart', lambda s: odl.RealPart(s), exact=True)
_cplx_family('ImagPart', lambda s: odl.ImagPart(s), exact=True)
_cplx_family('ComplexModulus', lambda s: odl.ComplexModulus(s))
_cplx_family('ComplexModulusSquared', lambda s: odl.ComplexModulusSquared(s))
_cplx_family('RealPart.inverse', lambda s: odl.RealPart(s).inverse,
             classes=['ComplexEmbedding', 'RealPart'])
_cplx_family('ImagPart.inverse', lambda s: odl.ImagPart(s).inverse,
             classes=['ComplexEmbedding', 'ZeroOperator'])
_cplx_family('RealPart.adjoint', lambda s: odl.RealPart(s).adjoint,
             classes=['ComplexEmbedding', 'RealPart'])
_cplx_family('ImagPart.adjoint', lambda s: odl.ImagPart(s).adjoint,
             classes=['ComplexEmbedding', 'ZeroOperator'])


@entry('ComplexEmbedding', 'default')
def _cembed(o):
    sd = space(o, 'space', kinds=('rn', 'discr', 'cn', 'cdiscr'),
               weighted=False)
    s = o.scalar('s', cplx=True, nonzero=True)
    how = o.pick('how', ('op', 'op', 'inverse', 'adjoint'))

    def mk():
        op = odl.ComplexEmbedding(B(sd), s)
        return op if how == 'op' else getattr(op, how)
    return mk


@entry('ComplexModulus.derivative', 'derivative',
       classes=['ComplexModulusDerivative', 'ComplexModulusDerivativeAdjoint',
                'ComplexModulusSquaredDerivative',
                'ComplexModulusSquaredDerivativeAdjoint'])
def _cmod_deriv(o):
    sd = space(o, 'space', kinds=('cn', 'cdiscr'), weighted=False)
    seed = o.seed()
    sq = o.flag('squared')
    adj = o.flag('adjoint')

    def mk():
        sp = B(sd)
        op = (odl.ComplexModulusSquared if sq else odl.ComplexModulus)(sp)
        d = op.derivative(vec(sp, seed, 'nz'))
        return d.adjoint if adj else d
    return mk


# --- odl.operator.tensor_ops ----------------------------------------------

def _vfspace(o, key='vf', cplx_ok=True, min_len=1, max_len=3):
    base = space(o, key, kinds=('discr', 'rn', 'cdiscr', 'cn') if cplx_ok
                 else ('discr', 'rn'), weighted=False, medium=False)
    return pspace_of(o, key + '.p', base, min_len=min_len, max_len=max_len)


def _pw_weighting(o, n):
    wk = o.pick('pw.w', ('none', 'none', 'const', 'array'))
    if wk == 'const':
        return o.scalar('pw.wc', positive=True)
    if wk == 'array':
        return [o.scalar('pw.wa%d' % i, positive=True) for i in range(n)]
    return None


@entry('PointwiseNorm', 'tensor')
def _pwnorm(o):
    vf = _vfspace(o)
    p = o.pick('p', [None, 1, 2, float('inf'), 3, 1.5, 2.5])
    w = _pw_weighting(o, vf['power'])
    return lambda: odl.PointwiseNorm(B(vf), exponent=p, weighting=w)


@entry('PointwiseNorm.derivative', 'derivative', classes=['PointwiseInner'])
def _pwnorm_deriv(o):
    vf = _vfspace(o, cplx_ok=False)
    p = o.pick('p', [2, 3, 1.5, 1])
    w = _pw_weighting(o, vf['power'])
    seed = o.seed()

    def mk():
        sp = B(vf)
        return odl.PointwiseNorm(sp, exponent=p, weighting=w).derivative(
            vec(sp, seed, 'nz'))
    return mk


@entry('PointwiseInner', 'tensor')
def _pwinner(o):
    vf = _vfspace(o)
    w = _pw_weighting(o, vf['power'])
    seed = o.seed()
    adj = o.flag('adjoint')

    def mk():
        sp = B(vf)
        op = odl.PointwiseInner(sp, vec(sp, seed), weighting=w)
        return op.adjoint if adj else op
    return mk


@entry('PointwiseInnerAdjoint', 'tensor')
def _pwinner_adj(o):
    vf = _vfspace(o)
    w = _pw_weighting(o, vf['power'])
    seed = o.seed()
    give_vf = o.flag('give_vfspace')

    def mk():
        sp = B(vf)
        return odl.operator.tensor_ops.PointwiseInnerAdjoint(
            sp[0], vec(sp, seed), vfspace=sp if give_vf else None,
            weighting=w)
    return mk


@entry('PointwiseSum', 'tensor')
def _pwsum(o):
    vf = _vfspace(o)
    w = _pw_weighting(o, vf['power'])
    adj = o.flag('adjoint')

    def mk():
        op = odl.PointwiseSum(B(vf), weighting=w)
        return op.adjoint if adj else op
    return mk


def _matrix(seed, m, n, cplx=False, kind='dense', dtype=None, diag=0.0):
    rng = np.random.RandomState(seed)
    a = np.round(rng.uniform(-2, 2, size=(m, n)), 2)
    if cplx:
        a = a + 1j * np.round(rng.uniform(-2, 2, size=(m, n)), 2)
    if kind in ('sparse', 'coo'):
        import scipy.sparse
        a[np.abs(a) < 0.8] = 0
        if diag:
            a = a + diag * np.eye(m, n)
        return (scipy.sparse.csr_matrix if kind == 'sparse' else
                scipy.sparse.coo_matrix)(a)
    if diag:
        a = a + diag * np.eye(m, n)
    if dtype is not None:
        a = a.astype(dtype)
    return a


@entry('MatrixOperator', 'tensor', weight=2)
def _matop(o):
    m = o.pick('m', st.integers(1, 5))
    n = o.pick('n', st.integers(1, 5))
    kind = o.pick('mkind', ('dense', 'dense', 'sparse', 'coo'))
    cplx = o.pick('cplx', ('no', 'no', 'matrix', 'both'))
    f32 = o.flag('f32') and cplx == 'no' and kind == 'dense'
    seed = o.seed()
    how = o.pick('how', ('op', 'op', 'adjoint', 'inverse'))
    domgiven = o.pick('domgiven', ('none', 'tensor', 'discr', 'weighted'))
    if cplx == 'matrix':
        how = 'op'      # complex matrix on a real domain has no adjoint
    if how == 'inverse':
        m = n

    def mk():
        mat = _matrix(seed, m, n, cplx != 'no', kind,
                      'float32' if f32 else None,
                      diag=7.0 if how == 'inverse' else 0.0)
        dt = 'complex128' if cplx == 'both' else (
            'float32' if f32 else 'float64')
        dom = None
        if domgiven == 'tensor':
            dom = odl.tensor_space(n, dtype=dt)
        elif domgiven == 'discr':
            dom = odl.uniform_discr(0, 2, n, dtype=dt)
        elif domgiven == 'weighted':
            dom = odl.tensor_space(n, dtype=dt, weighting=2.5)
        elif cplx == 'both' and kind == 'dense':
            dom = odl.cn(n)
        op = odl.MatrixOperator(mat, domain=dom)
        return op if how == 'op' else getattr(op, how)
    return mk


@entry('MatrixOperator.axis', 'tensor', classes=['MatrixOperator'], weight=2)
def _matop_axis(o):
    shape = o.pick('shape', vs.small_shapes(min_ndim=2, max_ndim=3,
                                            max_side=4, max_size=30))
    axis = o.pick('axis', st.integers(0, len(shape) - 1))
    m = o.pick('m', st.integers(1, 4))
    cplx = o.flag('cplx')
    rangiven = o.flag('rangiven')
    neg = o.flag('negaxis')
    how = o.pick('how', ('op', 'op', 'adjoint'))
    seed = o.seed()

    def mk():
        mat = _matrix(seed, m, shape[axis], cplx)
        dom = odl.tensor_space(shape, dtype=complex if cplx else float)
        rshape = list(shape)
        rshape[axis] = m
        ran = odl.tensor_space(rshape, dtype=complex if cplx else float) \
            if rangiven else None
        op = odl.MatrixOperator(mat, domain=dom, range=ran,
                                axis=axis - len(shape) if neg else axis)
        return op if how == 'op' else op.adjoint
    return mk


def _sampling_points(o, shape):
    npts = o.pick('npts', st.integers(1, 5))
    pts = [[o.pick('pt%d_%d' % (a, i), st.integers(0, shape[a] - 1))
            for i in range(npts)] for a in range(len(shape))]
    return pts


@entry('SamplingOperator', 'tensor', exact=True)
def _sampling(o):
    sd = space(o, 'space', kinds=('discr', 'rn', 'cdiscr', 'cn'),
               medium=False)
    shape = build.space_shape(sd)
    pts = _sampling_points(o, shape)
    variant = o.pick('variant', ('point_eval', 'integrate'))
    how = o.pick('how', ('op', 'op', 'adjoint'))
    flat1d = o.flag('flat1d')

    def mk():
        p = pts[0] if (len(shape) == 1 and flat1d) else pts
        op = odl.SamplingOperator(B(sd), p, variant)
        return op if how == 'op' else op.adjoint
    return mk


@entry('WeightedSumSamplingOperator', 'tensor')
def _wsum_sampling(o):
    sd = space(o, 'space', kinds=('discr', 'rn', 'cdiscr', 'cn'),
               medium=False)
    shape = build.space_shape(sd)
    pts = _sampling_points(o, shape)
    variant = o.pick('variant', ('char_fun', 'dirac'))
    how = o.pick('how', ('op', 'op', 'adjoint'))

    def mk():
        op = odl.WeightedSumSamplingOperator(B(sd), pts, variant)
        return op if how == 'op' else op.adjoint
    return mk


@entry('FlatteningOperator', 'tensor', exact=True,
       classes=['FlatteningOperator', 'FlatteningOperatorInverse'])
def _flatten(o):
    sd = space(o, 'space', kinds=('discr', 'rn', 'cdiscr', 'cn'),
               ndims=(1, 3))
    order = o.pick('order', ('C', 'F'))
    how = o.pick('how', ('op', 'op', 'adjoint', 'inverse', 'invinv'))

    def mk():
        op = odl.FlatteningOperator(B(sd), order)
        if how == 'invinv':
            return op.inverse.inverse
        return op if how == 'op' else getattr(op, how)
    return mk


# --- odl.operator.pspace_ops ----------------------------------------------

ENDO_KINDS = ['scale', 'ident', 'mult', 'sin', 'exp', 'square', 'const',
              'zero', 'vecsum', 'absolute']


def endo(o, key, kinds=None, linear=False):
    """Pick a small endomorphism kind; returns f(space) -> operator."""
    if kinds is None:
        kinds = ['scale', 'ident', 'mult', 'zero'] if linear else ENDO_KINDS
    k = o.pick(key + '.k', kinds)
    seed = o.pick(key + '.seed', st.integers(0, 9999))
    s = o.scalar(key + '.s', nonzero=True)

    def mk(sp):
        if k == 'scale':
            return odl.ScalingOperator(sp, s)
        if k == 'ident':
            return odl.IdentityOperator(sp)
        if k == 'mult':
            return odl.MultiplyOperator(vec(sp, seed))
        if k in ('sin', 'exp', 'square', 'absolute'):
            if isinstance(sp, ProductSpace) or sp.is_complex:
                return odl.ScalingOperator(sp, s) * odl.MultiplyOperator(
                    vec(sp, seed))
            return getattr(odl.ufunc_ops, k)(sp)
        if k == 'const':
            return odl.ConstantOperator(vec(sp, seed))
        if k == 'zero':
            return odl.ZeroOperator(sp)
        if k == 'vecsum':
            return odl.IdentityOperator(sp) - vec(sp, seed)
        raise HarnessError('unknown endo kind ' + k)
    return mk


@entry('ProductSpaceOperator', 'pspace', weight=3)
def _pso(o):
    sd = space(o, 'space', kinds=('rn', 'discr', 'cn'), medium=False)
    nr = o.pick('nrows', st.integers(1, 3))
    nc = o.pick('ncols', st.integers(1, 3))
    cells = []
    for i in range(nr):
        row = []
        for j in range(nc):
            ck = o.pick('c%d%d' % (i, j), ('op', 'op', 'none', 'zero'))
            row.append(endo(o, 'e%d%d' % (i, j)) if ck == 'op' else ck)
        cells.append(row)
    how = o.pick('how', ('op', 'op', 'op', 'derivative', 'adjoint'))
    seed = o.seed()
    give_spaces = o.flag('give_spaces')

    def mk():
        sp = B(sd)
        mat = [[(None if c == 'none' else 0) if isinstance(c, str)
                else c(sp) for c in row] for row in cells]
        dom, ran = ProductSpace(sp, nc), ProductSpace(sp, nr)
        allempty = all(isinstance(c, str) for row in cells for c in row)
        if give_spaces or allempty or \
                any(all(isinstance(c, str) for c in row) for row in cells) \
                or any(all(isinstance(cells[i][j], str) for i in range(nr))
                       for j in range(nc)):
            op = odl.ProductSpaceOperator(mat, domain=dom, range=ran)
        else:
            op = odl.ProductSpaceOperator(mat)
        if how == 'derivative':
            return op.derivative(vec(op.domain, seed))
        if how == 'adjoint' and op.is_linear:
            return op.adjoint
        return op
    return mk


def _mixed_pspace(o, key='ps'):
    n = o.pick(key + '.n', st.integers(1, 4))
    parts = [space(o, key + '.%d' % i, kinds=('rn', 'discr'), medium=False)
             for i in range(n)]
    if o.flag(key + '.power'):
        return pspace_of(o, key + '.pw', parts[0], min_len=1, max_len=4)
    return {'kind': 'pspace', 'parts': parts, 'power': None,
            'weighting': None, 'exponent': 2.0}


def _cp_index(o, n):
    ik = o.pick('ikind', ('int', 'int', 'list', 'slice', 'neg'))
    if ik == 'int':
        return o.pick('idx', st.integers(0, n - 1))
    if ik == 'neg':
        return -1 - o.pick('idx', st.integers(0, n - 1))
    if ik == 'list':
        return o.pick('idxl', st.lists(st.integers(0, n - 1), min_size=1,
                                       max_size=3))
    a = o.pick('sl0', st.integers(0, n - 1))
    return ['slice', a, o.pick('sl1', st.integers(a + 1, n))]


def _mkidx(idx):
    if isinstance(idx, (list, tuple)) and len(idx) == 3 and \
            idx[0] == 'slice':
        return slice(idx[1], idx[2])
    return list(idx) if isinstance(idx, (list, tuple)) else idx


@entry('ComponentProjection', 'pspace', exact=True, weight=2)
def _cproj(o):
    ps = _mixed_pspace(o)
    n = len(build.space_parts(ps))
    idx = _cp_index(o, n)
    return lambda: odl.ComponentProjection(B(ps), _mkidx(idx))


@entry('ComponentProjectionAdjoint', 'pspace', exact=True, weight=2)
def _cproj_adj(o):
    ps = _mixed_pspace(o)
    n = len(build.space_parts(ps))
    idx = _cp_index(o, n)
    via = o.flag('via_adjoint')

    def mk():
        if via:
            return odl.ComponentProjection(B(ps), _mkidx(idx)).adjoint
        return odl.ComponentProjectionAdjoint(B(ps), _mkidx(idx))
    return mk


def _pspace_family(name, ctor, same_range):
    @entry(name, 'pspace', weight=2)
    def _f(o):
        sd = space(o, 'space', kinds=('rn', 'discr', 'cn'), medium=False)
        n = o.pick('n', st.integers(1, 3))
        parts = [endo(o, 'e%d' % i) for i in range(n)]
        how = o.pick('how', ('op', 'op', 'op', 'derivative', 'adjoint'))
        seed = o.seed()

        def mk():
            sp = B(sd)
            op = ctor(*[p(sp) for p in parts])
            if how == 'derivative':
                return op.derivative(vec(op.domain, seed))
            if how == 'adjoint' and op.is_linear:
                return op.adjoint
            return op
        return mk
    return _f


_pspace_family('BroadcastOperator', odl.BroadcastOperator, False)
_pspace_family('ReductionOperator', odl.ReductionOperator, True)
_pspace_family('DiagonalOperator', odl.DiagonalOperator, False)


@entry('BroadcastOperator.power', 'pspace',
       classes=['BroadcastOperator', 'ReductionOperator', 'DiagonalOperator'])
def _pspace_int(o):
    """The (operator, int) calling convention."""
    sd = space(o, 'space', kinds=('rn', 'discr'), medium=False)
    e = endo(o, 'e')
    n = o.pick('n', st.integers(1, 3))
    which = o.pick('which', ('Broadcast', 'Reduction', 'Diagonal'))
    return lambda: getattr(odl, which + 'Operator')(e(B(sd)), n)


# --- odl.discr.diff_ops ---------------------------------------------------

PAD_MODES = ['constant', 'symmetric', 'symmetric_adjoint', 'periodic',
             'order0', 'order0_adjoint', 'order1', 'order1_adjoint',
             'order2', 'order2_adjoint']
METHODS = ['forward', 'backward', 'central']


def _diff_space(o, key='space', ndims=(1, 3), cplx=True):
    return space(o, key, kinds=('discr', 'discr', 'cdiscr') if cplx
                 else ('discr',), ndims=ndims, min_side=3, max_side=6,
                 max_size=150, medium=False, weighted=False)


def _diff_opts(o, laplacian=False):
    modes = [m for m in PAD_MODES
             if not (laplacian and m.startswith(('order1', 'order2')))]
    pm = o.pick('pad_mode', modes)
    pc = 0
    if pm == 'constant':
        pc = o.pick('pad_const', [0, 0, 1.0, -2.5])
    return pm, pc


@entry('PartialDerivative', 'diff', weight=3)
def _pderiv(o):
    sd = _diff_space(o)
    axis = o.pick('axis', st.integers(0, len(sd['shape']) - 1))
    meth = o.pick('method', METHODS)
    pm, pc = _diff_opts(o)
    how = o.pick('how', ('op', 'op', 'op', 'adjoint', 'derivative'))
    rangiven = o.flag('rangiven')

    def mk():
        sp = B(sd)
        op = odl.PartialDerivative(sp, axis, range=sp if rangiven else None,
                                   method=meth, pad_mode=pm, pad_const=pc)
        if how == 'adjoint' and op.is_linear:
            return op.adjoint
        if how == 'derivative':
            return op.derivative(sp.zero())
        return op
    return mk


@entry('Gradient', 'diff', weight=2)
def _gradient(o):
    sd = _diff_space(o)
    meth = o.pick('method', METHODS)
    pm, pc = _diff_opts(o)
    how = o.pick('how', ('op', 'op', 'op', 'adjoint', 'derivative'))
    give = o.pick('give', ('domain', 'range', 'both'))

    def mk():
        sp = B(sd)
        kw = {}
        if give in ('domain', 'both'):
            kw['domain'] = sp
        if give in ('range', 'both'):
            kw['range'] = sp ** sp.ndim
        op = odl.Gradient(method=meth, pad_mode=pm, pad_const=pc, **kw)
        if how == 'adjoint' and op.is_linear:
            return op.adjoint
        if how == 'derivative':
            return op.derivative(sp.zero())
        return op
    return mk


@entry('Divergence', 'diff', weight=2)
def _divergence(o):
    sd = _diff_space(o)
    meth = o.pick('method', METHODS)
    pm, pc = _diff_opts(o)
    how = o.pick('how', ('op', 'op', 'op', 'adjoint', 'derivative'))
    give = o.pick('give', ('domain', 'range', 'both'))

    def mk():
        sp = B(sd)
        kw = {}
        if give in ('domain', 'both'):
            kw['domain'] = sp ** sp.ndim
        if give in ('range', 'both'):
            kw['range'] = sp
        op = odl.Divergence(method=meth, pad_mode=pm, pad_const=pc, **kw)
        if how == 'adjoint' and op.is_linear:
            return op.adjoint
        if how == 'derivative':
            return op.derivative(op.domain.zero())
        return op
    return mk


@entry('Laplacian', 'diff', weight=2)
def _laplacian(o):
    sd = _diff_space(o)
    pm, pc = _diff_opts(o, laplacian=True)
    how = o.pick('how', ('op', 'op', 'op', 'adjoint', 'derivative'))
    rangiven = o.flag('rangiven')

    def mk():
        sp = B(sd)
        op = odl.Laplacian(sp, range=sp if rangiven else None, pad_mode=pm,
                           pad_const=pc)
        if how == 'adjoint' and op.is_linear:
            return op.adjoint
        if how == 'derivative':
            return op.derivative(sp.zero())
        return op
    return mk


# --- odl.discr.discr_ops --------------------------------------------------

@entry('Resampling', 'discr', weight=2)
def _resampling(o):
    sd = space(o, 'space', kinds=('discr', 'discr', 'cdiscr'), ndims=(1, 2),
               min_side=2, max_side=6, max_size=40, medium=False,
               weighted=False)
    nd = len(sd['shape'])
    rshape = [o.pick('rs%d' % i, st.integers(1, 8)) for i in range(nd)]
    ik = o.pick('ikind', ('nearest', 'linear', 'peraxis'))
    interp = ik if ik != 'peraxis' else [
        o.pick('i%d' % i, ('nearest', 'linear')) for i in range(nd)]
    how = o.pick('how', ('op', 'op', 'inverse', 'adjoint'))
    rnob = o.flag('ran_nob')

    def mk():
        sp = B(sd)
        ran = odl.uniform_discr(sp.min_pt, sp.max_pt, rshape, dtype=sp.dtype,
                                nodes_on_bdry=rnob and min(rshape) > 1)
        op = odl.Resampling(sp, ran, interp)
        return op if how == 'op' else getattr(op, how)
    return mk


RESIZE_PAD = ['constant', 'symmetric', 'periodic', 'order0', 'order1']


@entry('ResizingOperator', 'discr', weight=3,
       classes=['ResizingOperator', 'ResizingOperatorAdjoint'])
def _resizing(o):
    sd = space(o, 'space', kinds=('discr', 'discr', 'cdiscr'), ndims=(1, 3),
               min_side=2, max_side=5, max_size=60, medium=False,
               weighted=False, nob=False)
    shape = sd['shape']
    pm = o.pick('pad_mode', RESIZE_PAD)
    pc = o.pick('pad_const', [0, 0, 2.0, -1.5]) if pm == 'constant' else 0
    rshape, offset = [], []
    for i, n in enumerate(shape):
        # per axis either padding or cropping (resize_array's contract);
        # documented limits: symmetric pads < n, periodic pads <= n
        mode = o.pick('m%d' % i, ('pad', 'pad', 'crop', 'same'))
        if mode == 'pad':
            maxpad = {'symmetric': n - 1, 'periodic': n}.get(pm, n + 2)
            left = o.pick('l%d' % i, st.integers(0, maxpad))
            right = o.pick('r%d' % i, st.integers(0, maxpad))
        elif mode == 'crop':
            left = -o.pick('l%d' % i, st.integers(0, n - 1))
            right = -o.pick('r%d' % i, st.integers(0, n - 1 + left))
        else:
            left = right = 0
        rshape.append(n + left + right)
        offset.append(abs(left))
    give = o.pick('give', ('ran_shp', 'ran_shp+offset', 'range'))
    how = o.pick('how', ('op', 'op', 'adjoint', 'derivative', 'adjadj'))
    nob = o.flag('discr_nob')

    def mk():
        sp = B(sd)
        kw = {'pad_mode': pm}
        if pm == 'constant':
            kw['pad_const'] = pc
        if give == 'range':
            cs = sp.cell_sides
            sgn = np.array([1 if r >= n else -1
                            for r, n in zip(rshape, shape)])
            mn = sp.min_pt - sgn * np.array(offset) * cs
            ran = odl.uniform_discr(mn, mn + np.array(rshape) * cs, rshape,
                                    dtype=sp.dtype)
            op = odl.ResizingOperator(sp, ran, **kw)
        elif give == 'ran_shp':
            if nob:
                kw['discr_kwargs'] = {'nodes_on_bdry': True}
            op = odl.ResizingOperator(sp, ran_shp=rshape, **kw)
        else:
            op = odl.ResizingOperator(sp, ran_shp=rshape, offset=offset,
                                      **kw)
        if how == 'adjoint' and op.is_linear:
            return op.adjoint
        if how == 'adjadj' and op.is_linear:
            return op.adjoint.adjoint
        if how == 'derivative':
            return op.derivative(sp.zero())
        return op
    return mk


# --- odl.ufunc_ops --------------------------------------------------------

from odl.util.ufuncs import UFUNCS  # noqa: E402

DOMS['posint'] = (1, 6)
_UF_DOM = {'arccos': 'unit', 'arcsin': 'unit', 'arctanh': 'unit',
           'log': 'pos', 'log2': 'pos', 'log10': 'pos', 'sqrt': 'pos',
           'log1p': 'pos', 'reciprocal': 'nz', 'arccosh': 'gt1',
           'power': 'pos', 'divide': 'nz', 'true_divide': 'nz',
           'floor_divide': 'nz', 'remainder': 'nz', 'mod': 'nz',
           'fmod': 'nz', 'exp': 'mod', 'expm1': 'mod', 'exp2': 'mod',
           'sinh': 'mod', 'cosh': 'mod', 'tan': 'unit', 'square': 'any',
           'logaddexp': 'mod', 'logaddexp2': 'mod'}
_UF_INT_DOM = {'power': 'nat', 'left_shift': 'nat', 'right_shift': 'nat',
               'divide': 'posint', 'true_divide': 'posint',
               'floor_divide': 'posint', 'remainder': 'posint',
               'mod': 'posint', 'fmod': 'posint', 'reciprocal': 'posint',
               'log': 'posint', 'log2': 'posint', 'log10': 'posint',
               'sqrt': 'posint', 'log1p': 'posint', 'arccosh': 'posint',
               'arccos': 'nat', 'arcsin': 'nat', 'arctanh': 'nat',
               'exp': 'nat', 'exp2': 'nat', 'expm1': 'nat', 'sinh': 'nat',
               'cosh': 'nat'}
for _d in ('arccos', 'arcsin', 'arctanh'):
    _UF_INT_DOM[_d] = 'zero'
DOMS['zero'] = (0, 0)
UFUNC_DERIV = ['sin', 'cos', 'tan', 'sqrt', 'square', 'log', 'exp',
               'reciprocal', 'sinh', 'cosh']


def _int_only(name):
    return 'shift' in name or 'bitwise' in name or name == 'invert'


def _uf_kinds(name, nin):
    uf = getattr(np, name)
    ins = [t.split('->')[0] for t in uf.types]
    kinds = []
    if not _int_only(name):
        kinds += ['rn', 'rn', 'discr']
        if 'D' * nin in ins:
            kinds += ['cn']
        if name not in ('signbit', 'copysign', 'arctan2', 'hypot',
                        'logaddexp', 'logaddexp2', 'modf', 'ceil', 'floor',
                        'trunc', 'deg2rad', 'rad2deg'):
            kinds += ['int']
        else:
            kinds += ['int']   # ints are cast to the minimal float signature
    else:
        kinds += ['int']
    return kinds


def _make_ufunc_entry(name, nin, nout):
    @entry('ufunc.' + name, 'ufunc', classes=[name + '_op'])
    def _f(o):
        sd = space(o, 'space', kinds=_uf_kinds(name, nin), ndims=(1, 2),
                   weighted=True)
        isint = np.dtype(sd['dtype']).kind in 'iu'
        o.dom = (_UF_INT_DOM.get(name, 'int') if isint
                 else _UF_DOM.get(name, 'any'))
        if _is_cplx(sd) and o.dom == 'any':
            o.dom = 'mod'
        pair = o.flag('as_pair') and nin == 2

        def mk():
            sp = B(sd)
            return getattr(odl.ufunc_ops, name)(
                ProductSpace(sp, sp) if pair else sp)
        return mk

    if not _int_only(name) and nin == 1 and nout == 1:
        @entry('ufunc.' + name + '.func', 'ufuncfunc',
               classes=[name + '_func'])
        def _g(o):
            o.dom = _UF_DOM.get(name, 'any')
            how = o.pick('how', ('default', 'explicit'))
            return lambda: (getattr(odl.ufunc_ops, name)() if how == 'default'
                            else getattr(odl.ufunc_ops, name)(
                                odl.RealNumbers()))


for _name, _nin, _nout, _doc in UFUNCS:
    _make_ufunc_entry(_name, _nin, _nout)


@entry('ufunc.derivative', 'derivative', classes=['MultiplyOperator'])
def _uf_deriv(o):
    name = o.pick('name', UFUNC_DERIV)
    sd = space(o, 'space', kinds=('rn', 'discr'), weighted=True)
    seed = o.seed()

    def mk():
        sp = B(sd)
        pt = vec(sp, seed, {'sqrt': 'pos', 'log': 'pos', 'reciprocal': 'nz',
                            'tan': 'unit'}.get(name, 'mod'))
        return getattr(odl.ufunc_ops, name)(sp).derivative(pt)
    return mk


@entry('ufunc.func.gradient', 'gradient',
       classes=['FunctionalQuotient', 'ScalingFunctional',
                'FunctionalLeftScalarMult'])
def _uf_grad(o):
    name = o.pick('name', UFUNC_DERIV)
    o.dom = {'sqrt': 'pos', 'log': 'pos', 'reciprocal': 'nz',
             'tan': 'unit'}.get(name, 'mod')
    return lambda: getattr(odl.ufunc_ops, name)().gradient


@entry('ufunc.ldexp-like.mixed', 'ufunc', classes=['add_op'])
def _uf_mixed(o):
    """Two-argument ufunc on a product of two *different* spaces."""
    name = o.pick('name', ('add', 'multiply', 'maximum', 'less', 'power'))
    n = o.pick('n', st.integers(1, 5))
    o.dom = 'pos'
    return lambda: getattr(odl.ufunc_ops, name)(
        ProductSpace(odl.rn(n), odl.rn(n, dtype='float32')))


# --- expression classes of odl.operator.operator --------------------------

EXPR_KINDS = ['sum', 'comp', 'lscal', 'rscal', 'lvec', 'rvec', 'vecsum',
              'pwprod', 'neg', 'pow', 'div']


def expr(o, key, depth, linear=False):
    """Pick an endomorphism expression tree; returns f(space) -> operator."""
    if depth == 0:
        return endo(o, key, linear=linear)
    kinds = ['sum', 'comp', 'lscal', 'rscal', 'neg'] if linear else EXPR_KINDS
    k = o.pick(key + '.x', kinds)
    a = expr(o, key + 'a', depth - 1, linear)
    b = expr(o, key + 'b', depth - 1, linear) \
        if k in ('sum', 'comp', 'pwprod') else None
    s = o.scalar(key + '.xs', nonzero=True)
    seed = o.pick(key + '.xseed', st.integers(0, 9999))
    n = o.pick(key + '.n', st.integers(0, 3)) if k == 'pow' else 0
    tmp = o.pick(key + '.tmp', (False, False, True))
    direct = o.pick(key + '.direct', (False, True))

    def mk(sp):
        A = a(sp)
        Bop = b(sp) if b is not None else None
        v = vec(sp, seed)
        if k == 'sum':
            if direct:
                return odl.OperatorSum(A, Bop, sp.element() if tmp else None,
                                       sp.element() if tmp else None)
            return A + Bop
        if k == 'comp':
            if direct:
                return odl.OperatorComp(A, Bop, sp.element() if tmp else None)
            return A * Bop
        if k == 'lscal':
            return odl.OperatorLeftScalarMult(A, s) if direct else s * A
        if k == 'rscal':
            if direct:
                return odl.OperatorRightScalarMult(
                    A, s, sp.element() if tmp else None)
            return A * s
        if k == 'lvec':
            return odl.OperatorLeftVectorMult(A, v) if direct else v * A
        if k == 'rvec':
            return odl.OperatorRightVectorMult(A, v) if direct else A * v
        if k == 'vecsum':
            return odl.OperatorVectorSum(A, v) if direct else (
                A - v if tmp else A + v)
        if k == 'pwprod':
            return odl.OperatorPointwiseProduct(A, Bop)
        if k == 'neg':
            return -A
        if k == 'pow':
            return A ** max(n, 1)
        if k == 'div':
            return A / s
        raise HarnessError('unknown expression kind ' + k)
    return mk


def _expr_entry(kind, cls):
    @entry('expr.' + kind, 'expr', classes=[cls], weight=2)
    def _f(o):
        sd = anyspace(o, 'space', kinds=('rn', 'discr', 'cn'), medium=True)
        o.opts['t.x'] = kind
        depth = o.pick('depth', (1, 1, 2))
        lin = o.flag('linear')
        if kind in ('lvec', 'rvec', 'vecsum', 'pwprod', 'pow', 'div') and lin:
            lin = False
        # force the top-level node kind, operands are drawn
        saved = o.draw
        e = _forced_expr(o, 't', depth, lin, kind)
        o.draw = saved
        o.dom = 'mod'
        return lambda: e(B(sd))
    return _f


def _forced_expr(o, key, depth, linear, kind):
    class _Forced(Src):
        pass
    orig_pick = o.pick

    def pick(k, strat):
        if k == key + '.x':
            if o.draw is not None:
                o.opts[k] = kind
            return kind
        return orig_pick(k, strat)
    o.pick = pick
    try:
        return expr(o, key, depth, linear)
    finally:
        o.pick = orig_pick


for _k, _c in [('sum', 'OperatorSum'), ('comp', 'OperatorComp'),
               ('lscal', 'OperatorLeftScalarMult'),
               ('rscal', 'OperatorRightScalarMult'),
               ('lvec', 'OperatorLeftVectorMult'),
               ('rvec', 'OperatorRightVectorMult'),
               ('vecsum', 'OperatorVectorSum'),
               ('pwprod', 'OperatorPointwiseProduct'),
               ('neg', 'OperatorLeftScalarMult'), ('pow', 'OperatorComp'),
               ('div', 'OperatorLeftScalarMult')]:
    _expr_entry(_k, _c)


@entry('expr.derived', 'expr', weight=3,
       classes=['OperatorSum', 'OperatorComp', 'OperatorLeftScalarMult',
                'OperatorRightScalarMult', 'OperatorLeftVectorMult',
                'OperatorRightVectorMult'])
def _expr_derived(o):
    """derivative(x) / adjoint / inverse of expression trees."""
    sd = anyspace(o, 'space', kinds=('rn', 'discr', 'cn'), medium=False)
    how = o.pick('how', ('derivative', 'adjoint', 'inverse'))
    depth = o.pick('depth', (1, 2))
    if how == 'derivative':
        e = expr(o, 't', depth, False)
    elif how == 'adjoint':
        e = expr(o, 't', depth, True)
    else:
        kinds = ['scale', 'ident', 'mult']
        a = endo(o, 'ia', kinds)
        b = endo(o, 'ib', kinds)
        ik = o.pick('ikind', ('comp', 'lscal', 'rscal', 'lvec', 'rvec'))
        s = o.scalar('is', nonzero=True)
        seed0 = o.seed('iseed')

        def e(sp):
            A, Bop = a(sp), b(sp)
            v = vec(sp, seed0, 'nz')
            return {'comp': lambda: A * Bop, 'lscal': lambda: s * A,
                    'rscal': lambda: A * s, 'lvec': lambda: v * A,
                    'rvec': lambda: A * v}[ik]()
    seed = o.seed()
    o.dom = 'mod'

    def mk():
        sp = B(sd)
        op = e(sp)
        if how == 'derivative':
            return op.derivative(vec(sp, seed, 'mod'))
        return getattr(op, how)
    return mk


@entry('expr.rect', 'expr', weight=2,
       classes=['OperatorComp', 'OperatorSum', 'OperatorLeftVectorMult',
                'OperatorRightVectorMult', 'OperatorVectorSum'])
def _expr_rect(o):
    """Expressions whose operands change the space (rn(n) -> rn(m))."""
    m = o.pick('m', st.integers(1, 5))
    n = o.pick('n', st.integers(1, 5))
    seed = o.seed()
    k = o.pick('k', ('comp', 'compL', 'sum', 'lvec', 'rvec', 'vecsum',
                     'lscal', 'rscal', 'adjcomp', 'func-lvec'))
    e = endo(o, 'e')
    s = o.scalar('s', nonzero=True)
    o.dom = 'mod'

    def mk():
        A = odl.MatrixOperator(_matrix(seed, m, n))
        A2 = odl.MatrixOperator(_matrix(seed + 1, m, n))
        if k == 'comp':
            return A * e(A.domain)
        if k == 'compL':
            return e(A.range) * A
        if k == 'sum':
            return A + A2
        if k == 'lvec':
            return vec(A.range, seed) * A
        if k == 'rvec':
            return A * vec(A.domain, seed)
        if k == 'vecsum':
            return A - vec(A.range, seed)
        if k == 'lscal':
            return s * A
        if k == 'rscal':
            return A * s
        if k == 'adjcomp':
            return A.adjoint * A2
        return vec(A.range, seed) * S.L2NormSquared(A.range) * A
    return mk


@entry('FunctionalLeftVectorMult', 'expr')
def _flvm(o):
    sd = anyspace(o, 'space', kinds=('rn', 'discr'), medium=False)
    rd = anyspace(o, 'ran', kinds=('rn', 'discr'), medium=True)
    fk = o.pick('f', ('l2sq', 'l1', 'inner', 'norm'))
    seed = o.seed()
    how = o.pick('how', ('op', 'op', 'derivative', 'adjoint'))
    direct = o.flag('direct')

    def mk():
        sp, ran = B(sd), B(rd)
        f = {'l2sq': lambda: S.L2NormSquared(sp), 'l1': lambda: S.L1Norm(sp),
             'inner': lambda: odl.InnerProductOperator(vec(sp, seed)),
             'norm': lambda: odl.NormOperator(sp)}[fk]()
        v = vec(ran, seed + 1)
        op = odl.FunctionalLeftVectorMult(f, v) if direct else v * f
        if how == 'derivative' and fk in ('l2sq', 'inner'):
            return op.derivative(vec(sp, seed + 2, 'nz'))
        if how == 'adjoint' and fk == 'inner':
            return op.adjoint
        return op
    return mk
