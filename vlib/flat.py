"""Flatten / unflatten elements of arbitrary spaces, Gram matrices, operator
matrices (real-ified: a complex entry becomes the pair (re, im))."""
import numpy as np

from .core import import_odl

odl = import_odl()
from odl.space.pspace import ProductSpace  # noqa: E402
from odl.set.sets import Field, ComplexNumbers  # noqa: E402


def is_complex_space(space):
    if isinstance(space, Field):
        return isinstance(space, ComplexNumbers)
    if isinstance(space, ProductSpace):
        return len(space) > 0 and all(is_complex_space(s)
                                      for s in space.spaces)
    return bool(space.is_complex)


def leaf_arrays(x, space):
    if isinstance(space, Field):
        yield np.atleast_1d(np.asarray(x)), isinstance(space, ComplexNumbers)
    elif isinstance(space, ProductSpace):
        for xi, si in zip(x, space.spaces):
            for a in leaf_arrays(xi, si):
                yield a
    else:
        yield np.asarray(x), bool(space.is_complex)


def flat(x, space):
    """Real-ified flat vector (float64/longdouble safe) of element ``x``."""
    parts = []
    for a, cplx in leaf_arrays(x, space):
        a = np.asarray(a).ravel()
        if cplx:
            a = a.astype(complex)
            parts.append(np.stack([a.real, a.imag], axis=-1).ravel())
        else:
            parts.append(np.real(a).astype(float))
    return np.concatenate(parts) if parts else np.zeros(0)


def rdim(space):
    if isinstance(space, Field):
        return 2 if isinstance(space, ComplexNumbers) else 1
    if isinstance(space, ProductSpace):
        return sum(rdim(s) for s in space.spaces)
    return int(space.size) * (2 if space.is_complex else 1)


def unflat(v, space):
    v = np.asarray(v, dtype=float)
    if isinstance(space, Field):
        if isinstance(space, ComplexNumbers):
            return complex(v[0], v[1])
        return float(v[0])
    if isinstance(space, ProductSpace):
        parts, pos = [], 0
        for s in space.spaces:
            n = rdim(s)
            parts.append(unflat(v[pos:pos + n], s))
            pos += n
        return space.element(parts)
    if space.is_complex:
        c = v.reshape(-1, 2)
        arr = (c[:, 0] + 1j * c[:, 1]).reshape(space.shape)
    else:
        arr = v.reshape(space.shape)
    return space.element(arr.astype(space.dtype))


def sinner(space, x, y):
    if isinstance(space, Field):
        return x * np.conj(y)
    return space.inner(x, y)


def snorm(space, x):
    if isinstance(space, Field):
        return abs(x)
    return space.norm(x)


def gram(space):
    """G[i, j] = Re <e_j, e_i> through the library's own inner product."""
    n = rdim(space)
    eye = np.eye(n)
    E = [unflat(eye[k], space) for k in range(n)]
    G = np.empty((n, n))
    for i in range(n):
        for j in range(n):
            G[i, j] = np.real(sinner(space, E[j], E[i]))
    return G


def opmatrix(op, domain=None, range=None):
    """Real matrix M and offset op(0) of an (affine) operator."""
    dom = op.domain if domain is None else domain
    ran = op.range if range is None else range
    n, m = rdim(dom), rdim(ran)
    off = flat(op(unflat(np.zeros(n), dom)), ran)
    M = np.empty((m, n))
    eye = np.eye(n)
    for k in np.arange(n):
        M[:, k] = flat(op(unflat(eye[k], dom)), ran) - off
    return M, off


def complex_structure(space):
    """Matrix J of multiplication by i on the real-ified space (complex
    spaces only)."""
    n = rdim(space)
    J = np.zeros((n, n))
    for k in range(0, n, 2):
        J[k + 1, k] = 1.0
        J[k, k + 1] = -1.0
    return J


def adjoint_defect(op, adj=None):
    """Relative defect of N^T G_X = G_Y M (and the pieces)."""
    adj = op.adjoint if adj is None else adj
    M, off = opmatrix(op)
    N, offa = opmatrix(adj, domain=op.range, range=op.domain)
    GX, GY = gram(op.domain), gram(op.range)
    lhs = N.T @ GX
    rhs = GY @ M
    scale = max(np.abs(rhs).max(initial=0), np.abs(lhs).max(initial=0),
                1e-300)
    return (np.abs(lhs - rhs).max(initial=0) / scale, M, N, GX, GY, off, offa)
