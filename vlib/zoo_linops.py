"""Catalogue of linear operators for C05 (descriptor -> operator builders and
Hypothesis strategies for their options).

A *case* is ``{"family": name, "spaces": {key: <space descriptor>},
"op": <operator descriptor>}``.  Space-valued options of an operator
descriptor are *type expressions* over the keys of ``spaces``::

    "X"                         the space built from spaces["X"]
    ["real", T] / ["cplx", T]   T.real_space / T.complex_space
    ["pow", T, n, w]            ProductSpace(T, n, weighting=w)   (w optional)
    ["prod", [T, ...], w]       ProductSpace(T..., weighting=w)   (w optional)
    ["field", T]                T.field
    ["rn", shape, T, w]         plain tensor space of ``shape`` with T's dtype
                                (w: optional weighting descriptor)
    ["like", T, shape]          tensor space of ``shape`` carrying T's dtype and
                                T's constant weighting (the default range of
                                ``MatrixOperator(m, domain=T)``)

Every space is built exactly once per case (``Ctx`` caches by expression)
because array-weighted spaces compare by identity of the weighting array.

An operator descriptor is ``{"e": entry, <options>, "args": [<operator
descriptor>, ...]}``.  ``build_node`` returns a ``Node`` tree: ``node.op`` is
the live operator, ``node.children`` the nodes of the operands it was built
from (they are checked first, so that a failure is attributed to the deepest
operator whose own adjoint rule is at fault).

Vectors (multiplicands, evaluation points of derivatives) are described by a
seed: seed 0 is the all-ones vector (1+1j in complex spaces), any other seed
draws half-integers in [-2, 2] from ``RandomState(seed)``; scalars and
matrices are explicit.
"""
import numpy as np
from hypothesis import strategies as st

from . import build, flat, strategies as vs
from .core import HarnessError, canonical_json, import_odl

odl = import_odl()
from odl.operator.operator import (  # noqa: E402
    OperatorSum, OperatorComp, OperatorRightScalarMult)
from odl.space.pspace import ProductSpace  # noqa: E402

# exceptions that are the documented way of refusing a construction
REJECT_EXC = (ValueError, TypeError, NotImplementedError)


class Node(object):
    """A built operator together with the operands it was built from."""

    __slots__ = ('op', 'children', 'entry', 'desc', 'depth', 'available',
                 'eps', 'views')

    def __init__(self, op, children, entry, desc):
        self.op = op
        self.children = list(children)
        self.entry = entry
        self.desc = desc
        self.available = False     # set by the check: op.adjoint exists
        self.eps = 0.0             # set by the check: coarsest precision
        self.views = False         # set by the check: op(x) is a view of x
        self.depth = 1 + max([c.depth for c in children] + [0])


class Ctx(object):
    """Spaces and vectors of one case."""

    def __init__(self, spaces):
        self.sds = spaces
        self.cache = {}

    def space(self, T):
        key = canonical_json(T)
        if key not in self.cache:
            self.cache[key] = self._make(T)
        return self.cache[key]

    def _w(self, w):
        if w is None:
            return {}
        if w['type'] == 'const':
            return {'weighting': float(w['value'])}
        return {'weighting': np.asarray(w['data'], dtype=float)}

    def _make(self, T):
        if isinstance(T, str):
            if T not in self.sds:
                raise HarnessError('unknown space key {!r}'.format(T))
            return build.build_space(self.sds[T])
        tag = T[0]
        if tag == 'real':
            return self.space(T[1]).real_space
        if tag == 'cplx':
            return self.space(T[1]).complex_space
        if tag == 'pow':
            w = T[3] if len(T) > 3 else None
            kw = self._w(w)
            if 'weighting' in kw and not np.isscalar(kw['weighting']):
                kw['weighting'] = [float(v) for v in kw['weighting']]
            return ProductSpace(self.space(T[1]), int(T[2]), **kw)
        if tag == 'prod':
            w = T[2] if len(T) > 2 else None
            kw = self._w(w)
            if 'weighting' in kw and not np.isscalar(kw['weighting']):
                kw['weighting'] = [float(v) for v in kw['weighting']]
            return ProductSpace(*[self.space(t) for t in T[1]], **kw)
        if tag == 'field':
            return self.space(T[1]).field
        if tag == 'rn':
            base = self.space(T[2])
            shape = T[1] if isinstance(T[1], int) else tuple(T[1])
            w = T[3] if len(T) > 3 else None
            kw = self._w(w)
            if 'weighting' in kw and not np.isscalar(kw['weighting']):
                kw['weighting'] = kw['weighting'].reshape(shape)
            return odl.tensor_space(shape, dtype=base.dtype, **kw)
        if tag == 'like':
            base = self.space(T[1])
            shape = T[2] if isinstance(T[2], int) else tuple(T[2])
            wconst = getattr(base.weighting, 'const', None)
            kw = {} if wconst is None else {'weighting': wconst}
            return odl.tensor_space(shape, dtype=base.dtype, **kw)
        raise HarnessError('unknown type expression {!r}'.format(T))

    def vec(self, space, seed, positive=False, nonzero=False):
        """Deterministic element of ``space`` (scalar for a field)."""
        n = flat.rdim(space)
        seed = int(seed)
        if seed == 0:
            vals = np.ones(n)
        else:
            rng = np.random.RandomState(seed % (2 ** 32))
            if positive:
                vals = rng.randint(1, 6, size=n) / 2.0
            else:
                vals = rng.randint(-4, 5, size=n) / 2.0
                if nonzero:
                    vals[vals == 0] = 0.5
        if positive and flat.is_complex_space(space):
            vals = vals.copy()
            vals[1::2] = 0.0
        return flat.unflat(vals, space)


# --------------------------------------------------------------------------
# builders

BUILDERS = {}


def builder(name):
    def deco(fn):
        BUILDERS[name] = fn
        return fn
    return deco


def build_node(d, ctx):
    entry = d['e']
    if entry not in BUILDERS:
        raise HarnessError('unknown catalogue entry {!r}'.format(entry))
    kids = [build_node(a, ctx) for a in d.get('args', [])]
    op = BUILDERS[entry](d, ctx, *kids)
    return Node(op, kids, entry, d)


def _sp(d, ctx, key='sp'):
    T = d.get(key)
    return None if T is None else ctx.space(T)


# ---- default_ops ----------------------------------------------------------

@builder('identity')
def _b_identity(d, c):
    return odl.IdentityOperator(_sp(d, c))


@builder('scaling')
def _b_scaling(d, c):
    return odl.ScalingOperator(_sp(d, c), d['s'])


@builder('multiply_vec')
def _b_multiply_vec(d, c):
    return odl.MultiplyOperator(c.vec(_sp(d, c), d['v']))


@builder('multiply_scal')
def _b_multiply_scal(d, c):
    return odl.MultiplyOperator(d['s'], domain=_sp(d, c, 'dom'),
                                range=_sp(d, c, 'ran'))


@builder('multiply_field')
def _b_multiply_field(d, c):
    sp = _sp(d, c)
    return odl.MultiplyOperator(c.vec(sp, d['v']), domain=sp.field)


@builder('inner')
def _b_inner(d, c):
    return odl.InnerProductOperator(c.vec(_sp(d, c), d['v']))


@builder('zero')
def _b_zero(d, c):
    return odl.ZeroOperator(_sp(d, c, 'dom'), _sp(d, c, 'ran'))


@builder('const_zero')
def _b_const_zero(d, c):
    sp = _sp(d, c)
    return odl.ConstantOperator(sp.zero())


@builder('scaling_func')
def _b_scaling_func(d, c):
    """ScalingFunctional / IdentityFunctional on the field of a space."""
    fld = _sp(d, c).field
    if d.get('s') is None:
        return odl.solvers.IdentityFunctional(fld)
    return odl.solvers.ScalingFunctional(fld, d['s'])


@builder('lincomb')
def _b_lincomb(d, c):
    return odl.LinCombOperator(_sp(d, c), d['a'], d['b'])


@builder('power1')
def _b_power1(d, c):
    return odl.PowerOperator(_sp(d, c), 1)


@builder('realpart')
def _b_realpart(d, c):
    return odl.RealPart(_sp(d, c))


@builder('imagpart')
def _b_imagpart(d, c):
    return odl.ImagPart(_sp(d, c))


@builder('cembed')
def _b_cembed(d, c):
    return odl.ComplexEmbedding(_sp(d, c), scalar=d['s'])


@builder('cmod_deriv')
def _b_cmod_deriv(d, c):
    sp = _sp(d, c)
    return odl.ComplexModulus(sp).derivative(c.vec(sp, d['x'], nonzero=True))


@builder('cmodsq_deriv')
def _b_cmodsq_deriv(d, c):
    sp = _sp(d, c)
    return odl.ComplexModulusSquared(sp).derivative(c.vec(sp, d['x']))


@builder('power_deriv')
def _b_power_deriv(d, c):
    sp = _sp(d, c)
    x = c.vec(sp, d['x'], positive=True)
    return odl.PowerOperator(sp, d['p']).derivative(x)


@builder('norm_deriv')
def _b_norm_deriv(d, c):
    sp = _sp(d, c)
    return odl.NormOperator(sp).derivative(c.vec(sp, d['x'], nonzero=True))


@builder('dist_deriv')
def _b_dist_deriv(d, c):
    sp = _sp(d, c)
    y = c.vec(sp, d['v'])
    x = y + c.vec(sp, d['x'], nonzero=True)
    return odl.DistOperator(y).derivative(x)


UFUNC_LINEAR = ['negative', 'rad2deg', 'deg2rad', 'add', 'subtract']
UFUNC_DERIV = ['sin', 'cos', 'tan', 'sqrt', 'square', 'log', 'exp',
               'reciprocal', 'sinh', 'cosh']


@builder('ufunc_lin')
def _b_ufunc_lin(d, c):
    return getattr(odl.ufunc_ops, d['name'])(_sp(d, c))


@builder('ufunc_deriv')
def _b_ufunc_deriv(d, c):
    sp = _sp(d, c)
    x = c.vec(sp, d['x'], positive=True)
    return getattr(odl.ufunc_ops, d['name'])(sp).derivative(x)


FUNCTIONALS = ['L2NormSquared', 'L2Norm', 'L1Norm', 'KullbackLeibler',
               'Huber', 'KullbackLeiblerCrossEntropy']
FUNCTIONALS_ANY_SPACE = ['L2NormSquared', 'L2Norm', 'L1Norm']


def _functional(name, sp):
    if name == 'Huber':
        return odl.solvers.Huber(sp, 0.75)
    return getattr(odl.solvers, name)(sp)


@builder('func_deriv')
def _b_func_deriv(d, c):
    sp = _sp(d, c)
    x = c.vec(sp, d['x'], positive=True)
    return _functional(d['name'], sp).derivative(x)


@builder('grad_deriv')
def _b_grad_deriv(d, c, *kids):
    """``functional.gradient.derivative(x)`` (a linear operator)."""
    name = d['name']
    if name == 'comp':          # (L2NormSquared * A).gradient.derivative(x)
        A = kids[0].op
        f = odl.solvers.L2NormSquared(A.range) * A
        x = c.vec(A.domain, d['x'])
        return f.gradient.derivative(x)
    if name == 'quadratic':     # QuadraticForm(A).gradient  (A + A^*)
        A = kids[0].op
        f = odl.solvers.QuadraticForm(operator=A)
        x = c.vec(A.domain, d['x'])
        return f.gradient.derivative(x)
    sp = _sp(d, c)
    x = c.vec(sp, d['x'], positive=True)
    return _functional(name, sp).gradient.derivative(x)


# ---- tensor_ops -----------------------------------------------------------

def _pw_weighting(w):
    if w is None:
        return None
    if w['type'] == 'const':
        return float(w['value'])
    return [float(v) for v in w['data']]


@builder('pwnorm_deriv')
def _b_pwnorm_deriv(d, c):
    vf = _sp(d, c, 'vf')
    op = odl.PointwiseNorm(vf, exponent=d.get('p'),
                           weighting=_pw_weighting(d.get('w')))
    return op.derivative(c.vec(vf, d['x'], positive=True))


@builder('pwinner')
def _b_pwinner(d, c):
    vf = _sp(d, c, 'vf')
    return odl.PointwiseInner(vf, c.vec(vf, d['v']),
                              weighting=_pw_weighting(d.get('w')))


@builder('pwinner_adj')
def _b_pwinner_adj(d, c):
    vf = _sp(d, c, 'vf')
    if d.get('infer'):
        # range built by the operator: ProductSpace(sspace, n, weighting=w)
        return odl.operator.tensor_ops.PointwiseInnerAdjoint(
            vf[0], c.vec(vf, d['v']), weighting=_pw_weighting(d.get('w')))
    return odl.operator.tensor_ops.PointwiseInnerAdjoint(vf[0], c.vec(vf, d['v']), vfspace=vf,
                                     weighting=_pw_weighting(d.get('w')))


@builder('pwsum')
def _b_pwsum(d, c):
    return odl.PointwiseSum(_sp(d, c, 'vf'),
                            weighting=_pw_weighting(d.get('w')))


@builder('matrix')
def _b_matrix(d, c):
    m = build.array_values(d['m'])
    if d.get('diag_shift'):
        # strictly diagonally dominant -> invertible by construction
        m = m + float(d['diag_shift']) * np.eye(m.shape[0], dtype=m.dtype)
    if d.get('sparse'):
        import scipy.sparse
        m = scipy.sparse.csr_matrix(m)
    return odl.MatrixOperator(m, domain=_sp(d, c, 'dom'),
                              range=_sp(d, c, 'ran'), axis=d.get('axis', 0))


def _pts(d, sp):
    pts = d['pts']
    if sp.ndim == 1 and pts and not isinstance(pts[0], list):
        return [int(p) for p in pts]
    return [[int(p) for p in ax] for ax in pts]


@builder('sampling')
def _b_sampling(d, c):
    sp = _sp(d, c)
    return odl.SamplingOperator(sp, _pts(d, sp), variant=d['variant'])


@builder('wsumsampling')
def _b_wsumsampling(d, c):
    sp = _sp(d, c)
    return odl.WeightedSumSamplingOperator(sp, _pts(d, sp),
                                           variant=d['variant'])


@builder('flatten')
def _b_flatten(d, c):
    return odl.FlatteningOperator(_sp(d, c), order=d.get('order', 'C'))


@builder('flatten_inv')
def _b_flatten_inv(d, c):
    return odl.FlatteningOperator(_sp(d, c),
                                  order=d.get('order', 'C')).inverse


# ---- pspace_ops -----------------------------------------------------------

def _index(ix):
    if isinstance(ix, list) and ix and ix[0] == 'slice':
        return slice(ix[1], ix[2], ix[3] if len(ix) > 3 else None)
    return ix


@builder('comp_proj')
def _b_comp_proj(d, c):
    return odl.ComponentProjection(_sp(d, c), _index(d['index']))


@builder('comp_proj_adj')
def _b_comp_proj_adj(d, c):
    return odl.ComponentProjectionAdjoint(_sp(d, c), _index(d['index']))


@builder('broadcast')
def _b_broadcast(d, c, *kids):
    if d.get('repeat'):
        return odl.BroadcastOperator(kids[0].op, int(d['repeat']))
    return odl.BroadcastOperator(*[k.op for k in kids])


@builder('reduction')
def _b_reduction(d, c, *kids):
    if d.get('repeat'):
        return odl.ReductionOperator(kids[0].op, int(d['repeat']))
    return odl.ReductionOperator(*[k.op for k in kids])


@builder('diagonal')
def _b_diagonal(d, c, *kids):
    kw = {}
    if d.get('dom') is not None:
        kw['domain'] = _sp(d, c, 'dom')
    if d.get('ran') is not None:
        kw['range'] = _sp(d, c, 'ran')
    if d.get('repeat'):
        return odl.DiagonalOperator(kids[0].op, int(d['repeat']), **kw)
    return odl.DiagonalOperator(*[k.op for k in kids], **kw)


@builder('pspaceop')
def _b_pspaceop(d, c, *kids):
    """``rows`` holds, per block, the index into ``args`` or None."""
    zero = 0 if d.get('zero_int') else None     # both documented spellings
    mat = [[zero if j is None else kids[j].op for j in row]
           for row in d['rows']]
    return odl.ProductSpaceOperator(mat, domain=_sp(d, c, 'dom'),
                                    range=_sp(d, c, 'ran'))


# ---- discr ----------------------------------------------------------------

@builder('partial')
def _b_partial(d, c):
    return odl.PartialDerivative(_sp(d, c), d['axis'], range=_sp(d, c, 'ran'),
                                 method=d['method'], pad_mode=d['pad_mode'])


@builder('gradient')
def _b_gradient(d, c):
    if d.get('infer'):          # domain taken from range[0]
        return odl.Gradient(range=_sp(d, c, 'ran'), method=d['method'],
                            pad_mode=d['pad_mode'])
    return odl.Gradient(_sp(d, c), range=_sp(d, c, 'ran'),
                        method=d['method'], pad_mode=d['pad_mode'])


@builder('divergence')
def _b_divergence(d, c):
    if d.get('infer'):          # range taken from domain[0]
        return odl.Divergence(domain=_sp(d, c, 'dom'), method=d['method'],
                              pad_mode=d['pad_mode'])
    return odl.Divergence(domain=_sp(d, c, 'dom'), range=_sp(d, c),
                          method=d['method'], pad_mode=d['pad_mode'])


@builder('laplacian')
def _b_laplacian(d, c):
    return odl.Laplacian(_sp(d, c), range=_sp(d, c, 'ran'),
                         pad_mode=d['pad_mode'])


@builder('resize')
def _b_resize(d, c):
    kw = {'pad_mode': d['pad_mode']}
    if d.get('ran') is not None:
        return odl.ResizingOperator(_sp(d, c), range=_sp(d, c, 'ran'), **kw)
    if d.get('offset') is not None:
        kw['offset'] = list(d['offset'])
    if d.get('nodes') is not None:
        nob = d['nodes']
        kw['discr_kwargs'] = {'nodes_on_bdry': nob if isinstance(nob, bool)
                              else [tuple(p) for p in nob]}
    return odl.ResizingOperator(_sp(d, c), ran_shp=list(d['ran_shp']), **kw)


# ---- trafos ---------------------------------------------------------------

def _axes(d):
    ax = d.get('axes')
    if isinstance(ax, int):         # documented: int or sequence of ints
        return ax
    return None if ax is None else tuple(ax)


@builder('dft')
def _b_dft(d, c):
    return odl.trafos.DiscreteFourierTransform(
        _sp(d, c), range=_sp(d, c, 'ran'), axes=_axes(d), sign=d['sign'],
        halfcomplex=d['halfcomplex'], impl=d['impl'])


@builder('dft_inv')
def _b_dft_inv(d, c):
    return odl.trafos.DiscreteFourierTransformInverse(
        _sp(d, c), axes=_axes(d), sign=d['sign'],
        halfcomplex=d['halfcomplex'], impl=d['impl'])


def _ft_kwargs(d):
    kw = {'sign': d['sign'], 'halfcomplex': d['halfcomplex'],
          'shift': d['shift'] if isinstance(d['shift'], bool)
          else list(d['shift'])}
    if d.get('axes') is not None:
        kw['axes'] = tuple(d['axes'])
    return kw


@builder('ft')
def _b_ft(d, c):
    return odl.trafos.FourierTransform(_sp(d, c), impl=d['impl'],
                                       **_ft_kwargs(d))


@builder('ft_inv')
def _b_ft_inv(d, c):
    return odl.trafos.FourierTransformInverse(_sp(d, c), impl=d['impl'],
                                              **_ft_kwargs(d))


@builder('wavelet')
def _b_wavelet(d, c):
    return odl.trafos.WaveletTransform(
        _sp(d, c), d['wavelet'], nlevels=d['nlevels'],
        pad_mode='pywt_periodic', axes=_axes(d))


@builder('wavelet_inv')
def _b_wavelet_inv(d, c):
    return odl.trafos.WaveletTransformInverse(
        _sp(d, c), d['wavelet'], nlevels=d['nlevels'],
        pad_mode='pywt_periodic', axes=_axes(d))


# ---- expression classes ---------------------------------------------------

@builder('sum')
def _b_sum(d, c, a, b):
    if d.get('tmp'):
        return OperatorSum(a.op, b.op, tmp_ran=a.op.range.element(),
                           tmp_dom=a.op.domain.element())
    return a.op + b.op


@builder('sub')
def _b_sub(d, c, a, b):
    return a.op - b.op


@builder('comp')
def _b_comp(d, c, a, b):
    if d.get('tmp'):
        return OperatorComp(a.op, b.op, tmp=b.op.range.element())
    if d.get('matmul'):
        return a.op @ b.op
    return a.op * b.op


@builder('lscal')
def _b_lscal(d, c, a):
    if d.get('matmul'):
        return d['s'] @ a.op
    return d['s'] * a.op


@builder('rscal')
def _b_rscal(d, c, a):
    # ``op * s`` turns into ``s * op`` for linear operators; the class itself
    # is public and is what (A * s) gives for a non-linear A, so build it
    # directly
    if d.get('tmp'):
        return OperatorRightScalarMult(a.op, d['s'],
                                       tmp=a.op.domain.element())
    return OperatorRightScalarMult(a.op, d['s'])


@builder('rscal_mul')
def _b_rscal_mul(d, c, a):
    if d.get('matmul'):
        return a.op @ d['s']
    return a.op * d['s']


@builder('div')
def _b_div(d, c, a):
    return a.op / d['s']


@builder('neg')
def _b_neg(d, c, a):
    return -a.op


@builder('lvec')
def _b_lvec(d, c, a):
    v = c.vec(a.op.range, d['v'], nonzero=bool(d.get('nz')))
    if d.get('matmul'):
        return v @ a.op
    return v * a.op


@builder('rvec')
def _b_rvec(d, c, a):
    v = c.vec(a.op.domain, d['v'], nonzero=bool(d.get('nz')))
    if d.get('matmul'):
        return a.op @ v
    return a.op * v


@builder('pos')
def _b_pos(d, c, a):
    return +a.op


@builder('flvec')
def _b_flvec(d, c, a):
    return c.vec(_sp(d, c), d['v']) * a.op


class AdjointUnavailable(Exception):
    """An operand of a tree is ``B.adjoint`` and B offers no adjoint."""


@builder('pwprod_deriv')
def _b_pwprod_deriv(d, c, a, b):
    """Derivative of the pointwise product of two operators (Leibniz)."""
    from odl.operator.operator import OperatorPointwiseProduct
    op = OperatorPointwiseProduct(a.op, b.op)
    return op.derivative(c.vec(op.domain, d['x'], nonzero=True))


@builder('chain_deriv')
def _b_chain_deriv(d, c, a):
    """Chain rule: derivative of (non-linear outer) o (linear A), also with
    an added constant (OperatorVectorSum)."""
    A = a.op
    Y = A.range
    outer = d['outer']
    if outer == 'cmod':
        f = odl.ComplexModulus(Y)
    elif outer == 'cmodsq':
        f = odl.ComplexModulusSquared(Y)
    elif outer == 'power':
        f = odl.PowerOperator(Y, 2)
    else:
        f = getattr(odl.ufunc_ops, outer)(Y)
    inner = A
    if d.get('shift') is not None:
        inner = A + c.vec(Y, d['shift'])
    x = c.vec(A.domain, d['x'], positive=True)
    return (f * inner).derivative(x)


@builder('adjoint')
def _b_adjoint(d, c, a):
    try:
        adj = a.op.adjoint
    except Exception as e:  # noqa: conditional property
        raise AdjointUnavailable('{}:{}'.format(type(a.op).__name__,
                                                type(e).__name__))
    if adj is None:
        raise AdjointUnavailable('{}:None'.format(type(a.op).__name__))
    return adj


@builder('inverse')
def _b_inverse(d, c, a):
    """``A.inverse`` - another linear operator; whether it offers an adjoint
    is up to its class, the property applies once it does."""
    try:
        inv = a.op.inverse
    except Exception as e:  # noqa: no inverse -> nothing to examine
        raise AdjointUnavailable('inverse:{}:{}'.format(
            type(a.op).__name__, type(e).__name__))
    if inv is None:
        raise AdjointUnavailable('inverse:{}:None'.format(
            type(a.op).__name__))
    return inv


@builder('pow')
def _b_pow(d, c, a):
    return a.op ** int(d['n'])


# --------------------------------------------------------------------------
# what the documentation says about ``.adjoint`` of a built configuration

OFFERED, REFUSED, SILENT = 'offered', 'refused', 'silent'

COMBINATORS = ('sum', 'sub', 'comp', 'pow', 'neg', 'pos', 'lvec', 'rvec', 'flvec',
               'broadcast', 'reduction', 'diagonal', 'pspaceop',
               'grad_deriv', 'chain_deriv', 'pwprod_deriv')
SCALAR_COMBINATORS = ('lscal', 'rscal', 'rscal_mul', 'div')
# linear classes without an ``adjoint`` of their own: ``Operator.adjoint``
# documents OpNotImplementedError
NO_ADJOINT_ENTRIES = ('lincomb', 'power1', 'ufunc_lin')
ORTH_WAVELETS = ['haar', 'db2', 'db3', 'sym2', 'sym3', 'coif1']
BIORTH_WAVELETS = ['bior2.2', 'bior1.3', 'rbio1.3', 'rbio2.2']


def _field_kind(space):
    return 'c' if flat.is_complex_space(space) else 'r'


def has_complex_scalar(node):
    """A complex-typed scalar multiple somewhere in the tree: its conjugate
    is refused (TypeError, documented field check) by an operand whose
    range / domain is a real space."""
    if node.entry in SCALAR_COMBINATORS and \
            isinstance(node.desc['s'], complex):
        return True
    return any(has_complex_scalar(k) for k in node.children)


def adjoint_expectation(node):
    """``(kind, exception types, reason)`` for ``node.op.adjoint``, derived
    from the documentation of the generated configuration.

    * OFFERED: the class documents an adjoint for this configuration: any
      exception (or ``None``) is a violation;
    * REFUSED: the documentation names the refusal; only the listed
      exception types pass, a returned adjoint is checked like any other;
    * SILENT: the documentation does not say; whatever happens is counted
      as ``adjoint_unavailable`` (listed in the check's ASSUMPTIONS).
    """
    from odl.operator.operator import OpNotImplementedError
    e, d, A = node.entry, node.desc, node.op
    if node.children and any(not k.available for k in node.children) and \
            e != 'adjoint':
        return SILENT, (), 'an operand offers no adjoint (inherited)'
    if e == 'adjoint':
        # the same object was examined as operand.adjoint.adjoint already
        return SILENT, (), 'adjoint of an adjoint (see clause adjadj)'
    if e == 'inverse':
        return SILENT, (), ('the documentation of .inverse does not say '
                            'whether the returned operator offers an adjoint')
    if e in COMBINATORS:
        return OFFERED, (), ('all operands of this {} offer adjoints and the '
                             'rule only documents a refusal for non-linear '
                             'operands'.format(e))
    if e in SCALAR_COMBINATORS:
        if isinstance(d['s'], complex) and \
                _field_kind(A.domain) != _field_kind(A.range):
            return REFUSED, (TypeError,), (
                'conjugated complex scalar outside the field of the real '
                'space (documented TypeError of the scalar multiples)')
        return OFFERED, (), 'scalar multiple of an operator with adjoint'
    if e in NO_ADJOINT_ENTRIES:
        return REFUSED, (OpNotImplementedError,), (
            'class defines no adjoint: Operator.adjoint documents '
            'OpNotImplementedError')
    if e == 'const_zero':
        return SILENT, (), ('ConstantOperator.adjoint: "only defined if the '
                            'operator is the constant operator" (returns None)')
    if e == 'matrix' and not np.can_cast(A.range.dtype, A.domain.dtype):
        return SILENT, (), ('range dtype not castable to the domain dtype '
                            '(complex matrix on a real domain, float32 -> '
                            'float64): the constructor of the adjoint matrix '
                            'operator refuses the cast (ValueError)')
    if e in ('wavelet', 'wavelet_inv'):
        if d['wavelet'] in BIORTH_WAVELETS:
            return REFUSED, (OpNotImplementedError,), (
                'documented: OpNotImplementedError if is_orthogonal is False')
        return OFFERED, (), 'orthogonal wavelet: adjoint documented'
    return OFFERED, (), 'the class documents an adjoint for linear instances'


# --------------------------------------------------------------------------
# strategies: spaces

def _small_shape(draw, min_side=1, max_size=8, max_ndim=2):
    nd = draw(st.integers(1, max_ndim))
    if nd == 1:
        return [draw(st.integers(min_side, max_size))]
    # two axes with a * b <= max_size (at least min_side each)
    a = draw(st.integers(min_side, max(min_side, max_size // min_side)))
    b = draw(st.integers(min_side, max(min_side, max_size // a)))
    return [a, b]


W_FEW = ('none', 'none', 'none', 'const', 'array')
REAL_DT = ['float64', 'float64', 'float32']
CPLX_DT = ['complex128', 'complex128', 'complex64']


def _dtype(draw, field):
    return draw(st.sampled_from(REAL_DT if field == 'real' else CPLX_DT))


@st.composite
def tensor_sd(draw, field, wkinds=('none', 'const', 'array'), min_side=1,
              max_size=8, max_ndim=2, shape=None):
    shape = shape or _small_shape(draw, min_side, max_size, max_ndim)
    sd = {'kind': 'tensor', 'shape': list(shape),
          'dtype': _dtype(draw, field), 'exponent': 2.0,
          'weighting': draw(vs.weightings(shape, wkinds))}
    if sd['weighting'] is not None and sd['weighting']['type'] == 'array':
        # float64 weighting arrays are refused by 32-bit spaces (documented)
        sd['dtype'] = 'float64' if field == 'real' else 'complex128'
    return sd


@st.composite
def discr_sd(draw, field, min_side=1, max_size=8, max_ndim=2, bdry=None,
             wkinds=('none',), shape=None, p_bdry=5):
    """``bdry``: None = boundary nodes with probability ``p_bdry``/10,
    False = no boundary nodes, True = some."""
    shape = shape or _small_shape(draw, min_side, max_size, max_ndim)
    if bdry is None:
        bdry = draw(st.integers(0, 9)) < p_bdry
    sd = draw(vs.discr_space_descs(
        shapes=st.just(list(shape)), dtypes=(_dtype(draw, field),),
        nodes_on_bdry=(bdry is not False), weighting_kinds=wkinds))
    if bdry is True and sd['nodes_on_bdry'] is False:
        nob = [[False, False] for _ in shape]
        i = draw(st.integers(0, len(shape) - 1))
        nob[i][draw(st.integers(0, 1))] = True
        sd['nodes_on_bdry'] = nob
    return sd


def has_bdry(sd):
    if sd['kind'] == 'pspace':
        return any(has_bdry(p) for p in build.space_parts(sd))
    nob = sd.get('nodes_on_bdry', False)
    if isinstance(nob, bool):
        return nob
    return any(any(p) if isinstance(p, list) else p for p in nob)


@st.composite
def leaf_sd(draw, field, kinds=('tensor', 'discr'), **kw):
    kind = draw(st.sampled_from(list(kinds)))
    if kind == 'tensor':
        kw.pop('bdry', None)
        kw.pop('p_bdry', None)
        return draw(tensor_sd(field, **kw))
    kw.pop('wkinds', None)
    return draw(discr_sd(field, **kw))


@st.composite
def pspace_sd(draw, field, max_len=3, max_part=4, wkinds=('none', 'const',
                                                           'array'),
              depth=1):
    leaves = leaf_sd(field, max_size=max_part)
    sd = draw(vs.pspace_descs(leaves, max_depth=depth, max_len=max_len,
                              weighting_kinds=wkinds))
    # one dtype for all leaves: inner products of nested product spaces
    # with mixed dtypes raise AttributeError (outside C05)
    _set_dtype(sd, _dtype(draw, field))
    return sd


def _set_dtype(sd, dtype):
    if _has_array_w(sd):
        dtype = 'float64' if np.dtype(dtype).kind == 'f' else 'complex128'
    _set_dtype_rec(sd, dtype)


def _has_array_w(sd):
    if sd['kind'] == 'pspace':
        return any(_has_array_w(p) for p in build.space_parts(sd))
    w = sd.get('weighting')
    return w is not None and w['type'] == 'array'


def _set_dtype_rec(sd, dtype):
    if sd['kind'] == 'pspace':
        if sd.get('power') is not None:
            _set_dtype_rec(sd['base'], dtype)
        else:
            for p in sd['parts']:
                _set_dtype_rec(p, dtype)
    else:
        sd['dtype'] = dtype


def fields():
    return st.sampled_from(['real', 'real', 'complex'])


def scalars(field, zero_ok=True):
    pal = [2.0, -1.0, 0.5, -3.0, 1.0, 1.5]
    if zero_ok:
        pal = pal + [0.0]
    # generic values on a 1/64 grid (exact in float32, no subnormals)
    re = st.sampled_from(pal) | st.integers(-256, 256).map(
        lambda k: k / 64.0 or 1.0)
    if field == 'real':
        return re
    cpal = [1j, 1 + 1j, 2 - 1j, -0.5 + 2j, -1j, 3.0 + 0j, 0.5 - 1.5j]
    return st.sampled_from(cpal) | st.tuples(re, re).map(
        lambda t: complex(t[0], t[1] if t[1] != 0 else 1.0))


def seeds():
    return st.integers(0, 10 ** 6)


def pweights(n, kinds=('none', 'const', 'array')):
    @st.composite
    def _w(draw):
        k = draw(st.sampled_from(list(kinds)))
        if k == 'none':
            return None
        if k == 'const':
            return {'type': 'const',
                    'value': draw(vs.float_values(positive=True))}
        return {'type': 'array', 'data': draw(st.lists(
            vs.float_values(positive=True), min_size=n, max_size=n))}
    return _w()


def sd_field(sd):
    leaf = build.leaf_descs(sd)[0]
    return 'complex' if np.dtype(leaf['dtype']).kind == 'c' else 'real'


def sd_shape(sd):
    return list(sd['shape'])


def sd_size(sd):
    return int(np.prod(sd['shape'], dtype=int))


# --------------------------------------------------------------------------
# strategies: single catalogue entries on broad spaces

def _case(family, spaces, op):
    return {'family': family, 'spaces': spaces, 'op': op}


@st.composite
def fam_default(draw):
    """default_ops entries on tensor / discretized / product spaces."""
    field = draw(fields())
    skind = draw(st.sampled_from(['tensor', 'discr', 'pspace']))
    if skind == 'pspace':
        sd = draw(pspace_sd(field, depth=draw(st.sampled_from([1, 1, 2]))))
    else:
        sd = draw(leaf_sd(field, kinds=(skind,)))
    spaces = {'X': sd}
    entries = ['identity', 'scaling', 'multiply_vec', 'multiply_scal',
               'multiply_field', 'inner', 'zero', 'zero2', 'const_zero',
               'norm_deriv', 'dist_deriv', 'func_deriv', 'grad_deriv',
               'lincomb', 'power1', 'scaling_func']
    if skind != 'pspace':
        entries += ['power_deriv', 'multiply_scal2']
        if field == 'real':
            entries += ['ufunc_lin', 'ufunc_deriv', 'ufunc_deriv']
    e = draw(st.sampled_from(entries))
    if e == 'scaling':
        op = {'e': e, 'sp': 'X', 's': draw(scalars(field))}
    elif e in ('multiply_vec', 'multiply_field', 'inner'):
        op = {'e': e, 'sp': 'X', 'v': draw(seeds())}
    elif e == 'scaling_func':
        op = {'e': e, 'sp': 'X', 's': draw(st.none() | scalars(field))}
    elif e == 'multiply_scal':
        op = {'e': e, 'dom': 'X', 'ran': 'X', 's': draw(scalars(field))}
    elif e == 'multiply_scal2':
        # scalar multiplication between differently weighted copies
        sd2 = dict(sd)
        if sd['kind'] == 'tensor':
            sd2['weighting'] = draw(vs.weightings(sd['shape'],
                                                  ('none', 'const')))
        else:
            sd2 = dict(sd, min=[m - 1.0 for m in sd['min']])
        spaces['Y'] = sd2
        op = {'e': 'multiply_scal', 'dom': 'X', 'ran': 'Y',
              's': draw(scalars(field))}
    elif e == 'zero':
        op = {'e': e, 'dom': 'X', 'ran': None}
    elif e == 'zero2':
        f2 = draw(st.sampled_from(['real', 'complex']))
        spaces['Y'] = draw(leaf_sd(f2, max_size=4))
        op = {'e': 'zero', 'dom': 'X', 'ran': 'Y'}
    elif e == 'lincomb':
        op = {'e': e, 'sp': 'X', 'a': draw(scalars(field)),
              'b': draw(scalars(field))}
    elif e == 'power_deriv':
        op = {'e': e, 'sp': 'X', 'x': draw(seeds()),
              'p': draw(st.sampled_from([2, 3, 0.5, 1.5, 1]))}
    elif e in ('norm_deriv',):
        op = {'e': e, 'sp': 'X', 'x': draw(seeds())}
    elif e == 'dist_deriv':
        op = {'e': e, 'sp': 'X', 'x': draw(seeds()), 'v': draw(seeds())}
    elif e == 'func_deriv':
        names = FUNCTIONALS_ANY_SPACE
        if skind != 'pspace' and field == 'real':
            names = FUNCTIONALS
        elif field == 'complex':
            names = ['L2NormSquared', 'L2Norm']
        op = {'e': e, 'sp': 'X', 'x': draw(seeds()),
              'name': draw(st.sampled_from(names))}
    elif e == 'grad_deriv':
        names = ['L2NormSquared', 'L1Norm'] if field == 'real' \
            else ['L2NormSquared']
        op = {'e': e, 'sp': 'X', 'x': draw(seeds()),
              'name': draw(st.sampled_from(names))}
    elif e == 'ufunc_lin':
        op = {'e': e, 'sp': 'X', 'name': draw(st.sampled_from(UFUNC_LINEAR))}
    elif e == 'ufunc_deriv':
        op = {'e': e, 'sp': 'X', 'x': draw(seeds()),
              'name': draw(st.sampled_from(UFUNC_DERIV))}
    else:
        op = {'e': e, 'sp': 'X'}
    return _case('default_ops', spaces, op)


@st.composite
def fam_complex(draw):
    """RealPart / ImagPart / ComplexEmbedding / modulus derivatives."""
    field = draw(st.sampled_from(['complex', 'complex', 'real']))
    sd = draw(leaf_sd(field))
    e = draw(st.sampled_from(['realpart', 'imagpart', 'cembed', 'cembed',
                              'cmod_deriv', 'cmodsq_deriv', 'rlinear']))
    op = {'e': e, 'sp': 'X'}
    if e == 'cembed':
        op['s'] = draw(cembed_scalars())
    if e in ('cmod_deriv', 'cmodsq_deriv'):
        op['x'] = draw(seeds())
    if e == 'rlinear':
        # R-linear but not C-linear map between complex spaces:
        # embed(s) o Re/Im (o scaling), X complex
        C = 'X' if field == 'complex' else ['cplx', 'X']
        R = ['real', 'X'] if field == 'complex' else 'X'
        inner = {'e': draw(st.sampled_from(['realpart', 'imagpart'])),
                 'sp': C}
        if draw(st.booleans()):
            inner = {'e': 'comp', 'args': [inner, {
                'e': 'scaling', 'sp': C, 's': draw(scalars('complex'))}]}
        op = {'e': 'comp', 'args': [
            {'e': 'cembed', 'sp': R, 's': draw(cembed_scalars())}, inner]}
    return _case('complex_ops', {'X': sd}, op)


def cembed_scalars():
    """The three branches of ComplexEmbedding.adjoint / .inverse."""
    return st.one_of(
        st.sampled_from([1.0, 2.0, -1.5, 0.5, -1.0]),
        st.sampled_from([1j, -3j, 0.5j, -1j, 2j]),
        scalars('complex'))


def _mdt(sd, field):
    small = np.dtype(sd['dtype']).name in ('float32', 'complex64')
    if field == 'real':
        return 'float32' if small else 'float64'
    return 'complex64' if small else 'complex128'


def _matrix_desc(draw, shape, dtype):
    return draw(vs.array_descs(shape, dtype, orders=('C',), lo=-4, hi=4,
                               scale=1.0))


@st.composite
def fam_matrix(draw):
    field = draw(fields())
    mode = draw(st.sampled_from(['default', 'default', 'domain', 'domain',
                                 'domain', 'domran', 'discr', 'discr']))
    mfield = field
    if draw(st.integers(0, 5)) == 0:
        mfield = 'real' if field == 'complex' else 'complex'
    mdt = 'float64' if mfield == 'real' else 'complex128'
    sparse = draw(st.integers(0, 4)) == 0
    if mode != 'default':
        if mode == 'discr':
            sd = draw(discr_sd(field, max_size=8, p_bdry=2))
        else:
            sd = draw(tensor_sd(field, max_size=8, wkinds=W_FEW))
        if np.dtype(sd['dtype']).itemsize in (4, 8) and \
                np.dtype(sd['dtype']).name in ('float32', 'complex64'):
            mdt = 'float32' if mfield == 'real' else 'complex64'
    if mode == 'default':
        n, k = draw(st.integers(1, 6)), draw(st.integers(1, 6))
        op = {'e': 'matrix', 'dom': None, 'ran': None, 'axis': 0,
              'm': _matrix_desc(draw, [k, n], mdt), 'sparse': sparse}
        return _case('matrix', {}, op)
    shape = sd_shape(sd)
    if sparse:
        shape = [int(np.prod(shape))]
        sd = dict(sd, shape=shape)
        if sd.get('weighting') and sd['weighting']['type'] == 'array':
            sd['weighting'] = None
        if sd['kind'] == 'discr':
            sd = dict(draw(discr_sd(field, shape=shape)), dtype=sd['dtype'])
    axis = draw(st.integers(0, len(shape) - 1))
    k = draw(st.sampled_from([shape[axis], shape[axis], 1, 2, 3]))
    rshape = list(shape)
    rshape[axis] = k
    spaces = {'X': sd}
    op = {'e': 'matrix', 'dom': 'X', 'ran': None, 'axis': axis,
          'm': _matrix_desc(draw, [k, shape[axis]], mdt), 'sparse': sparse}
    if mode == 'domran':
        rfield = 'complex' if 'complex' in (field, mfield) else 'real'
        spaces['Y'] = draw(tensor_sd(rfield, shape=rshape))
        if spaces['Y']['weighting'] is None or \
                spaces['Y']['weighting']['type'] != 'array':
            small = np.dtype(sd['dtype']).name in ('float32', 'complex64')
            spaces['Y']['dtype'] = {
                ('real', True): 'float32', ('real', False): 'float64',
                ('complex', True): 'complex64',
                ('complex', False): 'complex128'}[(rfield, small)]
        if draw(st.booleans()) and sd['kind'] == 'tensor':
            # same weighting kind as the domain with an unrelated value
            w = sd.get('weighting')
            if w is not None and w['type'] == 'const':
                spaces['Y']['weighting'] = {
                    'type': 'const',
                    'value': draw(st.sampled_from([w['value'], 2.0, 0.5]))}
        op['ran'] = 'Y'
    return _case('matrix', spaces, op)


@st.composite
def _sampling_pts(draw, shape):
    npts = draw(st.integers(1, 5))
    pts = [[draw(st.integers(0, n - 1)) for _ in range(npts)] for n in shape]
    if len(shape) == 1 and draw(st.booleans()):
        return pts[0]
    return pts


@st.composite
def fam_sampling(draw):
    field = draw(fields())
    sd = draw(leaf_sd(field, max_size=8, wkinds=W_FEW, p_bdry=2))
    if sd['kind'] == 'discr' and draw(st.integers(0, 7)) == 0:
        # uniform_discr(..., weighting=c): not the cell volume
        sd['weighting'] = {'type': 'const',
                           'value': draw(vs.float_values(positive=True))}
    e = draw(st.sampled_from(['sampling', 'sampling', 'wsumsampling',
                              'flatten', 'flatten', 'flatten_inv']))
    op = {'e': e, 'sp': 'X'}
    if e == 'sampling':
        op['pts'] = draw(_sampling_pts(sd_shape(sd)))
        op['variant'] = draw(st.sampled_from(['point_eval', 'integrate']))
    elif e == 'wsumsampling':
        op['pts'] = draw(_sampling_pts(sd_shape(sd)))
        op['variant'] = draw(st.sampled_from(['char_fun', 'dirac']))
    else:
        op['order'] = draw(st.sampled_from(['C', 'F']))
    return _case('sampling', {'X': sd}, op)


@st.composite
def fam_pointwise(draw):
    field = draw(fields())
    base = draw(leaf_sd(field, max_size=4))
    n = draw(st.integers(1, 3))
    vf = ['pow', 'X', n, draw(pweights(n))]
    e = draw(st.sampled_from(['pwinner', 'pwinner', 'pwinner_adj', 'pwsum',
                              'pwnorm_deriv']))
    if e == 'pwnorm_deriv' and (field == 'complex' or _has_array_w(base)):
        # complex: documented as not differentiable; array-weighted base:
        # PointwiseNorm.derivative itself raises (slicing creates unequal
        # array-weighted spaces) - a derivative defect outside C05
        e = 'pwinner'
    # operator weights: default (None), generic, or explicitly all ones on a
    # weighted vector field space
    opw = draw(st.one_of(
        pweights(n), pweights(n),
        st.just({'type': 'const', 'value': 1.0}),
        st.just({'type': 'array', 'data': [1.0] * n})))
    op = {'e': e, 'vf': vf, 'w': opw}
    if e in ('pwinner', 'pwinner_adj'):
        op['v'] = draw(seeds())
    if e == 'pwinner_adj' and draw(st.integers(0, 2)) == 0:
        # vfspace=None: the operator builds ProductSpace(sspace, n,
        # weighting=w) itself
        op['infer'] = True
        op['vf'] = ['pow', 'X', n, opw]
    if e == 'pwnorm_deriv':
        op['x'] = draw(seeds())
        op['p'] = draw(st.sampled_from([None, 2, 2, 1.5, 3, 1]))
    return _case('pointwise', {'X': base}, op)


@st.composite
def fam_projection(draw):
    field = draw(fields())
    n = draw(st.integers(1, 4))
    parts = {}
    keys = []
    power = draw(st.booleans())
    for i in range(1 if power else n):
        parts['X{}'.format(i)] = draw(leaf_sd(field, max_size=4))
    dt = parts['X0']['dtype']
    if any(_has_array_w(p) for p in parts.values()):
        dt = 'float64' if field == 'real' else 'complex128'
    for p in parts.values():
        p['dtype'] = dt
    keys = ['X0'] * n if power else ['X{}'.format(i) for i in range(n)]
    w = draw(pweights(n, ('none', 'none', 'none', 'const', 'array')))
    T = ['pow', 'X0', n, w] if power else ['prod', keys, w]
    style = draw(st.sampled_from(['int', 'int', 'list', 'slice']))
    if style == 'int':
        ix = draw(st.integers(0, n - 1))
    elif style == 'list':
        ix = draw(st.lists(st.integers(0, n - 1), min_size=1, max_size=n,
                           unique=True))
    else:
        a = draw(st.integers(0, n - 1))
        ix = ['slice', a, draw(st.integers(a + 1, n)), None]
    e = draw(st.sampled_from(['comp_proj', 'comp_proj', 'comp_proj_adj']))
    return _case('projection', parts, {'e': e, 'sp': T, 'index': ix})


DIFF_METHODS = ['forward', 'backward', 'central']
DIFF_PADS = ['constant', 'symmetric', 'periodic', 'order0', 'order1',
             'order2']
DIFF_PADS_ADJ = ['symmetric_adjoint', 'order0_adjoint', 'order1_adjoint',
                 'order2_adjoint']
LAPL_PADS = ['constant', 'symmetric', 'periodic', 'order0']


@st.composite
def fam_diff(draw):
    field = draw(fields())
    sd = draw(discr_sd(field, min_side=3, max_size=12, p_bdry=2))
    nd = len(sd['shape'])
    e = draw(st.sampled_from(['partial', 'partial', 'gradient', 'divergence',
                              'laplacian']))
    pads = DIFF_PADS + (DIFF_PADS_ADJ if draw(st.integers(0, 4)) == 0
                        else [])
    spaces = {'X': sd}
    # explicit (weighted) power space for Gradient / Divergence; a range of
    # another extent is refused by PartialDerivative / Laplacian (documented)
    other = draw(st.integers(0, 5)) == 0
    if e == 'laplacian':
        op = {'e': e, 'sp': 'X', 'ran': 'X' if other else None,
              'pad_mode': draw(st.sampled_from(LAPL_PADS))}
    elif e == 'partial':
        op = {'e': e, 'sp': 'X', 'ran': 'X' if other else None,
              'axis': draw(st.integers(0, nd - 1)),
              'method': draw(st.sampled_from(DIFF_METHODS)),
              'pad_mode': draw(st.sampled_from(pads))}
    elif e == 'gradient':
        ran = None
        if other:
            ran = ['pow', 'X', nd, draw(pweights(nd, ('const', 'array')))]
        op = {'e': e, 'sp': 'X', 'ran': ran,
              'method': draw(st.sampled_from(DIFF_METHODS)),
              'pad_mode': draw(st.sampled_from(pads))}
        if draw(st.integers(0, 3)) == 0:
            # Gradient(range=V): domain taken from V[0]
            op['infer'] = True
            op['ran'] = ran or ['pow', 'X', nd]
    else:
        dom = None
        if other:
            dom = ['pow', 'X', nd, draw(pweights(nd, ('const', 'array')))]
        op = {'e': e, 'sp': 'X', 'dom': dom,
              'method': draw(st.sampled_from(DIFF_METHODS)),
              'pad_mode': draw(st.sampled_from(pads))}
        if draw(st.integers(0, 3)) == 0:
            # Divergence(domain=V): range taken from V[0]
            op['infer'] = True
            op['dom'] = dom or ['pow', 'X', nd]
    return _case('diff_ops', spaces, op)


RESIZE_PADS = ['constant', 'symmetric', 'periodic', 'order0', 'order1']


@st.composite
def fam_resize(draw):
    field = draw(fields())
    sd = draw(discr_sd(field, min_side=2, max_size=8, p_bdry=2))
    shape = sd_shape(sd)
    pad = draw(st.sampled_from(RESIZE_PADS))
    ran_shp, offset = [], []
    for n in shape:
        # keep every padding admissible: symmetric needs pad < n, periodic
        # pad <= n on each side
        grow = n - 1 if pad == 'symmetric' else n
        lo = max(1, n - 3)
        new = draw(st.integers(lo, min(n + 2 * grow, n + 4)))
        if new >= n:
            total = new - n
            left = draw(st.integers(max(0, total - grow), min(total, grow)))
        else:
            left = draw(st.integers(0, n - new))
        ran_shp.append(new)
        offset.append(left)
    op = {'e': 'resize', 'sp': 'X', 'ran_shp': ran_shp, 'pad_mode': pad,
          'offset': offset if draw(st.booleans()) else None}
    if op['offset'] is None:
        # default offset splits evenly; re-check admissibility
        for i, n in enumerate(shape):
            total = ran_shp[i] - n
            grow = n - 1 if pad == 'symmetric' else n
            if total > 0 and (total - total // 2) > grow:
                ran_shp[i] = n + grow
    if draw(st.integers(0, 3)) == 0:
        op['nodes'] = draw(st.sampled_from([True, False]))
    spaces = {'X': sd}
    if op['offset'] is not None and not has_bdry(sd) and \
            draw(st.integers(0, 2)) == 0:
        # the same operator with an explicitly given range
        mins, maxs = [], []
        for i, n in enumerate(shape):
            cell = (sd['max'][i] - sd['min'][i]) / n
            mins.append(sd['min'][i] - offset[i] * cell)
            maxs.append(mins[-1] + ran_shp[i] * cell)
        spaces['Y'] = dict(sd, min=mins, max=maxs, shape=list(ran_shp))
        op = {'e': 'resize', 'sp': 'X', 'ran': 'Y', 'pad_mode': pad}
    return _case('resize', spaces, op)


@st.composite
def _axes_subset(draw, nd, allowed=None):
    allowed = list(range(nd)) if allowed is None else allowed
    if draw(st.booleans()):
        return None if len(allowed) == nd else allowed
    sub = draw(st.lists(st.sampled_from(allowed), min_size=1,
                        max_size=len(allowed), unique=True))
    return sorted(sub)


@st.composite
def fam_fourier(draw):
    field = draw(st.sampled_from(['complex', 'complex', 'real']))
    e = draw(st.sampled_from(['dft', 'dft', 'dft_inv', 'ft', 'ft', 'ft_inv']))
    sd = draw(discr_sd(field, min_side=2, max_size=8,
                       bdry=draw(st.sampled_from([False, False, None]))))
    nd = len(sd['shape'])
    impl = draw(st.sampled_from(['numpy', 'numpy', 'pyfftw']))
    axes = draw(_axes_subset(nd))
    if field == 'real':
        op = {'e': e, 'sp': 'X', 'axes': axes, 'sign': '-',
              'halfcomplex': True, 'impl': impl}
        if e.startswith('ft'):
            op['shift'] = True
        if e.endswith('_inv'):
            op['sign'] = '+'
        last = (list(range(nd)) if axes is None else axes)[-1]
        if e == 'dft_inv' and sd['shape'][last] % 2 == 1:
            # numpy back-end: irfftn without `s` cannot produce an odd
            # length -> the *forward* call raises (a C18 matter)
            op['impl'] = 'pyfftw'
        if e == 'dft' and draw(st.integers(0, 3)) == 0:
            # real -> full complex spectrum: the returned adjoint cannot be
            # evaluated (same root cause as C18's F19); the inverse variant
            # and the pyfftw forward call are C18's business
            op['halfcomplex'] = False
            op['impl'] = 'numpy'
    else:
        op = {'e': e, 'sp': 'X', 'axes': axes,
              'sign': draw(st.sampled_from(['-', '+'])),
              'halfcomplex': False, 'impl': impl}
        if e.startswith('ft'):
            nax = nd if axes is None else len(axes)
            op['shift'] = draw(st.booleans()) if draw(st.booleans()) else \
                [draw(st.booleans()) for _ in range(nax)]
    spaces = {'X': sd}
    if e == 'dft':
        op['ran'] = None
        if field == 'complex' and draw(st.integers(0, 3)) == 0:
            # explicit range: any complex discretization of the same shape
            spaces['Y'] = draw(discr_sd('complex', shape=sd['shape'],
                                        bdry=False))
            spaces['Y']['dtype'] = sd['dtype']
            op['ran'] = 'Y'
    return _case('fourier', spaces, op)


@st.composite
def fam_wavelet(draw):
    field = draw(st.sampled_from(['real', 'real', 'complex']))
    nd = draw(st.integers(1, 2))
    nlevels = draw(st.integers(1, 2))
    unit = 2 ** nlevels
    if nd == 1:
        shape = [unit * draw(st.integers(1, 16 // unit))]
        axes = None
    else:
        trans = draw(st.sampled_from([[0], [1], [0, 1]]))
        shape = []
        for ax in range(2):
            if ax in trans:
                shape.append(unit * draw(st.integers(1, max(1, 4 // unit))))
            else:
                shape.append(draw(st.integers(1, 3)))
        axes = None if trans == [0, 1] and draw(st.booleans()) else trans
        if axes is not None and len(axes) == 1 and draw(st.booleans()):
            axes = axes[0]              # documented: int or sequence
    sd = draw(discr_sd(field, shape=shape,
                       bdry=draw(st.sampled_from([False, False, None]))))
    e = draw(st.sampled_from(['wavelet', 'wavelet', 'wavelet_inv']))
    # biorthogonal wavelets document a refusal (OpNotImplementedError)
    names = BIORTH_WAVELETS if draw(st.integers(0, 4)) == 0 else ORTH_WAVELETS
    op = {'e': e, 'sp': 'X', 'wavelet': draw(st.sampled_from(names)),
          'nlevels': nlevels, 'axes': axes}
    return _case('wavelet', {'X': sd}, op)


# --------------------------------------------------------------------------
# strategies: typed linear expression trees

class Universe(object):
    """Symbolic spaces of a tree case (strategy side, no ODL objects)."""

    def __init__(self, field, sdx, sdy):
        self.field = field
        self.spaces = {'X': sdx, 'Y': sdy}
        self.clean_x = _clean(sdx)
        self.clean_y = _clean(sdy)

    def tfield(self, T):
        if isinstance(T, str):
            return self.field
        if T[0] == 'real':
            return 'real'
        if T[0] == 'cplx':
            return 'complex'
        if T[0] == 'pow':
            return self.tfield(T[1])
        if T[0] == 'prod':
            return self.tfield(T[1][0])
        if T[0] == 'field':
            return self.tfield(T[1])
        if T[0] in ('rn', 'like'):
            return self.tfield(T[2] if T[0] == 'rn' else T[1])
        raise HarnessError(T)

    def parts(self, T):
        if not isinstance(T, str) and T[0] == 'pow':
            return [T[1]] * T[2]
        if not isinstance(T, str) and T[0] == 'prod':
            return list(T[1])
        return None

    def is_field(self, T):
        return not isinstance(T, str) and T[0] == 'field'

    def base_sd(self, T):
        """Descriptor of a leaf type (dtype may differ for real/cplx)."""
        if isinstance(T, str):
            return self.spaces[T]
        if T[0] in ('real', 'cplx'):
            return self.base_sd(T[1])
        return None

    def clean(self, T):
        """Leaf type outside every known-finding region (uniform Gram)."""
        if isinstance(T, str):
            return self.clean_x if T == 'X' else self.clean_y
        if T[0] in ('real', 'cplx'):
            return self.clean(T[1])
        if T[0] in ('rn', 'like'):
            return True
        return False


def _clean(sd):
    w = sd.get('weighting')
    return not has_bdry(sd) and not (w is not None and w['type'] == 'array')


def _teq(a, b):
    return canonical_json(a) == canonical_json(b)


@st.composite
def _leaf(draw, U, dom, ran):
    """A catalogue leaf ``dom -> ran`` (always possible: ZeroOperator)."""
    fd, fr = U.tfield(dom), U.tfield(ran)
    if U.is_field(ran) and U.is_field(dom):
        if draw(st.booleans()):
            return {'e': 'identity', 'sp': dom}
        return {'e': 'scaling', 'sp': dom, 's': draw(scalars(fd))}
    if U.is_field(ran):
        return {'e': 'inner', 'sp': dom, 'v': draw(seeds())}
    if U.is_field(dom):
        return {'e': 'multiply_field', 'sp': ran, 'v': draw(seeds())}
    pd, pr = U.parts(dom), U.parts(ran)
    cands = []
    if _teq(dom, ran):
        cands += ['identity', 'scaling', 'scaling', 'multiply_vec',
                  'multiply_vec', 'multiply_scal']
        if pd is None:
            sd = U.base_sd(dom)
            if sd is not None:
                if fd == 'real' and sd['kind'] in ('tensor', 'discr'):
                    cands += ['power_deriv', 'ufunc_deriv', 'realpart']
                if fd == 'complex':
                    cands += ['cembed']
                if U.clean(dom):
                    cands += ['matrix_sq', 'matrix_sq']
                    if sd['kind'] == 'discr' and min(sd['shape']) >= 3:
                        cands += ['partial', 'laplacian', 'partial']
                cands += ['func_grad']
    elif pd is None and pr is None:
        # two different leaf types
        if not isinstance(dom, str) and dom[0] == 'cplx' and \
                _teq(dom[1], ran):
            cands = ['realpart', 'imagpart']       # real universe, C -> X
        if not isinstance(ran, str) and ran[0] == 'real' and \
                _teq(ran[1], dom):
            cands = ['realpart', 'imagpart', 'cmodsq_deriv', 'cmod_deriv']
        elif not isinstance(ran, str) and ran[0] == 'cplx' and \
                _teq(ran[1], dom):
            cands = ['cembed']
        elif not isinstance(dom, str) and dom[0] == 'real' and \
                _teq(dom[1], ran):
            cands = ['cembed']
        elif not isinstance(ran, str) and ran[0] == 'like' and \
                _teq(ran[1], dom) and U.clean(dom):
            cands = ['matrix_like']
        elif not isinstance(ran, str) and ran[0] == 'rn' and \
                _teq(ran[2], dom) and len(ran) == 3 and U.clean(dom):
            sd = U.base_sd(dom)
            if isinstance(ran[1], int) and sd is not None and \
                    ran[1] == sd_size(sd):
                cands = ['flatten', 'sampling']
            else:
                cands = ['sampling']
        elif not isinstance(dom, str) and dom[0] == 'rn' and \
                _teq(dom[2], ran) and len(dom) == 3 and U.clean(ran):
            sd = U.base_sd(ran)
            # (unweighted only: constant weights are the known region F05)
            if isinstance(dom[1], int) and sd is not None and \
                    dom[1] == sd_size(sd) and sd.get('weighting') is None:
                cands = ['flatten_inv']
    elif pd is None and pr is not None:
        cands += ['broadcast', 'broadcast']
        if all(_teq(p, dom) for p in pr):
            cands += ['comp_proj_adj']
            sd = U.base_sd(dom)
            if sd is not None and sd['kind'] == 'discr' and U.clean(dom) \
                    and len(sd['shape']) == len(pr) and len(ran) == 3 \
                    and min(sd['shape']) >= 3:
                cands += ['gradient', 'gradient']
            if len(ran) == 3:
                cands += ['pwinner_adj']
    elif pd is not None and pr is None:
        cands += ['reduction', 'reduction']
        if any(_teq(p, ran) for p in pd):
            cands += ['comp_proj', 'comp_proj']
        if all(_teq(p, ran) for p in pd) and dom[0] == 'pow' and \
                len(dom) == 3:
            cands += ['pwinner', 'pwsum']
            sd = U.base_sd(ran)
            if sd is not None and sd['kind'] == 'discr' and U.clean(ran) \
                    and len(sd['shape']) == len(pd) and \
                    min(sd['shape']) >= 3:
                cands += ['divergence', 'divergence']
    else:
        cands += ['pspaceop', 'pspaceop']
        if len(pd) == len(pr):
            cands += ['diagonal', 'diagonal']
    if not cands or draw(st.integers(0, 7)) == 0:
        cands = ['zero']
    e = draw(st.sampled_from(cands))
    if e == 'zero':
        return {'e': 'zero', 'dom': dom, 'ran': None if _teq(dom, ran)
                else ran}
    if e == 'identity':
        return {'e': e, 'sp': dom}
    if e == 'scaling':
        return {'e': e, 'sp': dom, 's': draw(scalars(fd))}
    if e == 'multiply_vec':
        return {'e': e, 'sp': dom, 'v': draw(seeds())}
    if e == 'multiply_scal':
        return {'e': e, 'dom': dom, 'ran': ran, 's': draw(scalars(fd))}
    if e == 'power_deriv':
        return {'e': e, 'sp': dom, 'x': draw(seeds()),
                'p': draw(st.sampled_from([2, 3, 0.5]))}
    if e == 'ufunc_deriv':
        return {'e': e, 'sp': dom, 'x': draw(seeds()),
                'name': draw(st.sampled_from(UFUNC_DERIV))}
    if e == 'func_grad':
        return {'e': 'grad_deriv', 'sp': dom, 'x': draw(seeds()),
                'name': 'L2NormSquared'}
    if e in ('realpart', 'imagpart'):
        return {'e': e, 'sp': dom}
    if e in ('cmod_deriv', 'cmodsq_deriv'):
        return {'e': e, 'sp': dom, 'x': draw(seeds())}
    if e == 'cembed':
        return {'e': e, 'sp': dom, 's': draw(cembed_scalars())}
    if e == 'matrix_sq':
        sd = U.base_sd(dom)
        axis = draw(st.integers(0, len(sd['shape']) - 1))
        n = sd['shape'][axis]
        return {'e': 'matrix', 'dom': dom, 'ran': ran, 'axis': axis,
                'm': _matrix_desc(draw, [n, n], _mdt(sd, fd))}
    if e == 'matrix_like':
        sd = U.base_sd(dom)
        shape = sd['shape']
        rshape = [ran[2]] if isinstance(ran[2], int) else list(ran[2])
        axis = [i for i in range(len(shape)) if shape[i] != rshape[i]]
        axis = axis[0] if axis else 0
        return {'e': 'matrix', 'dom': dom, 'ran': ran, 'axis': axis,
                'm': _matrix_desc(draw, [rshape[axis], shape[axis]],
                                  _mdt(sd, fd))}
    if e == 'flatten':
        return {'e': e, 'sp': dom, 'order': draw(st.sampled_from(['C', 'F']))}
    if e == 'flatten_inv':
        return {'e': e, 'sp': ran, 'order': draw(st.sampled_from(['C', 'F']))}
    if e == 'sampling':
        sd = U.base_sd(dom)
        k = ran[1]
        pts = [[draw(st.integers(0, n - 1)) for _ in range(k)]
               for n in sd['shape']]
        return {'e': e, 'sp': dom, 'pts': pts,
                'variant': draw(st.sampled_from(['point_eval', 'integrate']))}
    if e == 'partial':
        sd = U.base_sd(dom)
        return {'e': e, 'sp': dom, 'ran': None,
                'axis': draw(st.integers(0, len(sd['shape']) - 1)),
                'method': draw(st.sampled_from(DIFF_METHODS)),
                'pad_mode': draw(st.sampled_from(DIFF_PADS))}
    if e == 'laplacian':
        return {'e': e, 'sp': dom, 'ran': None,
                'pad_mode': draw(st.sampled_from(LAPL_PADS))}
    if e == 'gradient':
        return {'e': e, 'sp': dom, 'ran': ran,
                'method': draw(st.sampled_from(DIFF_METHODS)),
                'pad_mode': draw(st.sampled_from(DIFF_PADS))}
    if e == 'divergence':
        return {'e': e, 'sp': ran, 'dom': dom,
                'method': draw(st.sampled_from(DIFF_METHODS)),
                'pad_mode': draw(st.sampled_from(DIFF_PADS))}
    if e == 'pwinner':
        return {'e': e, 'vf': dom, 'v': draw(seeds()), 'w': None}
    if e == 'pwsum':
        return {'e': e, 'vf': dom, 'w': None}
    if e == 'pwinner_adj':
        return {'e': e, 'vf': ran, 'v': draw(seeds()), 'w': None}
    if e == 'comp_proj':
        ix = draw(st.sampled_from([i for i, p in enumerate(pd)
                                   if _teq(p, ran)]))
        return {'e': e, 'sp': dom, 'index': ix}
    if e == 'comp_proj_adj':
        return {'e': e, 'sp': ran, 'index': draw(st.integers(0,
                                                             len(pr) - 1))}
    if e == 'broadcast':
        return {'e': e, 'args': [draw(_leaf(U, dom, p)) for p in pr]}
    if e == 'reduction':
        return {'e': e, 'args': [draw(_leaf(U, p, ran)) for p in pd]}
    if e == 'diagonal':
        return {'e': e, 'args': [draw(_leaf(U, p, q))
                                 for p, q in zip(pd, pr)]}
    if e == 'pspaceop':
        args, rows = [], []
        for q in pr:
            row = []
            for p in pd:
                if draw(st.integers(0, 2)) == 0:
                    row.append(None)
                else:
                    row.append(len(args))
                    args.append(draw(_leaf(U, p, q)))
            rows.append(row)
        return {'e': e, 'rows': rows, 'dom': dom, 'ran': ran, 'args': args,
                'zero_int': draw(st.integers(0, 2)) == 0}
    raise HarnessError('unhandled leaf entry {!r}'.format(e))


def _pspace_ok(U, T):
    """ProductSpaceOperator & co. need unweighted product spaces."""
    return U.parts(T) is None or len(T) == 3 or T[-1] is None


@st.composite
def _tree(draw, U, dom, ran, depth):
    if depth <= 0:
        return draw(_leaf(U, dom, ran))
    kinds = ['leaf', 'sum', 'sum', 'comp', 'comp', 'lscal', 'lscal',
             'adjoint', 'adjoint', 'neg', 'sub', 'pos']
    if not U.is_field(ran):
        kinds += ['lvec']
    if not U.is_field(dom):
        kinds += ['rvec', 'rscal', 'rscal', 'rscal_mul', 'div']
    if U.is_field(dom) and not U.is_field(ran):
        kinds += ['rscal']
    if _teq(dom, ran):
        kinds += ['pow']
    if not U.is_field(ran) and not U.is_field(dom) and \
            U.parts(ran) is None and U.tfield(dom) == U.tfield(ran):
        kinds += ['flvec']
    k = draw(st.sampled_from(kinds))
    fd, fr = U.tfield(dom), U.tfield(ran)
    if k == 'leaf':
        return draw(_leaf(U, dom, ran))
    if k in ('sum', 'sub'):
        d = {'e': k, 'args': [draw(_tree(U, dom, ran, depth - 1)),
                              draw(_tree(U, dom, ran, depth - 1))]}
        if k == 'sum' and not U.is_field(ran) and draw(st.integers(0, 3)) == 0:
            d['tmp'] = True
        return d
    if k == 'comp':
        mid = draw(_mid_type(U, dom, ran))
        d = {'e': 'comp', 'args': [draw(_tree(U, mid, ran, depth - 1)),
                                   draw(_tree(U, dom, mid, depth - 1))]}
        if not U.is_field(mid) and draw(st.integers(0, 3)) == 0:
            d['tmp'] = True
        elif draw(st.integers(0, 4)) == 0:
            d['matmul'] = True          # ``A @ B``
        return d
    if k == 'lscal':
        d = {'e': k, 's': draw(scalars(fr)),
             'args': [draw(_tree(U, dom, ran, depth - 1))]}
        if draw(st.integers(0, 5)) == 0:
            d['matmul'] = True          # ``s @ A``
        return d
    both = fd if fd == fr else 'real'
    if k == 'rscal':
        # (A * s) * t re-enters __mul__, which needs t in the range field
        d = {'e': k, 's': draw(scalars(both if depth > 1 else fd)),
             'args': [draw(_tree(U, dom, ran, depth - 1))]}
        if not U.is_field(dom) and draw(st.integers(0, 3)) == 0:
            d['tmp'] = True             # explicit temporary
        return d
    if k == 'rscal_mul':
        d = {'e': k, 's': draw(scalars(both)),
             'args': [draw(_tree(U, dom, ran, depth - 1))]}
        if draw(st.integers(0, 5)) == 0:
            d['matmul'] = True          # ``A @ s``
        return d
    if k == 'div':
        return {'e': k, 's': draw(scalars(both, zero_ok=False)),
                'args': [draw(_tree(U, dom, ran, depth - 1))]}
    if k in ('lvec', 'rvec'):
        d = {'e': k, 'v': draw(seeds()),
             'args': [draw(_tree(U, dom, ran, depth - 1))]}
        if draw(st.integers(0, 5)) == 0:
            d['matmul'] = True          # ``v @ A`` / ``A @ v``
        return d
    if k == 'pos':
        return {'e': k, 'args': [draw(_tree(U, dom, ran, depth - 1))]}
    if k == 'flvec':
        return {'e': k, 'v': draw(seeds()), 'sp': ran,
                'args': [draw(_tree(U, dom, ['field', ran], depth - 1))]}
    if k == 'adjoint':
        return {'e': k, 'args': [draw(_tree(U, ran, dom, depth - 1))]}
    if k == 'neg':
        return {'e': k, 'args': [draw(_tree(U, dom, ran, depth - 1))]}
    if k == 'pow':
        return {'e': k, 'n': draw(st.integers(2, 3)),
                'args': [draw(_tree(U, dom, ran, depth - 1))]}
    raise HarnessError(k)


def _type_pool(U):
    pool = ['X', 'X', 'Y', ['pow', 'X', 2], ['prod', ['X', 'Y']]]
    if U.field == 'real':
        pool += [['cplx', 'X']]
    else:
        pool += [['real', 'X'], ['pow', ['real', 'X'], 2]]
    sdx = U.spaces['X']
    if sdx['kind'] == 'discr':
        pool += [['pow', 'X', len(sdx['shape'])]]
    if U.clean_x:
        pool += [['rn', draw_free_k(sdx), 'X'], ['rn', sd_size(sdx), 'X']]
        shape = list(sdx['shape'])
        shape[0] = shape[0] % 3 + 1
        pool += [['like', 'X', shape if len(shape) > 1 else shape[0]]]
    return pool


def draw_free_k(sd):
    return 1 + sd_size(sd) % 3


@st.composite
def _mid_type(draw, U, dom, ran):
    pool = _type_pool(U) + [dom, ran]
    if not U.is_field(dom) and not U.is_field(ran) and \
            U.tfield(dom) == U.tfield(ran):
        pool += [['field', dom]]
    # a functional X -> F needs field(X) == F (and F -> X likewise)
    for T in (dom, ran):
        if U.is_field(T):
            pool = [t for t in pool if U.tfield(t) == U.tfield(T)]
    return draw(st.sampled_from(pool))


@st.composite
def fam_tree(draw, max_depth=3):
    field = draw(st.sampled_from(['real', 'complex']))
    clean = draw(st.integers(0, 4)) > 0
    xk = draw(st.sampled_from(['tensor', 'discr']))
    if xk == 'tensor':
        sdx = draw(tensor_sd(field, max_size=6,
                             wkinds=('none', 'const') if clean
                             else ('none', 'const', 'array')))
    else:
        sdx = draw(discr_sd(field, max_size=6, min_side=draw(
            st.sampled_from([1, 3])), bdry=False if clean else None))
    sdy = draw(tensor_sd(field, max_size=3, max_ndim=1,
                         wkinds=('none', 'const')))
    sdy['dtype'] = sdx['dtype']
    U = Universe(field, sdx, sdy)
    pool = _type_pool(U)
    dom = draw(st.sampled_from(pool))
    ran = draw(st.sampled_from(pool + [dom, dom]))
    depth = draw(st.integers(1, max_depth))
    op = draw(_tree(U, dom, ran, depth))
    return _case('tree', U.spaces, op)


@st.composite
def fam_blocks(draw):
    """Product-space block operators over single catalogue leaves, including
    explicitly given (also weighted -> documented rejection) spaces."""
    field = draw(fields())
    sdx = draw(leaf_sd(field, max_size=4, wkinds=('none', 'const'),
                       bdry=False))
    sdy = draw(tensor_sd(field, max_size=3, max_ndim=1,
                         wkinds=('none', 'const')))
    sdy['dtype'] = sdx['dtype']
    U = Universe(field, sdx, sdy)
    # (rows, columns) of the block matrix; non-square shapes on purpose
    nr, nd = draw(st.sampled_from([(1, 2), (2, 1), (2, 3), (3, 2), (2, 2),
                                   (1, 3), (3, 1), (1, 1), (3, 3), (2, 3),
                                   (3, 2)]))
    if draw(st.booleans()):
        pd, pr = ['X'] * nd, ['X'] * nr     # all blocks X -> X
    else:
        pd = [draw(st.sampled_from(['X', 'Y'])) for _ in range(nd)]
        pr = [draw(st.sampled_from(['X', 'Y'])) for _ in range(nr)]
    e = draw(st.sampled_from(['pspaceop', 'pspaceop', 'pspaceop',
                              'broadcast', 'reduction', 'diagonal',
                              'repeat']))
    if e == 'pspaceop':
        wd = draw(st.sampled_from([None] * 9 + ['w']))
        dom = ['prod', pd] + ([draw(pweights(nd, ('const', 'array')))]
                              if wd else [])
        ran = ['prod', pr]
        args, rows = [], []
        for q in pr:
            row = []
            for p in pd:
                if draw(st.integers(0, 2)) == 0:
                    row.append(None)
                else:
                    row.append(len(args))
                    args.append(draw(_leaf(U, p, q)))
            rows.append(row)
        explicit = draw(st.booleans()) or wd is not None or \
            any(all(j is None for j in row) for row in rows) or \
            any(all(row[i] is None for row in rows) for i in range(nd))
        op = {'e': e, 'rows': rows, 'args': args,
              'dom': dom if explicit else None,
              'ran': ran if explicit else None,
              'zero_int': draw(st.integers(0, 2)) == 0}
    elif e == 'broadcast':
        op = {'e': e, 'args': [draw(_leaf(U, pd[0], q)) for q in pr]}
    elif e == 'reduction':
        op = {'e': e, 'args': [draw(_leaf(U, p, pr[0])) for p in pd]}
    elif e == 'diagonal':
        n = min(nd, nr)
        op = {'e': e, 'args': [draw(_leaf(U, p, q))
                               for p, q in zip(pd[:n], pr[:n])]}
    else:
        kind = draw(st.sampled_from(['broadcast', 'reduction', 'diagonal']))
        op = {'e': kind, 'repeat': draw(st.integers(1, 3)),
              'args': [draw(_leaf(U, pd[0], pr[0]))]}
    return _case('blocks', U.spaces, op)


# --------------------------------------------------------------------------
# strategies: operands whose result is a view of their argument, under every
# combinator (aliasing stratum)

VIEW_WRAPS = ['lvec', 'lvec', 'rvec', 'rvec', 'lscal', 'rscal', 'rscal_mul',
              'div', 'neg', 'mul_left', 'mul_right', 'adj', 'adj', 'none']
VIEW_COMBINERS = ['single', 'single', 'sum', 'sum', 'sub', 'broadcast',
                  'broadcast', 'reduction', 'reduction', 'diagonal',
                  'pspaceop', 'pspaceop', 'outer', 'outer']


@st.composite
def _view(draw, U, dom, ran):
    """An operator ``dom -> ran`` (dom, ran in {X, R = rn(size(X))}) whose
    out-of-place result may share memory with its argument: the flattening
    operator, its inverse, and their compositions."""
    order = draw(st.sampled_from(['C', 'C', 'C', 'F']))
    x_is_dom, x_is_ran = isinstance(dom, str), isinstance(ran, str)
    if x_is_dom and not x_is_ran:
        return {'e': 'flatten', 'sp': dom, 'order': order}
    if x_is_ran and not x_is_dom:
        return {'e': 'flatten_inv', 'sp': ran, 'order': order}
    if draw(st.integers(0, 3)) == 0:
        return {'e': 'identity', 'sp': dom}
    if x_is_dom:
        X = dom
        return {'e': 'comp', 'args': [
            {'e': 'flatten_inv', 'sp': X, 'order': order},
            {'e': 'flatten', 'sp': X, 'order': order}]}
    X = dom[2]
    return {'e': 'comp', 'args': [
        {'e': 'flatten', 'sp': X, 'order': order},
        {'e': 'flatten_inv', 'sp': X, 'order': order}]}


@st.composite
def _wrap(draw, U, inner, dom, ran, kinds=None):
    """One arithmetic wrapper around ``inner: dom -> ran`` - the classes
    that scale / multiply what their operand returned or received."""
    field = U.tfield(dom)
    k = draw(st.sampled_from(kinds or VIEW_WRAPS))
    if k == 'none':
        return inner
    if k in ('lvec', 'rvec'):
        return {'e': k, 'v': draw(st.integers(1, 10 ** 6)), 'args': [inner]}
    if k in ('lscal', 'rscal', 'rscal_mul', 'div'):
        return {'e': k, 's': draw(scalars(field, zero_ok=False)),
                'args': [inner]}
    if k == 'neg':
        return {'e': k, 'args': [inner]}
    if k == 'mul_left':
        return {'e': 'comp', 'args': [
            {'e': 'multiply_vec', 'sp': ran,
             'v': draw(st.integers(1, 10 ** 6))}, inner]}
    if k == 'mul_right':
        return {'e': 'comp', 'args': [inner, {
            'e': 'multiply_vec', 'sp': dom,
            'v': draw(st.integers(1, 10 ** 6))}]}
    # the adjoint of a wrapped view in the opposite direction, e.g.
    # (v * F.inverse).adjoint = F.inverse.adjoint * v
    back = draw(_view(U, ran, dom))
    return {'e': 'adjoint', 'args': [draw(_wrap(
        U, back, ran, dom, ['lvec', 'rvec', 'lscal', 'rscal', 'mul_left',
                            'mul_right', 'none']))]}


@st.composite
def _second(draw, U, dom, ran):
    """The operand that uses the same argument a second time."""
    k = draw(st.integers(0, 3))
    if k == 0:
        return draw(_leaf(U, dom, ran))
    v = draw(_view(U, dom, ran))
    if k <= 2:
        # unwrapped: what the combinator receives from this operand is
        # itself a view of the shared argument
        return v
    return draw(_wrap(U, v, dom, ran))


@st.composite
def fam_views(draw):
    """Operators whose result shares memory with their argument
    (FlatteningOperator, its inverse, compositions of them) below every
    arithmetic wrapper, and the wrapped operator next to a second operand
    that receives the same argument (sum, difference, broadcast / block
    column) or sits in the same block row / next in a chain."""
    field = draw(fields())
    if draw(st.booleans()):
        sdx = draw(tensor_sd(field, max_size=6, wkinds=('none',)))
    else:
        sdx = draw(discr_sd(field, max_size=6, bdry=False))
    sdy = draw(tensor_sd(field, max_size=3, max_ndim=1, wkinds=('none',)))
    sdy['dtype'] = sdx['dtype']
    U = Universe(field, sdx, sdy)
    R = ['rn', sd_size(sdx), 'X']
    dom = draw(st.sampled_from(['X', R]))
    ran = draw(st.sampled_from(['X', R]))
    a = draw(_wrap(U, draw(_view(U, dom, ran)), dom, ran))
    c = draw(st.sampled_from(VIEW_COMBINERS))
    if c == 'single':
        op = a
    elif c in ('sum', 'sub'):
        b = draw(_second(U, dom, ran))
        op = {'e': c, 'args': [a, b] if draw(st.booleans()) else [b, a]}
        if c == 'sum' and draw(st.integers(0, 3)) == 0:
            op['tmp'] = True
    elif c in ('broadcast', 'reduction', 'diagonal'):
        b = draw(_second(U, dom, ran))
        args = [a, b] if draw(st.booleans()) else [b, a]
        if draw(st.integers(0, 3)) == 0:
            args.append(draw(_second(U, dom, ran)))
        op = {'e': c, 'args': args}
    elif c == 'pspaceop':
        # every block dom -> ran; column (shared argument), row (shared
        # accumulator) or full 2 x 2 with at most one zero block
        shape = draw(st.sampled_from([(2, 1), (1, 2), (2, 2)]))
        cells = [(i, j) for i in range(shape[0]) for j in range(shape[1])]
        first = draw(st.sampled_from(cells))
        zero = draw(st.sampled_from([None] + cells)) if shape == (2, 2) \
            else None
        args, rows = [], [[None] * shape[1] for _ in range(shape[0])]
        for (i, j) in cells:
            if (i, j) == zero and (i, j) != first:
                continue
            rows[i][j] = len(args)
            args.append(a if (i, j) == first
                        else draw(_second(U, dom, ran)))
        op = {'e': 'pspaceop', 'rows': rows, 'args': args, 'dom': None,
              'ran': None}
    else:
        # a second wrapper on top, or a chain through a second wrapped view
        if draw(st.booleans()):
            op = draw(_wrap(U, a, dom, ran, [w for w in VIEW_WRAPS
                                              if w not in ('none', 'adj')]))
        else:
            nxt = draw(st.sampled_from(['X', R]))
            b = draw(_wrap(U, draw(_view(U, ran, nxt)), ran, nxt))
            op = {'e': 'comp', 'args': [b, a]}
            if draw(st.integers(0, 3)) == 0:
                op['tmp'] = True
    if draw(st.integers(0, 5)) == 0:
        op = {'e': 'adjoint', 'args': [op]}
    return _case('views', U.spaces, op)


# --------------------------------------------------------------------------
# strategies: ``A.inverse`` of invertible configurations (the operators the
# ``inverse`` properties of the arithmetic classes and of the catalogue
# classes return are linear operators with an ``adjoint`` of their own)

@st.composite
def _inv_leaf(draw, U, T):
    """``(descriptor, range type)`` of an invertible leaf with domain ``T``;
    range type None = not expressible (no further composition)."""
    field = U.tfield(T)
    sd = U.base_sd(T)
    cands = ['scaling', 'scaling', 'identity']
    if sd is not None:
        cands += ['matrix', 'matrix']
        if isinstance(T, str):
            cands += ['cembed', 'cembed']
            if sd.get('weighting') is None:
                # (constant weights: known region F05 of the flattening pair)
                cands += ['flatten']
            if field == 'complex':
                cands += ['realpart', 'imagpart']
            if sd['kind'] == 'discr':
                cands += ['resize', 'resize']
    elif not isinstance(T, str) and T[0] == 'rn':
        cands += ['flatten_inv', 'flatten_inv']
    e = draw(st.sampled_from(cands))
    if e == 'identity':
        return {'e': e, 'sp': T}, T
    if e == 'scaling':
        return {'e': e, 'sp': T, 's': draw(scalars(field, zero_ok=False))}, T
    if e == 'matrix':
        axis = draw(st.integers(0, len(sd['shape']) - 1))
        n = sd['shape'][axis]
        return {'e': 'matrix', 'dom': T, 'ran': T, 'axis': axis,
                'm': _matrix_desc(draw, [n, n], _mdt(sd, field)),
                'diag_shift': 4.0 * n + 1.0,
                'sparse': len(sd['shape']) == 1 and
                draw(st.integers(0, 3)) == 0}, T
    if e == 'flatten':
        return ({'e': e, 'sp': T, 'order': draw(st.sampled_from(['C', 'F']))},
                ['rn', sd_size(sd), T])
    if e == 'flatten_inv':
        return ({'e': e, 'sp': T[2],
                 'order': draw(st.sampled_from(['C', 'F']))}, T[2])
    if e == 'cembed':
        return ({'e': e, 'sp': T, 's': draw(cembed_scalars())},
                T if field == 'complex' else ['cplx', T])
    if e in ('realpart', 'imagpart'):
        return {'e': e, 'sp': T}, ['real', T]
    # resize (pseudo-inverse documented): extension or restriction
    shape = sd_shape(sd)
    ran_shp = [max(1, n + draw(st.integers(-1, 2))) for n in shape]
    return {'e': 'resize', 'sp': T, 'ran_shp': ran_shp,
            'pad_mode': draw(st.sampled_from(['constant', 'order0',
                                              'periodic'])),
            'offset': None}, None


@st.composite
def _inv_wrap(draw, U, inner, dom, ran):
    k = draw(st.sampled_from(['lscal', 'rscal', 'rscal_mul', 'div', 'neg',
                              'lvec', 'lvec', 'rvec', 'rvec', 'none',
                              'none', 'adjoint', 'inverse']))
    if k == 'none':
        return inner
    if k in ('lscal', 'rscal', 'rscal_mul', 'div'):
        # real scalars: a complex multiple between a real and a complex
        # space documents a refusal of the adjoint
        fd = U.tfield(dom)
        f = fd if ran is not None and fd == U.tfield(ran) else 'real'
        return {'e': k, 's': draw(scalars(f, zero_ok=False)),
                'args': [inner]}
    if k in ('lvec', 'rvec'):
        return {'e': k, 'v': draw(st.integers(1, 10 ** 6)), 'nz': True,
                'args': [inner]}
    return {'e': k, 'args': [inner]}


@st.composite
def fam_inverses(draw):
    field = draw(fields())
    sdx = draw(leaf_sd(field, max_size=6, wkinds=('none', 'none', 'const'),
                       bdry=False, min_side=draw(st.sampled_from([1, 2]))))
    sdy = draw(tensor_sd(field, max_size=3, max_ndim=1, wkinds=('none',)))
    sdy['dtype'] = sdx['dtype']
    U = Universe(field, sdx, sdy)
    op, T = draw(_inv_leaf(U, 'X'))
    dom = 'X'
    for _ in range(draw(st.integers(0, 2))):
        k = draw(st.sampled_from(['wrap', 'wrap', 'comp', 'diag']))
        if k == 'wrap':
            w = draw(_inv_wrap(U, op, dom, T))
            if w is not op and w['e'] in ('adjoint', 'inverse'):
                dom, T = T, dom
                if dom is None:
                    op = w
                    break
            op = w
        elif k == 'comp' and T is not None:
            nxt, T2 = draw(_inv_leaf(U, T))
            op = {'e': 'comp', 'args': [nxt, op]}
            if draw(st.integers(0, 3)) == 0:
                op['tmp'] = True
            T = T2
        elif T is not None:
            other, T2 = draw(_inv_leaf(U, dom))
            if T2 is None or U.tfield(T2) != U.tfield(T):
                # (a product space needs one field for all parts)
                other = {'e': 'identity', 'sp': dom}
                if U.tfield(dom) != U.tfield(T):
                    other = op
            op = {'e': 'diagonal', 'args': [op, other]}
            dom, T = None, None
            break
        if T is None:
            break
    return _case('inverses', U.spaces, {'e': 'inverse', 'args': [op]})


@st.composite
def fam_derivs(draw):
    """Linear operators returned by ``derivative`` of non-linear
    combinations: chain rule, Leibniz rule, operator + constant."""
    field = draw(fields())
    sdx = draw(leaf_sd(field, max_size=6, wkinds=('none', 'const'),
                       bdry=False))
    sdy = draw(tensor_sd(field, max_size=3, max_ndim=1,
                         wkinds=('none', 'const')))
    sdy['dtype'] = sdx['dtype']
    U = Universe(field, sdx, sdy)
    kind = draw(st.sampled_from(['chain', 'chain', 'pwprod', 'gradient']))
    if kind == 'gradient':
        # derivative of the gradient of ||A x||^2 resp. <x, A x>
        name = draw(st.sampled_from(['comp', 'quadratic']))
        ran = 'X' if name == 'quadratic' else draw(st.sampled_from(
            ['X', 'Y', ['pow', 'X', 2]]))
        op = {'e': 'grad_deriv', 'name': name, 'x': draw(seeds()),
              'args': [draw(_leaf(U, 'X', ran))]}
    elif kind == 'pwprod':
        op = {'e': 'pwprod_deriv', 'x': draw(seeds()),
              'args': [draw(_leaf(U, 'X', 'X')), draw(_leaf(U, 'X', 'X'))]}
    else:
        outers = ['cmod', 'cmodsq', 'power'] if field == 'complex' else \
            ['sin', 'exp', 'square', 'cosh', 'power', 'cmod', 'cmodsq']
        op = {'e': 'chain_deriv', 'outer': draw(st.sampled_from(outers)),
              'x': draw(seeds()),
              'shift': draw(st.none() | seeds()),
              'args': [draw(_leaf(U, 'X', 'X'))]}
    return _case('derivs', U.spaces, op)


FAMILIES = {
    'default_ops': fam_default, 'complex_ops': fam_complex,
    'matrix': fam_matrix, 'sampling': fam_sampling,
    'pointwise': fam_pointwise, 'projection': fam_projection,
    'diff_ops': fam_diff, 'resize': fam_resize, 'fourier': fam_fourier,
    'wavelet': fam_wavelet, 'blocks': fam_blocks, 'tree': fam_tree,
    'derivs': fam_derivs, 'views': fam_views, 'inverses': fam_inverses,
}

# relative frequencies of the families in a run
FAMILY_WEIGHTS = [('default_ops', 3), ('complex_ops', 2), ('matrix', 3),
                  ('sampling', 2), ('pointwise', 2), ('projection', 2),
                  ('diff_ops', 3), ('resize', 2), ('fourier', 2),
                  ('wavelet', 1), ('blocks', 2), ('tree', 8), ('derivs', 1),
                  ('views', 3), ('inverses', 1)]


def cases():
    names = []
    for name, w in FAMILY_WEIGHTS:
        names += [name] * w
    return st.sampled_from(names).flatmap(lambda n: FAMILIES[n]())


# classes of the anchored modules that the catalogue reaches / exempts
EXEMPT = {
    'Resampling': 'adjoint documented as approximate (property text)',
    'RayTransform': 'adjoint documented as approximate (property text)',
    'RayBackProjection': 'adjoint documented as approximate (property text)',
    'LinDeformFixedDisp': 'adjoint documented as approximate (property text)',
    'LinDeformFixedTempl': 'non-linear; derivative adjoint exempt',
}
