"""Reference rotation matrices (NumPy only, never imports odl).

Written from the documentation of ``odl.tomo.util.utility`` and the
geometry classes, not from their code:

* 2d: ``rot(phi) = [[cos, -sin], [sin, cos]]`` (counter-clockwise).
* Euler angles: "ZXZ" order (Wikipedia, *Euler angles*, rotation matrix
  table, proper Euler angles Z1 X2 Z3):  ``R = Rz(phi) Rx(theta) Rz(psi)``,
  built here as a *product of elementary rotations* (the library writes
  the closed form).
* Axis rotation: Rodrigues' formula in its vector form
  ``v cos(a) + (n x v) sin(a) + n <n, v> (1 - cos(a))`` applied to the
  three unit vectors (the library writes the matrix form
  ``cos I + (1 - cos) n n^T + sin [n]_x``).
* ``rotation_from_to(u, v)``: documented in the Notes of
  ``rotation_matrix_from_to``: rotation about ``n = u^ x v^`` by the angle
  between the vectors; collinear vectors: identity for equal directions,
  otherwise a half turn about ``(1, 0, 0)`` if ``v1 = v2 = 0`` else about
  ``(-v2, v1, 0)`` (the docstring prints ``(-v2, v1, v3)``, which is not
  perpendicular to ``v`` unless ``v3 = 0``; only the perpendicular reading
  maps ``u`` to ``v`` and it is what is used here).
"""
import numpy as np


def rot2d(phi):
    c, s = np.cos(phi), np.sin(phi)
    return np.array([[c, -s], [s, c]], dtype=float)


def rot_x(t):
    c, s = np.cos(t), np.sin(t)
    return np.array([[1.0, 0.0, 0.0], [0.0, c, -s], [0.0, s, c]])


def rot_z(t):
    c, s = np.cos(t), np.sin(t)
    return np.array([[c, -s, 0.0], [s, c, 0.0], [0.0, 0.0, 1.0]])


def euler_zxz(phi, theta=0.0, psi=0.0):
    """Proper Euler angles, ZXZ convention, extrinsic reading of the product
    ``Rz(phi) Rx(theta) Rz(psi)``."""
    return rot_z(phi).dot(rot_x(theta)).dot(rot_z(psi))


def unit(v):
    v = np.asarray(v, dtype=float)
    n = np.sqrt(np.sum(v * v))
    if n == 0:
        raise ValueError('zero vector')
    return v / n


def cross3(a, b):
    """Cross product of two 3-vectors, written out (``np.cross`` spends
    most of its time on axis bookkeeping)."""
    return np.array([a[1] * b[2] - a[2] * b[1],
                     a[2] * b[0] - a[0] * b[2],
                     a[0] * b[1] - a[1] * b[0]], dtype=float)


_E3 = np.eye(3)


def rodrigues(axis, angle):
    """Counter-clockwise rotation by ``angle`` about ``axis`` (normalised
    here)."""
    n = unit(axis)
    c, s = np.cos(angle), np.sin(angle)
    out = np.empty((3, 3))
    for j in range(3):
        v = _E3[j]
        out[:, j] = v * c + cross3(n, v) * s + n * n[j] * (1.0 - c)
    return out


def rotation_from_to(u, v):
    """Documented rotation taking the direction of ``u`` to that of ``v``."""
    u = unit(u)
    v = unit(v)
    if u.shape == (2,):
        # unique in the plane
        ang = np.arctan2(u[0] * v[1] - u[1] * v[0], np.dot(u, v))
        return rot2d(ang)
    n = np.cross(u, v)
    nn = np.sqrt(np.dot(n, n))
    d = np.dot(u, v)
    if nn < 1e-10:
        if d > 0:
            return np.eye(3)
        if v[0] == 0 and v[1] == 0:
            p = np.array([1.0, 0.0, 0.0])
        else:
            p = unit([-v[1], v[0], 0.0])
        return rodrigues(p, np.pi)
    # v = cos(a) u + sin(a) b with b = n^ x u and sin(a) = |u x v| >= 0
    return rodrigues(n / nn, np.arctan2(nn, d))


def init_rotation(principal, default):
    """Rotation applied to the default vectors when ``principal`` deviates
    from ``default`` (Notes of the geometry constructors): none for a
    positive multiple of the default, else ``rotation_from_to``."""
    p = unit(principal)
    d = unit(default)
    if np.max(np.abs(p - d)) < 1e-9:
        return np.eye(len(d))
    return rotation_from_to(d, p)


def orthonormality_defect(R):
    R = np.asarray(R, dtype=float)
    return float(np.max(np.abs(R.T.dot(R) - np.eye(R.shape[0]))))


def det(R):
    return float(np.linalg.det(np.asarray(R, dtype=float)))
