"""Reference finite differences (NumPy only, never imports odl).

Written from the documentation of ``finite_diff``: *extend the array along the
axis by the named boundary rule, then apply the textbook stencil, then divide
by the cell side*.

Primary modes
    ``constant``   ghost value = ``pad_const``
    ``symmetric``  ghost value = edge value (the test-suite of the library
                   pins "replicate" semantics for finite differences)
    ``order0``     ghost value = edge value
    ``periodic``   ghost value = value from the other end
    ``order1``     ghost value = linear extrapolation ``2 f0 - f1``
    ``order2``     the documented one-sided second order rows
                   ``-(3 f0 - 4 f1 + f2)/2`` and ``(3 f[-1] - 4 f[-2] +
                   f[-3])/2`` for *all* methods (for ``central`` this is the
                   stencil on the quadratically extended array; for
                   forward/backward the documentation and
                   ``test_finite_diff_explicit`` say "2nd order edges")

Adjoint modes ``<m>_adjoint`` are *defined* here by duality: the matrix of
``(method, m_adjoint)`` is ``-M(adj(method), m)^T`` with
``adj(forward) = backward, adj(backward) = forward, adj(central) = central``.

All arithmetic in (complex) long double.
"""
import functools

import numpy as np

METHODS = ('forward', 'backward', 'central')
PRIMARY_MODES = ('constant', 'symmetric', 'periodic', 'order0', 'order1',
                 'order2')
ADJOINT_MODES = {'symmetric_adjoint': 'symmetric',
                 'order0_adjoint': 'order0',
                 'order1_adjoint': 'order1',
                 'order2_adjoint': 'order2'}
ALL_MODES = PRIMARY_MODES + tuple(ADJOINT_MODES)
ADJ_METHOD = {'forward': 'backward', 'backward': 'forward',
              'central': 'central'}
LAPLACIAN_MODES = ('constant', 'symmetric', 'symmetric_adjoint', 'periodic',
                   'order0', 'order0_adjoint')


def min_size(mode):
    """Smallest admissible size along the differentiated axis."""
    return 3 if mode in ('order2', 'order2_adjoint') else 2


def _ld(arr):
    arr = np.asarray(arr)
    return arr.astype(np.clongdouble if arr.dtype.kind == 'c'
                      else np.longdouble)


def extend(f, mode, pad_const=0):
    """``f`` with one ghost entry on either side of axis 0."""
    if mode == 'constant':
        lo = np.full_like(f[:1], pad_const)
        hi = np.full_like(f[:1], pad_const)
    elif mode in ('symmetric', 'order0'):
        lo, hi = f[:1], f[-1:]
    elif mode == 'periodic':
        lo, hi = f[-1:], f[:1]
    elif mode in ('order1', 'order2'):
        # (for order2 only the interior rows of the result are used)
        lo = 2 * f[:1] - f[1:2]
        hi = 2 * f[-1:] - f[-2:-1]
    else:
        raise ValueError(mode)
    return np.concatenate([lo, f, hi], axis=0)


def stencil(g, method):
    """Textbook difference of the extended array ``g`` (axis 0)."""
    if method == 'forward':
        return g[2:] - g[1:-1]
    if method == 'backward':
        return g[1:-1] - g[:-2]
    if method == 'central':
        return (g[2:] - g[:-2]) / 2
    raise ValueError(method)


def _primary(f, method, mode, pad_const):
    """Difference along axis 0 with unit cell side, primary modes."""
    n = f.shape[0]
    if n < min_size(mode):
        raise ValueError('axis too short')
    if np.iscomplexobj(pad_const) and not np.iscomplexobj(f):
        raise ValueError('complex pad_const for real data')
    d = stencil(extend(f, mode, pad_const), method)
    if mode == 'order2':
        d[0] = -(3 * f[0] - 4 * f[1] + f[2]) / 2
        d[-1] = (3 * f[-1] - 4 * f[-2] + f[-3]) / 2
    return d


@functools.lru_cache(maxsize=None)
def matrix_1d(n, method, mode):
    """``(M, b)``: the 1-D operator is ``f -> M f + pad_const * b`` for unit
    cell side (float64 arrays, entries are exact dyadic numbers)."""
    if mode in ADJOINT_MODES:
        M, _ = matrix_1d(n, ADJ_METHOD[method], ADJOINT_MODES[mode])
        return -M.T.copy(), np.zeros(n)
    zero = np.zeros(n, dtype=np.longdouble)
    b = _primary(zero, method, mode, 1)
    M = np.empty((n, n))
    for k in range(n):
        e = zero.copy()
        e[k] = 1
        M[:, k] = _primary(e, method, mode, 0)
    return M, np.asarray(b, dtype=float)


def finite_diff(f, axis, dx, method, mode, pad_const=0):
    """Reference for ``finite_diff(f, axis, dx, method, pad_mode, pad_const)``
    (long double result)."""
    f = _ld(f)
    g = np.moveaxis(f, axis, 0)
    if g.shape[0] < min_size(mode):
        raise ValueError('axis too short')
    if mode in ADJOINT_MODES:
        M, _ = matrix_1d(g.shape[0], method, mode)
        d = np.tensordot(M.astype(np.longdouble), g, axes=(1, 0))
    else:
        d = _primary(g, method, mode, pad_const)
    return np.moveaxis(d, 0, axis) / np.longdouble(dx)


@functools.lru_cache(maxsize=4096)
def partial_matrix(shape, axis, method, mode):
    """``(M, b)`` of the partial difference on C-flattened arrays of
    ``shape`` for unit cell side: ``vec(out) = M vec(f) + pad_const * b``.

    Built by applying the reference to every basis array (not by a Kronecker
    formula), so the n-D handling is the documented one.
    """
    shape = tuple(shape)
    size = int(np.prod(shape))
    zero = np.zeros(shape)
    b = np.asarray(finite_diff(zero, axis, 1.0, method, mode, 1),
                   dtype=float).ravel()
    if mode in ADJOINT_MODES:
        b = np.zeros(size)
    M = np.empty((size, size))
    for k in range(size):
        e = np.zeros(size)
        e[k] = 1.0
        M[:, k] = np.asarray(
            finite_diff(e.reshape(shape), axis, 1.0, method, mode, 0),
            dtype=float).ravel()
    M.setflags(write=False)
    b.setflags(write=False)
    return M, b


def gradient_matrix(shape, dxs, method, mode):
    """Stacked partials: rows ordered component by component."""
    Ms, bs = [], []
    for a, dx in enumerate(dxs):
        M, b = partial_matrix(tuple(shape), a, method, mode)
        Ms.append(M / dx)
        bs.append(b / dx)
    return np.vstack(Ms), np.concatenate(bs)


def divergence_matrix(shape, dxs, method, mode):
    """Sum of partials of the components: columns component by component."""
    Ms, bsum = [], 0.0
    for a, dx in enumerate(dxs):
        M, b = partial_matrix(tuple(shape), a, method, mode)
        Ms.append(M / dx)
        bsum = bsum + b / dx
    return np.hstack(Ms), bsum


def laplacian_matrix(shape, dxs, mode):
    """sum_a (forward_a - backward_a) / dx_a**2."""
    if mode not in LAPLACIAN_MODES:
        raise ValueError('mode not offered for the Laplacian')
    Msum, bsum = 0.0, 0.0
    for a, dx in enumerate(dxs):
        Mf, bf = partial_matrix(tuple(shape), a, 'forward', mode)
        Mb, bb = partial_matrix(tuple(shape), a, 'backward', mode)
        Msum = Msum + (Mf - Mb) / dx ** 2
        bsum = bsum + (bf - bb) / dx ** 2
    return Msum, bsum
