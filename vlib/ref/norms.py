"""Reference model for inner products, norms and distances (NumPy only).

Never imports odl.  Written from the documentation:

* tensor spaces (``NumpyTensorSpace*Weighting`` notes):
    <a, b>_c = c * b^H a,           <a, b>_w = b^H (w . a)
    ||a||_{c,p} = c^(1/p) ||a||_p,  ||a||_{w,p} = ||w^(1/p) . a||_p
    ||a||_{c,inf} = c ||a||_inf,    ||a||_{w,inf} = ||w . a||_inf
* product spaces (``ProductSpace`` notes, ``ProductSpace*Weighting``):
    <x, y> = sum_i w_i <x_i, y_i>_i,
    ||x|| = (sum_i w_i ||x_i||_i^p)^(1/p),   ||x||_inf = max_i w_i ||x_i||_i
    d(x, y) likewise from the component distances
* uniformly discretized spaces (``uniform_discr``, ``RectPartition``):
    default weighting constant = cell volume (1.0 for p = inf); the samples
    of the outermost cells count with the fraction of the cell that lies
    inside the domain (``boundary_cell_fractions``: 1/2 for a node on the
    boundary), so that ||1||_p^p = volume of the domain.  Fractions are
    recomputed here from the coordinate vectors and the domain limits.
* the three named custom functions of ``vlib.spacex``:
    inner = 3 <.,.>_plain (p = 2), norm = 2 ||.||_1, dist = .5 ||.-.||_inf

A *model* is a tree of dicts built from the plain space descriptor; values
are nested lists of arrays mirroring the product structure.
"""
import numpy as np

LD = np.longdouble
CLD = np.clongdouble
INF = float('inf')


def _eps(dtype):
    dt = np.dtype(dtype)
    if dt.kind in 'fc':
        return float(np.finfo(dt).eps)
    return float(np.finfo(np.float64).eps)


def _tiny(dtype):
    dt = np.dtype(dtype)
    if dt.kind in 'fc':
        return float(np.finfo(dt).tiny)
    return float(np.finfo(np.float64).tiny)


# --------------------------------------------------------------------------
# grids

def uniform_axis(xmin, xmax, n, on_l, on_r):
    """Coordinate vector of one axis of ``uniform_partition_fromintv``.

    A boundary flagged ``True`` carries a node; otherwise the outermost node
    lies half a cell inside.  With s the cell side:  L = s*(n - (l + r)/2).
    """
    xmin, xmax = LD(xmin), LD(xmax)
    L = xmax - xmin
    if n == 1:
        # one node: it sits on the flagged boundary (left wins) or in the
        # middle; it owns the whole interval either way
        if on_l:
            return np.array([xmin], dtype=LD)
        if on_r:
            return np.array([xmax], dtype=LD)
        return np.array([xmin + L / 2], dtype=LD)
    s = L / (LD(n) - (LD(bool(on_l)) + LD(bool(on_r))) / 2)
    first = xmin if on_l else xmin + s / 2
    return first + s * np.arange(n, dtype=LD)


def _nob_pairs(nob, ndim):
    if isinstance(nob, bool):
        return [(nob, nob)] * ndim
    out = []
    for p in nob:
        if isinstance(p, (list, tuple)):
            out.append((bool(p[0]), bool(p[1])))
        else:
            out.append((bool(p), bool(p)))
    return out


def axis_weights(coords, xmin, xmax):
    """(cell side, fraction left, fraction right) of a *uniform* axis."""
    c = np.asarray(coords, dtype=LD)
    xmin, xmax = LD(xmin), LD(xmax)
    if len(c) == 1:
        return xmax - xmin, LD(1), LD(1)
    s = (c[-1] - c[0]) / (len(c) - 1)
    fl = LD(0.5) + (c[0] - xmin) / s
    fr = LD(0.5) + (xmax - c[-1]) / s
    return s, fl, fr


def quadrature_weights(coord_vecs, mins, maxs):
    """Cell volume, per-entry boundary fraction product, any fraction != 1,
    domain volume, per-entry number of boundary scalings (axes on whose
    boundary with a fraction != 1 the entry lies)."""
    shape = tuple(len(c) for c in coord_vecs)
    frac = np.ones(shape, dtype=LD)
    nsc = np.zeros(shape, dtype=LD)
    vol = LD(1)
    cell = LD(1)
    any_frac = False
    for ax, (c, lo, hi) in enumerate(zip(coord_vecs, mins, maxs)):
        s, fl, fr = axis_weights(c, lo, hi)
        cell = cell * s
        vol = vol * (LD(hi) - LD(lo))
        f = np.ones(len(c), dtype=LD)
        if len(c) > 1:
            f[0] = f[0] * fl
            f[-1] = f[-1] * fr
            if abs(fl - 1) > 1e-9 or abs(fr - 1) > 1e-9:
                any_frac = True
        sh = [1] * len(shape)
        sh[ax] = len(c)
        frac = frac * f.reshape(sh)
        nsc = nsc + (np.abs(f - 1) > 1e-9).astype(LD).reshape(sh)
    return cell, frac, any_frac, vol, nsc


# --------------------------------------------------------------------------
# model

def weight_data(w, shape):
    """Per-entry weights of an array-weighting descriptor: explicit ``data``
    or, for large spaces, ``gen: {seed}`` expanded by a seeded generator
    (strictly positive, three decimals)."""
    if 'gen' in w:
        size = int(np.prod(shape, dtype=int))
        rng = np.random.RandomState(int(w['gen']['seed']))
        return np.round(rng.uniform(0.2, 3.0, size), 3).reshape(shape)
    return np.asarray(w['data'], dtype=float).reshape(shape)


def _leaf_user_weight(sd, shape):
    """(kind, weight array or scalar) of the tensor-level weighting."""
    w = sd.get('weighting')
    if w is None:
        return 'none', None
    if w['type'] == 'const':
        return 'const', LD(w['value'])
    if w['type'] == 'array':
        arr = weight_data(w, shape)
        dt = np.dtype(sd.get('dtype', 'float64'))
        if dt in (np.dtype('float32'), np.dtype('complex64')) and \
                not w.get('as64'):
            arr = arr.astype(np.float32)
        return 'array', arr.astype(LD)
    if w['type'] == 'custom':
        return 'custom_' + w['which'], None
    raise ValueError(w)


def model(sd):
    kind = sd['kind']
    if kind == 'pspace':
        if sd.get('power') is not None:
            parts = [model(sd['base'])] * int(sd['power'])
        else:
            parts = [model(p) for p in sd['parts']]
        n = len(parts)
        p = float(sd.get('exponent', 2.0))
        w = sd.get('weighting')
        node = {'leaf': False, 'parts': parts, 'p': p, 'wkind': 'none',
                'w': np.ones(n, dtype=LD), 'has_inner': True,
                'has_norm': True, 'has_dist': True, 'custom': None}
        if w is not None:
            if w['type'] == 'const':
                node['wkind'] = 'const'
                node['w'] = np.full(n, LD(w['value']), dtype=LD)
            elif w['type'] == 'array':
                node['wkind'] = 'array'
                node['w'] = np.asarray(w['data'], dtype=float).astype(LD)
            elif w['type'] == 'custom':
                _custom(node, w['which'], n)
        if node['p'] != 2.0:
            node['has_inner'] = False
        # the documented formulas need the components' own quantities
        if not all(c['has_inner'] for c in parts):
            node['has_inner'] = False
        if not all(c['has_norm'] for c in parts):
            node['has_norm'] = False
        if node['custom'] in ('inner', 'inner_b') and not node['has_inner']:
            # the named custom inner product is built from the components'
            # inner products; without them neither it nor the norm and
            # distance derived from it exist
            node['has_norm'] = False
            node['has_dist'] = False
        node['size'] = sum(c['size'] for c in parts)
        node['eps'] = max([c['eps'] for c in parts] or [_eps('float64')])
        node['complex'] = any(c['complex'] for c in parts) or \
            sd.get('field') == 'complex' or (
                sd.get('power') is not None and model(sd['base'])['complex'])
        return node

    shape = tuple(sd['shape'])
    size = int(np.prod(shape, dtype=int))
    p = float(sd.get('exponent', 2.0))
    wkind, uw = _leaf_user_weight(sd, shape)
    node = {'leaf': True, 'p': p, 'wkind': wkind, 'has_inner': p == 2.0,
            'has_norm': True, 'has_dist': True, 'size': size, 'shape': shape,
            'eps': _eps(sd.get('dtype', 'float64')), 'custom': None,
            'complex': np.dtype(sd.get('dtype', 'float64')).kind == 'c',
            'bdry': False, 'cellvol': None, 'vol': None, 'default_w': False,
            'nsc': None, 'tiny': _tiny(sd.get('dtype', 'float64'))}
    base = np.ones(shape, dtype=LD)
    if wkind == 'const':
        base = base * uw
    elif wkind == 'array':
        base = uw.copy()
    elif wkind.startswith('custom_'):
        _custom(node, wkind[7:], None)
        base = base * node.pop('cw')

    if kind == 'tensor':
        node['w'] = base
        return node

    if kind == 'discr':
        pairs = _nob_pairs(sd.get('nodes_on_bdry', False), len(shape))
        coords = [uniform_axis(lo, hi, n, l, r) for lo, hi, n, (l, r) in
                  zip(sd['min'], sd['max'], shape, pairs)]
        uniform = True
    elif kind == 'discr_coords':
        coords = [np.asarray(c, dtype=LD) for c in sd['coords']]
        uniform = bool(sd['uniform'])
    else:
        raise ValueError('unknown space kind {!r}'.format(kind))

    if not uniform:
        # DiscretizedSpace(partition, tspace): the tspace weighting as given
        node['w'] = base
        node['wkind'] = 'nonuniform-' + wkind
        return node

    cell, frac, any_frac, vol, nsc = quadrature_weights(coords, sd['min'],
                                                        sd['max'])
    node['cellvol'] = float(cell)
    node['vol'] = vol
    if wkind == 'none':
        node['default_w'] = True
        node['wkind'] = 'cellvol'
        if p != INF:
            base = base * cell
    if p != INF:
        # boundary fractions enter the integral, not the maximum
        base = base * frac
        node['bdry'] = any_frac
        node['nsc'] = nsc
    node['w'] = base
    return node


def _custom(node, which, n):
    """Closed forms of the named custom functions as (weight, p, absences)."""
    node['custom'] = which
    node['wkind'] = 'custom_' + which
    if which in ('inner', 'inner_b'):
        c, p = (3.0 if which == 'inner' else 5.0), 2.0
    elif which == 'norm':
        c, p = 2.0, 1.0
        node['has_inner'] = False
    elif which == 'dist':
        c, p = 0.5, INF
        node['has_inner'] = False
        node['has_norm'] = False
    else:
        raise ValueError(which)
    node['p'] = p
    if n is None:
        node['cw'] = LD(c)
    else:
        node['w'] = np.full(n, LD(c), dtype=LD)


# --------------------------------------------------------------------------
# evaluation

def _c(a):
    a = np.asarray(a)
    return a.astype(CLD) if a.dtype.kind == 'c' else a.astype(LD)


def inner(node, x, y):
    """(value, magnitude) of <x, y>; magnitude = sum of |terms|."""
    if node['leaf']:
        X, Y = _c(x), _c(y)
        terms = node['w'] * X * np.conj(Y)
        return terms.sum(), np.abs(terms).sum()
    val, mag = LD(0), LD(0)
    for c, w, xi, yi in zip(node['parts'], node['w'], x, y):
        v, m = inner(c, xi, yi)
        val = val + w * v
        mag = mag + w * m
    return val, mag


def norm(node, x):
    p = node['p']
    if node['leaf']:
        A = np.abs(_c(x)).astype(LD)
        if A.size == 0:
            return LD(0)
        if p == INF:
            return (node['w'] * A).max()
        return ((node['w'] * A ** LD(p)).sum()) ** (1 / LD(p))
    ns = np.array([norm(c, xi) for c, xi in zip(node['parts'], x)],
                  dtype=LD)
    if ns.size == 0:
        return LD(0)
    if p == INF:
        return (node['w'] * ns).max()
    return ((node['w'] * ns ** LD(p)).sum()) ** (1 / LD(p))


def diff(x, y):
    if isinstance(x, list):
        return [diff(a, b) for a, b in zip(x, y)]
    return _c(x) - _c(y)


def dist(node, x, y):
    """Documented distance: the norm formula applied to the component
    distances, which for every weighting here is the norm of x - y."""
    return norm(node, diff(x, y))


def lincomb(s, x, t, z):
    if isinstance(x, list):
        return [lincomb(s, a, t, b) for a, b in zip(x, z)]
    return CLD(s) * _c(x) + CLD(t) * _c(z) if (
        np.iscomplexobj(x) or isinstance(s, complex) or
        isinstance(t, complex)) else LD(s) * _c(x) + LD(t) * _c(z)


def is_zero(x):
    if isinstance(x, list):
        return all(is_zero(a) for a in x)
    return not np.any(x)


def absmax(x):
    if isinstance(x, list):
        return max([absmax(a) for a in x] or [0.0])
    a = np.abs(np.asarray(x))
    return float(a.max()) if a.size else 0.0


def underflow_floor(node):
    """Absolute accuracy floor of a norm / distance: a term w |d|^p below
    the smallest normal number of the data type may be lost entirely, so
    the sum is only known up to sum(w) * tiny and the p-th root up to
    (sum(w) * tiny)^(1/p); product spaces reduce the floors of their
    components like norms (triangle inequality).  Zero for p = inf."""
    p = node['p']
    if node['leaf']:
        if p == INF or node['size'] == 0:
            return LD(0)
        return (node['w'].sum() * LD(node['tiny'])) ** (1 / LD(p))
    fs = np.array([underflow_floor(c) for c in node['parts']], dtype=LD)
    if fs.size == 0:
        return LD(0)
    if p == INF:
        return (node['w'] * fs).max()
    return ((node['w'] * fs ** LD(p)).sum()) ** (1 / LD(p))


def boundary_scaling_error(node, x, y):
    """Perturbation vector of dist(x, y) on uniformly discretized spaces:
    the library multiplies the boundary entries of x and of y by
    frac^(1/p) *before* subtracting, one rounding per scaled axis, i.e. an
    absolute error k * eps * (|x_i| + |y_i|) in entry i (k = number of
    scalings) in the unscaled domain.  By the triangle inequality the
    distance moves by at most the norm of this vector."""
    if node['leaf']:
        A = np.abs(_c(x)).astype(LD) + np.abs(_c(y)).astype(LD)
        if node['nsc'] is None:
            return np.zeros(A.shape, dtype=LD)
        return node['nsc'] * LD(node['eps']) * A
    return [boundary_scaling_error(c, xi, yi)
            for c, xi, yi in zip(node['parts'], x, y)]


def differ(x, y):
    if isinstance(x, list):
        return any(differ(a, b) for a, b in zip(x, y))
    return bool(np.any(np.asarray(x) != np.asarray(y)))
