"""Reference models for the discrete / continuous Fourier transforms.

NumPy only, never imports odl.  Written from the documentation of
``odl.trafos`` (class docstrings of ``DiscreteFourierTransform`` and
``FourierTransform``, ``reciprocal_grid``, ``dft_preprocess_data``,
``dft_postprocess_data``) and the textbook definitions:

* plain DFT       ``f_hat[k] = sum_j f[j] exp(-+ 2 pi i j k / N)`` per
  transformed axis, no scaling; the half-complex variant keeps the first
  ``N // 2 + 1`` entries in the **last** entry of ``axes``;
* inverse DFT     ``f[k] = 1/prod(N) sum_j f_hat[j] exp(+- 2 pi i j k / N)``;
* reciprocal grid ``xi[j] = xi[0] + j sigma``, ``sigma = 2 pi / (s N)``,
  ``xi[0] = -pi/s`` (shifted) or ``-pi/s + sigma/2`` (not shifted);
* continuous FT approximation: ``f`` is replaced by its nearest-neighbour
  (piecewise constant) interpolant on the sampling grid ``x[k] = x[0] + k s``
  and transformed exactly::

      F[j] = (2 pi)^(-1/2) s sinc(s xi[j] / 2) sum_k f[k] exp(-+ i x[k] xi[j])

  per transformed axis (``sinc(t) = sin(t)/t``);
* analytic transform of a Gaussian.

Dense matrices are evaluated in long double so that the reference is at
least as accurate as any float64 FFT.
"""
import numpy as np

LD = np.longdouble
CLD = np.clongdouble
PI = LD(np.arctan(LD(1)) * 4)      # pi in long double


def norm_axes(axes, ndim):
    """Tuple of non-negative axes (``None`` -> all)."""
    if axes is None:
        return tuple(range(ndim))
    if isinstance(axes, (int, np.integer)):
        axes = (axes,)
    out = tuple(int(a) + ndim if int(a) < 0 else int(a) for a in axes)
    return out


def _cexp(arg):
    """exp(1j * arg) for a real long-double array."""
    arg = np.asarray(arg, dtype=LD)
    out = np.empty(arg.shape, dtype=CLD)
    out.real = np.cos(arg)
    out.imag = np.sin(arg)
    return out


def dft_matrix(n, sign='-', nout=None):
    """``W[k, j] = exp(-+ 2 pi i j k / n)`` for ``k < nout`` (long double)."""
    nout = n if nout is None else nout
    # reduce the integer product mod n exactly before scaling
    jk = np.mod(np.arange(nout)[:, None] * np.arange(n)[None, :], n)
    sgn = -1 if sign == '-' else 1
    return _cexp(sgn * 2 * PI * jk.astype(LD) / LD(n))


def apply_along(mat, arr, axis):
    """Apply ``mat`` (m x n) along ``axis`` of ``arr`` (length n there)."""
    arr = np.asarray(arr)
    res = np.tensordot(mat, arr, axes=([1], [axis]))   # new axis first
    return np.moveaxis(res, 0, axis)


def dense_dft(x, axes=None, sign='-', halfcomplex=False):
    """Plain forward DFT by dense matrices (no FFT involved)."""
    x = np.asarray(x)
    axes = norm_axes(axes, x.ndim)
    out = x.astype(CLD)
    for i, ax in enumerate(axes):
        n = x.shape[ax]
        nout = n // 2 + 1 if (halfcomplex and i == len(axes) - 1) else n
        out = apply_along(dft_matrix(n, sign, nout), out, ax)
    return out


def dense_idft(y, axes=None, sign='+', halfcomplex=False, shape=None):
    """Plain inverse DFT ``1/prod(N) sum_j y[j] exp(sign 2 pi i j k / N)``.

    For ``halfcomplex`` the missing half of the last transformed axis is
    filled in by Hermitian symmetry (the result is then real up to rounding
    if ``y`` is the spectrum of a real signal; the real part is returned).
    ``shape`` is the shape of the result (needed for the half-complex case).
    """
    y = np.asarray(y).astype(CLD)
    axes = norm_axes(axes, y.ndim)
    if halfcomplex:
        if shape is None:
            raise ValueError('shape needed')
        # invert the full axes first, the halved axis last
        out = y
        for ax in axes[:-1]:
            n = y.shape[ax]
            out = apply_along(dft_matrix(n, sign, n) / LD(n), out, ax)
        ax = axes[-1]
        n = int(shape[ax])
        m = n // 2 + 1
        # f[k] = 1/n (sum_{j<m} y[j] w^{jk} + sum_{j>=m} conj(y[n-j]) w^{jk})
        W = dft_matrix(n, sign, n)                      # [k, j]
        head = apply_along(W[:, :m], out, ax)
        rest_idx = [n - j for j in range(m, n)]
        if rest_idx:
            tail_in = np.conj(np.take(out, rest_idx, axis=ax))
            tail = apply_along(W[:, m:], tail_in, ax)
            head = head + tail
        return (head / LD(n)).real
    out = y
    for ax in axes:
        n = y.shape[ax]
        out = apply_along(dft_matrix(n, sign, n) / LD(n), out, ax)
    return out


def numpy_dft(x, axes=None, sign='-', halfcomplex=False):
    """The same transform through ``numpy.fft`` on the same axes."""
    x = np.asarray(x)
    axes = norm_axes(axes, x.ndim)
    if halfcomplex:
        if sign != '-':
            raise ValueError('half-complex needs sign -')
        return np.fft.rfftn(x, axes=axes)
    if sign == '-':
        return np.fft.fftn(x, axes=axes)
    n = int(np.prod([x.shape[a] for a in axes]))
    return np.fft.ifftn(x, axes=axes) * n


def numpy_idft(y, axes=None, sign='+', halfcomplex=False, shape=None):
    y = np.asarray(y)
    axes = norm_axes(axes, y.ndim)
    if halfcomplex:
        if sign != '+':
            raise ValueError('half-complex inverse needs sign +')
        s = [int(shape[a]) for a in axes]
        return np.fft.irfftn(y, s=s, axes=axes)
    if sign == '+':
        return np.fft.ifftn(y, axes=axes)
    n = int(np.prod([y.shape[a] for a in axes]))
    return np.fft.fftn(y, axes=axes) / n


# --------------------------------------------------------------------------
# reciprocal grids

def recip_coords(n, stride, shift, half=False):
    """Coordinates ``xi[j]`` of the reciprocal grid along one axis."""
    n = int(n)
    s = LD(stride)
    sigma = 2 * PI / (s * n)
    xi0 = -PI / s if shift else -PI / s + sigma / 2
    m = n // 2 + 1 if half else n
    return xi0 + np.arange(m, dtype=LD) * sigma


def real_coords(n, xmin, stride):
    return LD(xmin) + np.arange(int(n), dtype=LD) * LD(stride)


# --------------------------------------------------------------------------
# continuous FT approximation

def _sinc(t):
    t = np.asarray(t, dtype=LD)
    out = np.ones_like(t)
    nz = np.abs(t) > 1e-30
    out[nz] = np.sin(t[nz]) / t[nz]
    return out


def ft_axis_matrix(n, xmin, stride, shift, sign='-', half=False):
    """``M[j, k]`` with ``F = M f`` along one axis, and the coordinates."""
    xi = recip_coords(n, stride, shift, half)
    x = real_coords(n, xmin, stride)
    sgn = -1 if sign == '-' else 1
    ker = LD(stride) * _sinc(LD(stride) * xi / 2) / np.sqrt(2 * PI)
    M = _cexp(sgn * xi[:, None] * x[None, :]) * ker[:, None]
    return M, xi


def ft_axis_inverse_matrix(n, xmin, stride, shift, sign='-'):
    """Inverse of the (square, non-halved) axis matrix of the forward
    transform with exponent sign ``sign``:
    ``f[k] = 1/n sum_j exp(+- i x[k] xi[j]) F[j] / ker[j]``."""
    xi = recip_coords(n, stride, shift, False)
    x = real_coords(n, xmin, stride)
    sgn = 1 if sign == '-' else -1
    ker = LD(stride) * _sinc(LD(stride) * xi / 2) / np.sqrt(2 * PI)
    return _cexp(sgn * x[:, None] * xi[None, :]) / ker[None, :] / LD(n)


def dense_ft(f, min_pt, stride, axes=None, shifts=True, sign='-',
             halfcomplex=False):
    """Reference for ``FourierTransform(...)(f)``.

    ``min_pt`` / ``stride``: first grid point and spacing per axis (full
    length), ``shifts``: bool or one bool per entry of ``axes``.
    Returns ``(F, coords)`` with ``coords[axis]`` the reciprocal coordinates
    of the transformed axes (``None`` for untouched axes).
    """
    f = np.asarray(f)
    axes = norm_axes(axes, f.ndim)
    if isinstance(shifts, (bool, np.bool_)):
        shifts = [bool(shifts)] * len(axes)
    out = f.astype(CLD)
    coords = [None] * f.ndim
    for i, (ax, sh) in enumerate(zip(axes, shifts)):
        half = halfcomplex and i == len(axes) - 1
        M, xi = ft_axis_matrix(f.shape[ax], min_pt[ax], stride[ax], sh, sign,
                               half)
        out = apply_along(M, out, ax)
        coords[ax] = xi
    return out, coords


def dense_ift(F, min_pt, stride, axes=None, shifts=True, sign='-'):
    """Inverse of the non-halved `dense_ft` with forward sign ``sign``."""
    F = np.asarray(F)
    axes = norm_axes(axes, F.ndim)
    if isinstance(shifts, (bool, np.bool_)):
        shifts = [bool(shifts)] * len(axes)
    out = F.astype(CLD)
    for ax, sh in zip(axes, shifts):
        Mi = ft_axis_inverse_matrix(F.shape[ax], min_pt[ax], stride[ax], sh,
                                    sign)
        out = apply_along(Mi, out, ax)
    return out


# --------------------------------------------------------------------------
# analytic Gaussian

def gaussian(coords, center, width):
    """``exp(-|x - c|^2 / (2 a^2))`` on the tensor grid ``coords``."""
    out = np.ones([len(c) for c in coords], dtype=float)
    for i, (c, c0) in enumerate(zip(coords, center)):
        g = np.exp(-(np.asarray(c, dtype=float) - c0) ** 2 /
                   (2.0 * width ** 2))
        shape = [1] * len(coords)
        shape[i] = len(g)
        out = out * g.reshape(shape)
    return out


def gaussian_ft(coords, center, width, sign='-'):
    """Continuous transform ``(2 pi)^(-d/2) int f(x) exp(-+ i x xi) dx`` of
    `gaussian` on the tensor grid ``coords``:
    ``a^d exp(-a^2 |xi|^2 / 2) exp(-+ i c xi)``."""
    sgn = -1.0 if sign == '-' else 1.0
    out = np.ones([len(c) for c in coords], dtype=complex)
    for i, (c, c0) in enumerate(zip(coords, center)):
        xi = np.asarray(c, dtype=float)
        g = width * np.exp(-(width * xi) ** 2 / 2.0) * \
            np.exp(sgn * 1j * c0 * xi)
        shape = [1] * len(coords)
        shape[i] = len(g)
        out = out * g.reshape(shape)
    return out


def gaussian_kernel_bound(strides, width):
    """Upper bound of the piecewise-constant-interpolation error of the
    Gaussian transform: ``|prod sinc(s_i xi_i/2) - 1| <= sum (s_i xi_i)^2/24``
    and ``t e^{-t/2} <= 2/e``, so the error is at most
    ``a^d max(s)^2 / (12 e a^2)``."""
    d = len(strides)
    return width ** d * max(strides) ** 2 / (12.0 * np.e * width ** 2)
