"""Reference model of rectangular partitions (NumPy only, never imports odl).

A partition is modelled as a list of *axes*; an axis is a triple
``(coords, lo, hi)``: the strictly increasing coordinate vector of the grid
points (float64) and the two limits of the partitioned interval.  Everything
else follows from the documentation of ``odl.discr.partition``:

* cell boundaries by the **midpoint rule**
  ``I[i] = [(x[i-1]+x[i])/2, (x[i]+x[i+1])/2]``, first/last boundary = limits;
* ``index(p)``: the cell containing ``p``, the right cell on an interior
  boundary, the last cell at the upper limit; ``floating=True`` adds the
  fraction of the cell left of ``p``;
* sub-partitions: the selected grid points, limits = the cell boundaries at
  the ``start``/``stop`` of the (un-stepped) slice;
* ``insert / append / squeeze / byaxis`` act on the list of axes;
* uniform partitions: ``extent = (n - #boundary_nodes/2) * cell_side``, the
  outermost node sits on the limit (boundary node) or half a cell inside.

Invalid requests (out-of-range ints, empty selections, negative steps, new
axes, too many indices, unsorted index lists) raise ``Invalid``.
"""
import numpy as np

LD = np.longdouble
EPS = float(np.finfo(float).eps)


class Invalid(Exception):
    """The documentation does not admit this request (must be rejected)."""


class Unspecified(Exception):
    """Request outside the documentation whose outcome is harmless either
    way (neither a rejection nor a particular result is demanded)."""


class Axis(object):
    __slots__ = ('c', 'lo', 'hi')

    def __init__(self, c, lo, hi):
        self.c = np.array(c, dtype=np.float64).reshape(-1)
        self.lo = float(lo)
        self.hi = float(hi)

    @property
    def n(self):
        return len(self.c)

    def copy(self):
        return Axis(self.c.copy(), self.lo, self.hi)

    def __repr__(self):
        return 'Axis({}, {!r}, {!r})'.format(self.c.tolist(), self.lo, self.hi)


# --------------------------------------------------------------------------
# derived quantities of one axis

def boundaries(ax):
    """Cell boundaries by the midpoint rule (float64, documented formula)."""
    b = np.empty(ax.n + 1)
    b[0] = ax.lo
    b[-1] = ax.hi
    for i in range(1, ax.n):
        b[i] = (ax.c[i - 1] + ax.c[i]) / 2.0
    return b


def cell_sizes(ax):
    """Cell sizes; the documented 0.0 for one-point axes."""
    if ax.n == 1:
        return np.array([0.0])
    b = boundaries(ax).astype(LD)
    return np.diff(b)


def fractions(ax):
    """Fractions of the natural outermost cells contained in the interval."""
    if ax.n == 1:
        return (1.0, 1.0)
    c = ax.c.astype(LD)
    left = LD(0.5) + (c[0] - LD(ax.lo)) / (c[1] - c[0])
    right = LD(0.5) + (LD(ax.hi) - c[-1]) / (c[-1] - c[-2])
    return (left, right)


def fraction_tol(ax):
    """Rounding tolerance of the two boundary fractions."""
    if ax.n == 1:
        return (0.0, 0.0)
    scale = max(abs(ax.lo), abs(ax.hi), float(np.max(np.abs(ax.c))))
    left = 8 * EPS * (scale / abs(ax.c[1] - ax.c[0]) + 1.0)
    right = 8 * EPS * (scale / abs(ax.c[-1] - ax.c[-2]) + 1.0)
    return (left, right)


def scale(ax):
    return max(abs(ax.lo), abs(ax.hi), float(np.max(np.abs(ax.c))), 1e-300)


def on_boundary(ax):
    """(left, right) in {True, False, None}; None = too close to call.

    The library decides with ``isclose``; the model only commits when the
    node is exactly on the limit or at least 1e-3 of the scale away.
    """
    out = []
    for node, lim in ((ax.c[0], ax.lo), (ax.c[-1], ax.hi)):
        if node == lim:
            out.append(True)
        elif abs(node - lim) > 1e-3 * max(1.0, abs(node), abs(lim)):
            out.append(False)
        else:
            out.append(None)
    return tuple(out)


def compress_nodes_on_bdry(byaxis):
    """The documented compact form of a per-axis ((l, r), ...) tuple."""
    if len(byaxis) == 0:
        return True
    per = []
    for left, right in byaxis:
        per.append(left if left == right else (left, right))
    if all(p == per[0] for p in per[1:]):
        return per[0]
    return tuple(per)


def uniformity(ax):
    """True / False / None (undecided) for 'equally spaced'."""
    if ax.n <= 2:
        return True
    d = np.diff(ax.c.astype(LD))
    dev = float(np.max(np.abs(d - d[0])) / abs(d[0]))
    if dev <= 1e-9:
        return True
    if dev >= 1e-3:
        return False
    return None


def locate(ax, v, b=None):
    """Brute-force cell index of ``v``: the last cell whose left boundary is
    <= v (so interior boundaries belong to the right cell), capped at n-1."""
    if b is None:
        b = boundaries(ax)
    if not (b[0] <= v <= b[-1]):
        raise Invalid('point outside the interval')
    idx = 0
    for i in range(ax.n):
        if b[i] <= v:
            idx = i
    return idx


def floating_index(ax, v, b=None):
    """Reference for ``index(v, floating=True)`` and its tolerance."""
    if b is None:
        b = boundaries(ax)
    i = locate(ax, v, b)
    # on a boundary the result is the boundary number itself
    for k in range(ax.n + 1):
        if b[k] == v:
            return float(k), 0.0
    size = LD(b[i + 1]) - LD(b[i])
    ref = LD(i) + (LD(v) - LD(b[i])) / size
    tol = 8 * EPS * (max(abs(v), abs(b[i]), abs(b[i + 1])) / float(size) +
                     ax.n + 1)
    return float(ref), float(tol)


def from_floating(ax, f, b=None):
    """Position described by a floating index (linear in each cell)."""
    b = (boundaries(ax) if b is None else b).astype(LD)
    k = int(np.floor(f))
    if k >= ax.n:
        k = ax.n - 1
    if k < 0:
        k = 0
    return float(b[k] + (LD(f) - k) * (b[k + 1] - b[k]))


def probe_values(ax):
    """Values of the interval worth asking ``index`` about, most telling
    first: every boundary (incl. the limits), 1 ulp either side of each,
    grid points, cell midpoints, 1 ulp either side of those."""
    b = boundaries(ax)
    mids = (b[1:] + b[:-1]) / 2.0

    def ulps(xs):
        out = []
        for x in xs:
            out.append(float(np.nextafter(x, -np.inf)))
            out.append(float(np.nextafter(x, np.inf)))
        return out

    vals = [float(x) for x in b] + ulps(b) + [float(x) for x in ax.c] + \
        [float(x) for x in mids] + ulps(ax.c) + ulps(mids)
    seen = set()
    out = []
    for v in vals:
        if not ax.lo <= v <= ax.hi:
            continue
        key = np.float64(v).tobytes()
        if key not in seen:
            seen.add(key)
            out.append(v)
    return out


def outside_values(ax):
    return [float(np.nextafter(ax.lo, -np.inf)),
            float(np.nextafter(ax.hi, np.inf))]


# --------------------------------------------------------------------------
# constructions

def uniform_complete(xmin, xmax, n, dx, nob):
    """Complete the missing one of (min, max, n, dx); long double values.

    ``extent = (n - (#boundary nodes)/2) * dx`` (documented in the notes and
    examples of ``uniform_partition``).
    """
    half = LD(int(bool(nob[0])) + int(bool(nob[1]))) / 2
    if xmin is None:
        xmin = LD(xmax) - (LD(n) - half) * LD(dx)
    elif xmax is None:
        xmax = LD(xmin) + (LD(n) - half) * LD(dx)
    elif n is None:
        n = int(np.rint((LD(xmax) - LD(xmin)) / LD(dx) + half))
    if dx is None:
        cells = LD(n) - half
        dx = (LD(xmax) - LD(xmin)) / cells if cells != 0 else LD(0)
    return LD(xmin), LD(xmax), int(n), LD(dx)


def uniform_coords(xmin, xmax, n, nob):
    """Grid points of a uniform partition of [xmin, xmax] (long double)."""
    xmin, xmax = LD(xmin), LD(xmax)
    half = LD(int(bool(nob[0])) + int(bool(nob[1]))) / 2
    cells = LD(n) - half
    if cells == 0:
        # one node sitting on both limits
        return np.array([xmin], dtype=LD), LD(0)
    side = (xmax - xmin) / cells
    first = xmin if nob[0] else xmin + side / 2
    return first + side * np.arange(n, dtype=LD), side


def nonuniform_limits(c, nob, lo=None, hi=None):
    """Limits of ``nonuniform_partition`` (long double)."""
    c = np.asarray(c, dtype=LD)
    if lo is None:
        if nob[0] or len(c) == 1:
            lo = c[0]
        else:
            lo = c[0] - (c[1] - c[0]) / 2
    if hi is None:
        if nob[1] or len(c) == 1:
            hi = c[-1]
        else:
            hi = c[-1] + (c[-1] - c[-2]) / 2
    return LD(lo), LD(hi)


# --------------------------------------------------------------------------
# index expressions

def _norm_int(i, n):
    if isinstance(i, bool) or not isinstance(i, (int, np.integer)):
        raise Invalid('not an integer index')
    i = int(i)
    if i < -n or i >= n:
        raise Invalid('index out of range')
    return i + n if i < 0 else i


def _expand(idx, ndim):
    """Tuple of ints / slices, one per axis."""
    if isinstance(idx, tuple):
        items = list(idx)
    else:
        items = [idx]
    if any(it is None for it in items):
        raise Invalid('new axes are not supported')
    n_ell = sum(1 for it in items if it is Ellipsis)
    if n_ell > 1:
        raise Invalid('more than one ellipsis')
    if n_ell == 0 and len(items) < ndim:
        items.append(Ellipsis)
        n_ell = 1
    if n_ell == 1:
        pos = [k for k, it in enumerate(items) if it is Ellipsis][0]
        fill = ndim - (len(items) - 1)
        if fill < 0:
            raise Invalid('too many indices')
        items = items[:pos] + [slice(None)] * fill + items[pos + 1:]
    if len(items) != ndim:
        raise Invalid('too many indices')
    return items


def select_axis(ax, item):
    """Sub-axis for an int or a slice (documented limits rule)."""
    b = boundaries(ax)
    n = ax.n
    if isinstance(item, slice):
        if item.step is not None and (isinstance(item.step, bool) or
                                      not isinstance(item.step, int)):
            raise Invalid('bad step')
        if item.step is not None and item.step < 0 and \
                len(list(range(n))[item]) == 1:
            # a negative step that selects one cell: nothing is reversed
            raise Unspecified('negative step selecting a single cell')
        if item.step is not None and item.step <= 0:
            raise Invalid('negative or zero steps are not supported')
        cells = list(range(n))[item]
        if not cells:
            raise Invalid('empty selection')
        span = list(range(n))[slice(item.start, item.stop)]
        return Axis(ax.c[cells], b[span[0]], b[span[-1] + 1])
    i = _norm_int(item, n)
    return Axis(ax.c[i:i + 1], b[i], b[i + 1])


def getitem(model, idx):
    """``partition[idx]`` on the model."""
    if isinstance(idx, list):
        # documented special case: index list along the first axis
        if not model:
            raise Invalid('no axis to index')
        if not idx:
            raise Invalid('empty selection')
        ax = model[0]
        cells = [_norm_int(i, ax.n) for i in idx]
        if any(q <= p for p, q in zip(cells, cells[1:])):
            raise Invalid('index list must be strictly increasing')
        b = boundaries(ax)
        first = Axis(ax.c[cells], b[cells[0]], b[cells[-1] + 1])
        return [first] + [a.copy() for a in model[1:]]
    items = _expand(idx, len(model))
    return [select_axis(ax, it) for ax, it in zip(model, items)]


def contiguous(item, n):
    """Whether an int / slice selects a contiguous block of cells."""
    if isinstance(item, slice):
        return item.step in (None, 1)
    return True


# --------------------------------------------------------------------------
# axis-list operations

def insert(model, index, parts):
    ndim = len(model)
    if isinstance(index, bool) or not isinstance(index, (int, np.integer)):
        raise Invalid('index must be an integer')
    if not -ndim <= index <= ndim:
        raise Invalid('insert position out of range')
    if index < 0:
        index += ndim
    new = [a.copy() for a in model[:index]]
    for p in parts:
        new.extend(a.copy() for a in p)
    new.extend(a.copy() for a in model[index:])
    return new


def append(model, parts):
    return insert(model, len(model), parts)


def _axes_subset(ndim, axis):
    """Axes named by an 'index expression into range(ndim)'."""
    rng = list(range(ndim))
    if axis is None:
        return rng
    if isinstance(axis, slice):
        return rng[axis]
    if isinstance(axis, (list, tuple)):
        out = []
        for a in axis:
            if not -ndim <= a < ndim:
                raise Invalid('axis out of range')
            out.append(rng[a])
        return out
    if not -ndim <= axis < ndim:
        raise Invalid('axis out of range')
    return [rng[axis]]


def squeeze(model, axis=None):
    sub = _axes_subset(len(model), axis)
    return [a.copy() for i, a in enumerate(model)
            if not (i in sub and a.n == 1)]


def byaxis(model, idx):
    ndim = len(model)
    if isinstance(idx, slice):
        return [model[i].copy() for i in list(range(ndim))[idx]]
    if isinstance(idx, (list, tuple)):
        out = []
        for i in idx:
            if not -ndim <= i < ndim:
                raise Invalid('axis out of range')
            out.append(model[i].copy())
        return out
    if not -ndim <= idx < ndim:
        raise Invalid('axis out of range')
    return [model[idx].copy()]


def points(model):
    """All grid points, C order (first axis slowest), shape (size, ndim)."""
    if not model:
        return np.empty((0, 0))
    mesh = np.meshgrid(*[a.c for a in model], indexing='ij')
    return np.stack([m.ravel() for m in mesh], axis=1)
