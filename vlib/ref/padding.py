"""Reference for array resizing / padding (NumPy only, never imports odl).

Written from the documentation of ``resize_array``: *crop along the axes that
shrink (dropping ``offset`` entries on the left), then pad along the axes that
grow (``offset`` new entries on the left, the rest on the right) with the
named rule, axis by axis, corners included*:

    ``constant``   np.pad(mode='constant', constant_values=pad_const)
    ``symmetric``  np.pad(mode='reflect')   (edge value not repeated)
    ``periodic``   np.pad(mode='wrap')
    ``order0``     np.pad(mode='edge')
    ``order1``     linear extrapolation with the slope of the outermost two
                   values (own code, NumPy has no equivalent mode)

The adjoint direction is, by definition, the transpose of the forward matrix.
Documented preconditions are in `violated_precondition`.
"""
import functools

import numpy as np

MODES = ('constant', 'symmetric', 'periodic', 'order0', 'order1')
NP_MODE = {'symmetric': 'reflect', 'periodic': 'wrap', 'order0': 'edge'}


def pad_widths(oldshape, newshape, offset):
    """Per axis ``(kind, left, right)``: kind in grow/shrink/same; for grow
    the number of entries added, for shrink the number removed."""
    out = []
    for n_old, n_new, off in zip(oldshape, newshape, offset):
        if n_new > n_old:
            out.append(('grow', off, n_new - n_old - off))
        elif n_new < n_old:
            out.append(('shrink', off, n_old - n_new - off))
        else:
            out.append(('same', 0, 0))
    return out


def legal_offsets(n_old, n_new):
    """All offsets the documentation admits for one axis."""
    return list(range(abs(n_new - n_old) + 1)) if n_new != n_old else [0]


def can_hold(value, dtype):
    """Can ``value`` be stored safely in ``dtype`` ("safe cast" of a Python
    scalar by value)?"""
    dt = np.dtype(dtype)
    if isinstance(value, (bool, np.bool_)):
        return True
    if isinstance(value, (complex, np.complexfloating)):
        if dt.kind != 'c':
            return False
        fin = np.finfo(dt)
        return abs(value.real) <= fin.max and abs(value.imag) <= fin.max
    if isinstance(value, (float, np.floating)):
        if dt.kind in 'iu':
            return False
        return abs(value) <= np.finfo(dt).max
    if isinstance(value, (int, np.integer)):
        if dt.kind in 'iu':
            info = np.iinfo(dt)
            return info.min <= int(value) <= info.max
        return True
    raise TypeError(type(value))


def violated_precondition(oldshape, newshape, offset, mode, pad_const=0,
                          dtype=float, direction='forward'):
    """Name of the documented precondition that is violated, or ``None``.

    ``oldshape`` is always the shape on the *small side of the forward
    operator* (input of forward, output of adjoint).
    """
    widths = pad_widths(oldshape, newshape, offset)
    # axes in which the *output* of this call is larger than its input get
    # filled with the constant: the constant must then fit the dtype
    filled = any(k == ('grow' if direction == 'forward' else 'shrink')
                 for k, _, _ in widths)
    if mode == 'constant':
        if filled and not can_hold(pad_const, dtype):
            return 'pad_const-not-castable'
        if direction == 'adjoint' and pad_const != 0:
            return 'adjoint-needs-zero-pad_const'
        return None
    for (kind, left, right), n in zip(widths, oldshape):
        if kind != 'grow':
            continue
        if mode == 'symmetric' and not (left < n and right < n):
            return 'symmetric-pad-too-long'
        if mode == 'periodic' and not (left <= n and right <= n):
            return 'periodic-pad-too-long'
        if mode == 'order0' and n < 1:
            return 'order0-needs-1'
        if mode == 'order1' and n < 2:
            return 'order1-needs-2'
    return None


def _extrapolate(arr, axis, left, right):
    """Order-1 padding along one axis (same dtype arithmetic as the data)."""
    a = np.moveaxis(arr, axis, 0)
    first, second = a[0], a[1]
    last, before = a[-1], a[-2]
    parts = []
    if left:
        k = np.arange(-left, 0).astype(a.dtype)
        k = k.reshape((-1,) + (1,) * (a.ndim - 1))
        parts.append(first[None] + k * (second - first)[None])
    parts.append(a)
    if right:
        k = np.arange(1, right + 1).astype(a.dtype)
        k = k.reshape((-1,) + (1,) * (a.ndim - 1))
        parts.append(last[None] + k * (last - before)[None])
    return np.moveaxis(np.concatenate(parts, axis=0), 0, axis)


def resize(arr, newshape, offset, mode, pad_const=0):
    """Forward resizing; the caller has checked the preconditions."""
    arr = np.asarray(arr)
    widths = pad_widths(arr.shape, newshape, offset)
    # 1. crop
    crop = tuple(slice(l, l + n_new) if kind == 'shrink' else slice(None)
                 for (kind, l, _), n_new in zip(widths, newshape))
    res = arr[crop]
    # 2. pad, axis by axis (later axes see the corners of earlier ones)
    for axis, (kind, left, right) in enumerate(widths):
        if kind != 'grow':
            continue
        pw = [(0, 0)] * res.ndim
        pw[axis] = (left, right)
        if mode == 'constant':
            res = np.pad(res, pw, mode='constant',
                         constant_values=np.asarray(pad_const).astype(
                             res.dtype))
        elif mode == 'order1':
            res = _extrapolate(res, axis, left, right)
        else:
            if res.size == 0:
                # nothing to copy from along the other (empty) axes
                shp = list(res.shape)
                shp[axis] += left + right
                res = np.zeros(shp, dtype=res.dtype)
            else:
                res = np.pad(res, pw, mode=NP_MODE[mode])
    assert res.shape == tuple(newshape)
    return res


def block_slices(oldshape, newshape, offset):
    """Slices of the overlapping block in the old and in the new array."""
    old, new = [], []
    for (kind, left, _), n_old, n_new in zip(
            pad_widths(oldshape, newshape, offset), oldshape, newshape):
        if kind == 'grow':
            old.append(slice(None))
            new.append(slice(left, left + n_old))
        elif kind == 'shrink':
            old.append(slice(left, left + n_new))
            new.append(slice(None))
        else:
            old.append(slice(None))
            new.append(slice(None))
    return tuple(old), tuple(new)


@functools.lru_cache(maxsize=None)
def matrix_1d(n_old, n_new, offset, mode):
    """Matrix (n_new x n_old) of the 1-D forward map for ``pad_const = 0``."""
    M = np.zeros((n_new, n_old))
    for k in range(n_old):
        e = np.zeros(n_old)
        e[k] = 1.0
        M[:, k] = resize(e, (n_new,), (offset,), mode, 0)
    M.setflags(write=False)
    return M


def matrix(oldshape, newshape, offset, mode):
    """Forward matrix on C-flattened arrays: the Kronecker product of the
    per-axis matrices (axis-by-axis application of linear maps), and the
    offset vector for ``pad_const = 1`` (indicator of the padded region for
    ``constant``, zero otherwise)."""
    M = np.ones((1, 1))
    for n_old, n_new, off in zip(oldshape, newshape, offset):
        M = np.kron(M, matrix_1d(int(n_old), int(n_new), int(off), mode))
    if mode == 'constant':
        b = resize(np.zeros(oldshape), newshape, offset, mode, 1.0).ravel()
    else:
        b = np.zeros(int(np.prod(newshape, dtype=int)))
    return M, b
