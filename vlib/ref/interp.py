"""Reference models for sampling and interpolation (NumPy only, no odl).

Sampling: a small *exactly rounded* expression family (``+ - * /``, ``abs``,
``neg``, ``sqrt``, ``min``, ``max``, ``where``, squares and cubes written as
products) evaluated point by point with Python floats, so the value at a grid
point does not depend on any vectorisation.

Interpolation, written from the docstrings of ``nearest_interpolator`` /
``linear_interpolator`` / ``per_axis_interpolator``:

* nearest: brute-force search of the node with minimal ``|x - x[j]|`` per
  axis, the right neighbour on an exact tie; outside the grid this is the
  edge node (constant continuation);
* linear: blend of the two surrounding nodes; outside the grid an extra node
  with value 0 sits one cell (the outermost spacing) beyond the edge node;
* per axis: the tensor product of the per-axis rules.
"""
import itertools
import math

import numpy as np

LD = np.longdouble
CLD = np.clongdouble
EPS = float(np.finfo(float).eps)


# --------------------------------------------------------------------------
# expression family (scalar evaluation)

BINARY = ('add', 'sub', 'mul', 'div', 'max', 'min')
UNARY = ('abs', 'neg', 'sqrt', 'sq', 'cube')


def eval_scalar(e, x, params=None):
    """Value of expression ``e`` at the point ``x`` (sequence of floats)."""
    op = e[0]
    if op == 'x':
        return float(x[e[1]])
    if op == 'c':
        return float(e[1])
    if op == 'p':
        return float(params[e[1]])
    if op in UNARY:
        a = eval_scalar(e[1], x, params)
        if op == 'abs':
            return abs(a)
        if op == 'neg':
            return -a
        if op == 'sqrt':
            return math.sqrt(a)
        if op == 'sq':
            return a * a
        return a * a * a
    if op in BINARY:
        a = eval_scalar(e[1], x, params)
        b = eval_scalar(e[2], x, params)
        if op == 'add':
            return a + b
        if op == 'sub':
            return a - b
        if op == 'mul':
            return a * b
        if op == 'div':
            return a / b
        if op == 'max':
            return a if a >= b else b
        return a if a <= b else b
    if op == 'where':
        a = eval_scalar(e[1], x, params)
        b = eval_scalar(e[2], x, params)
        return eval_scalar(e[3], x, params) if a < b else \
            eval_scalar(e[4], x, params)
    raise ValueError('unknown expression node {!r}'.format(op))


def coords_used(e):
    """Set of coordinate indices an expression depends on."""
    if e[0] == 'x':
        return {e[1]}
    out = set()
    for sub in e[1:]:
        if isinstance(sub, list):
            out |= coords_used(sub)
    return out


def params_used(e):
    if e[0] == 'p':
        return {e[1]}
    out = set()
    for sub in e[1:]:
        if isinstance(sub, list):
            out |= params_used(sub)
    return out


def sample(real, imag, coord_vecs, params, dtype):
    """Point-by-point samples on the tensor grid, cast like an assignment
    into an array of ``dtype`` (C order, first axis slowest)."""
    shape = tuple(len(c) for c in coord_vecs)
    cplx = np.dtype(dtype).kind == 'c'
    out = np.empty(shape, dtype=complex if cplx else float)
    for idx in itertools.product(*[range(n) for n in shape]):
        pt = [float(c[i]) for c, i in zip(coord_vecs, idx)]
        out[idx] = value_at(real, imag, pt, params, cplx)
    return out.astype(dtype)


def value_at(real, imag, pt, params, cplx):
    re = eval_scalar(real, pt, params)
    if not cplx:
        return re
    im = eval_scalar(imag, pt, params) if imag is not None else 0.0
    return complex(re, im)


# --------------------------------------------------------------------------
# interpolation

class OutOfRange(Exception):
    """Point farther than one cell outside the grid (undocumented)."""


def nearest_candidates(c, x, strict):
    """Acceptable node indices for nearest-neighbour interpolation.

    ``strict``: coordinates and point lie on a dyadic lattice, floating-point
    differences are exact and an exact tie goes to the right neighbour.
    Otherwise nodes whose distance is within a few ulp of the minimum are all
    acceptable.
    """
    c = np.asarray(c, dtype=LD)
    d = np.abs(LD(x) - c)
    m = d.min()
    if strict:
        best = [j for j in range(len(c)) if d[j] == m]
        return [best[-1]]
    slack = 8 * EPS * max(abs(float(x)), float(np.max(np.abs(c))))
    # relative slack of the normalised distance as well
    slack = max(slack, 8 * EPS * float(m))
    return [j for j in range(len(c)) if d[j] - m <= slack]


def linear_entries(c, x):
    """[(node, weight)] of linear interpolation and the rounding scale of
    the normalised distance."""
    n = len(c)
    if n < 2:
        raise OutOfRange('one-point axes are not interpolated')
    cl = np.asarray(c, dtype=LD)
    x = LD(x)
    if x < cl[0]:
        h = cl[1] - cl[0]
        if x < cl[0] - h - 8 * EPS * max(abs(x), abs(cl[0]), abs(cl[1])):
            raise OutOfRange('more than one cell below the grid')
        t = (x - (cl[0] - h)) / h
        ent = [(0, t)]
        ref_nodes = (cl[0], cl[1])
    elif x > cl[-1]:
        h = cl[-1] - cl[-2]
        if x > cl[-1] + h + 8 * EPS * max(abs(x), abs(cl[-1]), abs(cl[-2])):
            raise OutOfRange('more than one cell above the grid')
        t = (x - cl[-1]) / h
        ent = [(n - 1, 1 - t)]
        ref_nodes = (cl[-2], cl[-1])
    else:
        i = 0
        for k in range(n - 1):
            if cl[k] <= x:
                i = k
        h = cl[i + 1] - cl[i]
        t = (x - cl[i]) / h
        ent = [(i, 1 - t), (i + 1, t)]
        ref_nodes = (cl[i], cl[i + 1])
    dt = 4 * EPS * float((abs(x) + abs(ref_nodes[0]) + abs(ref_nodes[1])) /
                         h)
    return ent, dt


def interpolate(values, coord_vecs, schemes, point, strict):
    """Reference value(s) at one point.

    Returns ``(alternatives, magnitude, dt, fmax)``: the acceptable values
    (more than one only for near-ties of nearest axes off the dyadic
    lattice), ``sum |w||f|`` over the contributing nodes, the summed rounding
    scale of the normalised distances, and the largest contributing ``|f|``.
    For non-numeric values (nearest on every axis) the alternatives are the
    node values themselves.
    """
    values = np.asarray(values)
    numeric = values.dtype.kind in 'fciub'
    per_axis = []
    dt = 0.0
    for c, s, x in zip(coord_vecs, schemes, point):
        if s == 'nearest':
            per_axis.append([[(j, LD(1))]
                             for j in nearest_candidates(c, x, strict)])
        elif s == 'linear':
            ent, d = linear_entries(c, x)
            dt += d
            per_axis.append([ent])
        else:
            raise ValueError('unknown scheme {!r}'.format(s))
    alts = []
    mag = 0.0
    fmax = 0.0
    for choice in itertools.product(*per_axis):
        if not numeric:
            idx = tuple(ent[0][0] for ent in choice)
            alts.append(values[idx])
            continue
        cplx = values.dtype.kind == 'c'
        acc = CLD(0) if cplx else LD(0)
        m = LD(0)
        for corner in itertools.product(*choice):
            w = LD(1)
            for _, wk in corner:
                w = w * wk
            f = values[tuple(j for j, _ in corner)]
            f = CLD(f) if cplx else LD(f)
            acc = acc + w * f
            m = m + abs(w) * abs(f)
            fmax = max(fmax, float(abs(f)))
        alts.append(acc)
        mag = max(mag, float(m))
    return alts, mag, dt, fmax


def is_lattice(arrays, denom=1024):
    """All numbers are multiples of 1/denom and small: float64 arithmetic on
    differences and the quotients met in interpolation is exact."""
    for a in arrays:
        a = np.asarray(a, dtype=float).ravel()
        if a.size and (np.any(np.abs(a) > 4096) or
                       np.any(a * denom != np.round(a * denom))):
            return False
    return True
