"""Independent reference models of ODL's functionals, their convex conjugates,
(sub)gradients and conjugate domains.  NumPy only -- never imports odl.

Everything works on *flat real vectors* of a finite-dimensional Hilbert space
whose inner product is diagonal: ``<x, y> = sum_k w[k] x[k] y[k]`` (this
covers ``rn`` with constant / array weighting, ``uniform_discr`` with its
cell volume and boundary-cell fractions and products of those).  The
geometry (``Geo``) carries the weight vector and, for vector / matrix fields
on power spaces, the block structure.

All formulas are written from the class docstrings of
``odl/solvers/functional/default_functionals.py`` and from text-book convex
analysis (conjugates are taken with respect to the weighted inner product,
because that is the inner product of the space the functional lives on):

    f*(y) = sup_x <x, y>_w - f(x).

Every node offers

``value(x)``           f(x) (``inf`` outside the domain)
``conj(y)``            f*(y) or ``None`` when no closed form is modelled
``subgrad(x)``         one element of the sub-differential (w.r.t. <.,.>_w)
                       or ``None`` (outside dom f / not modelled)
``conj_subgrad(y)``    one element of the sub-differential of f* or ``None``
``center()``           a point of int dom f (``None``: unknown / empty)
``conj_center()``      a point of int dom f*  (``None``: unknown / empty)
``conj_residual(y)``   convex r with dom f* = {r <= 0} (``None``: dom f* is
                       the whole space or not modelled); thin domains
                       (single points) report ``thin_conj_dom = True``
``radius(x)``          sup-norm distance of x to the set where f is not C^2
                       (kinks, boundary of the domain); ``inf`` if smooth
``lipschitz()``        smallest Lipschitz constant of the gradient in the
                       weighted norm (``None``: not globally Lipschitz /
                       not modelled)
"""
import numpy as np

INF = float('inf')


# --------------------------------------------------------------------------
# geometry

class Geo(object):
    """Diagonal inner product plus optional field structure.

    ``w``       flat weights (length n)
    ``power``   ``None`` or ``(m, nb)``: the flat vector is ``m`` components
                of ``nb`` points each (component-major), with
                ``w[j*nb + i] = comp_w[j] * base_w[i]``
    ``matrix``  ``None`` or ``(m1, m2, nb)`` for matrix fields
                (``x.reshape(m1, m2, nb)``), unweighted components
    ``parts``   ``None`` or list of ``(offset, Geo)`` for general products
    """

    def __init__(self, w, power=None, comp_w=None, base_w=None, matrix=None,
                 parts=None):
        self.w = np.asarray(w, dtype=float).ravel()
        self.n = int(self.w.size)
        self.power = power
        self.matrix = matrix
        self.parts = parts
        if power is not None:
            m, nb = power
            self.comp_w = (np.ones(m) if comp_w is None
                           else np.asarray(comp_w, dtype=float))
            self.base_w = np.asarray(base_w, dtype=float).ravel()
            assert self.comp_w.shape == (m,) and self.base_w.shape == (nb,)
        if matrix is not None:
            self.base_w = np.asarray(base_w, dtype=float).ravel()

    def inner(self, x, y):
        return float(np.sum(self.w * np.asarray(x, float) *
                            np.asarray(y, float)))

    def norm(self, x):
        return float(np.sqrt(np.sum(self.w * np.asarray(x, float) ** 2)))


def _xlogy(x, y):
    """x*log(y) with 0*log(anything) = 0 (NumPy only)."""
    x = np.asarray(x, float)
    y = np.asarray(y, float)
    out = np.zeros(np.broadcast(x, y).shape)
    nz = np.broadcast_to(x != 0, out.shape)
    with np.errstate(all='ignore'):
        full = x * np.log(y)
    out[nz] = np.broadcast_to(full, out.shape)[nz]
    return out


def _conj_exp(p):
    if p == 1:
        return INF
    if p == INF:
        return 1.0
    return p / (p - 1.0)


def _pnorm_w(x, w, p):
    """(sum w |x|^p)^(1/p); p = inf: max |x| (unweighted, as documented)."""
    a = np.abs(x)
    if a.size == 0:
        return 0.0
    if p == INF:
        return float(a.max())
    if p == 1:
        return float(np.sum(w * a))
    if p == 2:
        return float(np.sqrt(np.sum(w * a * a)))
    return float(np.sum(w * a ** p) ** (1.0 / p))


def _pnorm_subgrad(x, w, p, fill=0.0):
    """Element g of the sub-differential of ``_pnorm_w`` w.r.t. <.,.>_w."""
    x = np.asarray(x, float)
    if p == 1:
        g = np.sign(x)
        g[x == 0] = fill
        return g
    nrm = _pnorm_w(x, w, p)
    if nrm == 0:
        return np.zeros_like(x)
    if p == INF:
        k = int(np.argmax(np.abs(x)))
        g = np.zeros_like(x)
        g[k] = np.sign(x[k]) / w[k]
        return g
    if p == 2:
        return x / nrm
    return np.sign(x) * np.abs(x) ** (p - 1) / nrm ** (p - 1)


# --------------------------------------------------------------------------
# base class

class Ref(object):
    name = 'Ref'
    is_linear = False         # linear functional (finite everywhere)
    thin_conj_dom = False     # dom f* has empty interior (single point)
    thin_dom = False          # dom f has empty interior
    smooth = False            # C^2 on the interior of its domain

    def __init__(self, geo):
        self.geo = geo

    def value(self, x):
        raise NotImplementedError

    def conj(self, y):
        return None

    def subgrad(self, x):
        return None

    def conj_subgrad(self, y):
        return None

    def center(self):
        return np.zeros(self.geo.n)

    def conj_center(self):
        return None

    def conj_residual(self, y):
        return None

    def dom_residual(self, x):
        """Convex r with dom f = {r <= 0}; ``None`` = whole space."""
        return None

    def radius(self, x):
        return INF

    def lipschitz(self):
        return None

    def children(self):
        return []


# --------------------------------------------------------------------------
# leaves

class LpNorm(Ref):
    """||x||_p = (int |x|^p)^(1/p); p = inf: max |x|."""

    def __init__(self, geo, p, fill=0.0):
        Ref.__init__(self, geo)
        self.p = float(p)
        self.q = _conj_exp(self.p)
        self.fill = fill
        self.name = 'LpNorm({})'.format(self.p)

    def value(self, x):
        return _pnorm_w(x, self.geo.w, self.p)

    def conj_residual(self, y):
        return _pnorm_w(y, self.geo.w, self.q) - 1.0

    def conj(self, y):
        return 0.0 if self.conj_residual(y) <= 0 else INF

    def subgrad(self, x):
        return _pnorm_subgrad(x, self.geo.w, self.p, self.fill)

    def conj_subgrad(self, y):
        return np.zeros(self.geo.n) if self.conj_residual(y) <= 0 else None

    def conj_center(self):
        return np.zeros(self.geo.n)

    def radius(self, x):
        a = np.abs(x)
        if self.p == 1:
            return float(a.min())
        if self.p == 2:
            return float(np.sqrt(np.sum(a * a)) / np.sqrt(max(a.size, 1)))
        return 0.0


class IndicatorLpUnitBall(Ref):
    def __init__(self, geo, p):
        Ref.__init__(self, geo)
        self.p = float(p)
        self.q = _conj_exp(self.p)
        self.name = 'IndicatorLpUnitBall({})'.format(self.p)

    def dom_residual(self, x):
        return _pnorm_w(x, self.geo.w, self.p) - 1.0

    def value(self, x):
        return 0.0 if self.dom_residual(x) <= 0 else INF

    def conj(self, y):
        return _pnorm_w(y, self.geo.w, self.q)

    def subgrad(self, x):
        return np.zeros(self.geo.n) if self.dom_residual(x) <= 0 else None

    def conj_subgrad(self, y):
        # maximiser of <x, y> over the ball = subgradient of the dual norm
        return _pnorm_subgrad(y, self.geo.w, self.q)

    def conj_center(self):
        return np.zeros(self.geo.n)

    def radius(self, x):
        return 0.0


class L2NormSquared(Ref):
    smooth = True
    name = 'L2NormSquared'

    def value(self, x):
        return float(np.sum(self.geo.w * x * x))

    def conj(self, y):
        return 0.25 * float(np.sum(self.geo.w * y * y))

    def subgrad(self, x):
        return 2.0 * np.asarray(x, float)

    def conj_subgrad(self, y):
        return 0.5 * np.asarray(y, float)

    def conj_center(self):
        return np.zeros(self.geo.n)

    def lipschitz(self):
        return 2.0


class Huber(Ref):
    """int f_gamma(|x(t)|_2) dt, f_gamma(t) = t^2/(2 gamma) for t <= gamma,
    t - gamma/2 else.  On a power space |.|_2 is the point-wise (component
    weighted) 2-norm."""

    def __init__(self, geo, gamma, fill=0.0):
        Ref.__init__(self, geo)
        self.gamma = float(gamma)
        self.fill = fill
        self.smooth = False
        self.name = 'Huber'

    def _pw(self, x):
        """point-wise norms, point weights, reshaped x (m, nb), comp w."""
        g = self.geo
        if g.power is not None:
            m, nb = g.power
            X = np.asarray(x, float).reshape(m, nb)
            nrm = np.sqrt(np.sum(g.comp_w[:, None] * X * X, axis=0))
            return nrm, g.base_w, X
        X = np.asarray(x, float).reshape(1, -1)
        return np.abs(X[0]), g.w, X

    def value(self, x):
        nrm, bw, _ = self._pw(x)
        if self.gamma > 0:
            v = np.where(nrm >= self.gamma, nrm - self.gamma / 2,
                         nrm * nrm / (2 * self.gamma))
        else:
            v = nrm
        return float(np.sum(bw * v))

    def conj_residual(self, y):
        nrm, _, _ = self._pw(y)
        return float(nrm.max()) - 1.0 if nrm.size else -1.0

    def conj(self, y):
        if self.conj_residual(y) > 0:
            return INF
        return self.gamma / 2 * float(np.sum(self.geo.w * y * y))

    def subgrad(self, x):
        nrm, _, X = self._pw(x)
        G = np.empty_like(X)
        big = nrm >= self.gamma
        with np.errstate(all='ignore'):
            G[:, big] = X[:, big] / nrm[big]
            if self.gamma > 0:
                G[:, ~big] = X[:, ~big] / self.gamma
        zero = big & (nrm == 0)          # only for gamma == 0
        if np.any(zero):
            G[:, zero] = 0.0
            G[0, zero] = self.fill / np.sqrt(
                self.geo.comp_w[0] if self.geo.power is not None else 1.0)
        return G.ravel()

    def conj_subgrad(self, y):
        if self.conj_residual(y) >= 0:
            return None
        return self.gamma * np.asarray(y, float)

    def conj_center(self):
        return np.zeros(self.geo.n)

    def radius(self, x):
        nrm, _, X = self._pw(x)
        m = X.shape[0]
        r = np.abs(nrm - self.gamma)
        if self.gamma == 0:
            r = nrm
        return float(r.min() / np.sqrt(m)) if r.size else INF

    def lipschitz(self):
        return 1.0 / self.gamma if self.gamma > 0 else None


class KullbackLeibler(Ref):
    """int x - g + g log(g/x) if x > 0 everywhere, else inf."""
    smooth = True
    name = 'KullbackLeibler'

    def __init__(self, geo, prior=None):
        Ref.__init__(self, geo)
        self.g = (np.ones(geo.n) if prior is None
                  else np.asarray(prior, float).ravel())

    def dom_residual(self, x):
        return float(np.max(-np.asarray(x, float)))

    def value(self, x):
        x = np.asarray(x, float)
        if not np.all(x > 0):
            return INF
        with np.errstate(all='ignore'):
            t = x - self.g + _xlogy(self.g, self.g / x)
        return float(np.sum(self.geo.w * t))

    def conj_residual(self, y):
        return float(np.max(np.asarray(y, float))) - 1.0

    def conj(self, y):
        y = np.asarray(y, float)
        # components with g == 0: indicator of y <= 1; g > 0: y < 1
        if np.any(y[self.g > 0] >= 1) or np.any(y > 1):
            return INF
        return -float(np.sum(self.geo.w * _xlogy(self.g, 1 - y)))

    def subgrad(self, x):
        x = np.asarray(x, float)
        if not np.all(x > 0):
            return None
        return 1.0 - self.g / x

    def conj_subgrad(self, y):
        y = np.asarray(y, float)
        if not np.all(y < 1) or np.any(self.g <= 0):
            return None
        return self.g / (1 - y)

    def center(self):
        return np.ones(self.geo.n)

    def conj_center(self):
        return np.zeros(self.geo.n)

    def radius(self, x):
        # third derivatives scale like g / x^3: stay within a fraction of x
        return float(0.25 * np.min(np.asarray(x, float)))


class KullbackLeiblerCrossEntropy(Ref):
    """int g - x + x log(x/g), x >= 0 (0 log 0 = 0), g > 0."""
    smooth = True
    name = 'KullbackLeiblerCrossEntropy'

    def __init__(self, geo, prior=None):
        Ref.__init__(self, geo)
        self.g = (np.ones(geo.n) if prior is None
                  else np.asarray(prior, float).ravel())

    def dom_residual(self, x):
        return float(np.max(-np.asarray(x, float)))

    def value(self, x):
        x = np.asarray(x, float)
        if not np.all(x >= 0):
            return INF
        with np.errstate(all='ignore'):
            t = self.g - x + _xlogy(x, x / self.g)
        return float(np.sum(self.geo.w * t))

    def conj(self, y):
        with np.errstate(over='ignore'):
            return float(np.sum(self.geo.w * self.g *
                                np.expm1(np.asarray(y, float))))

    def subgrad(self, x):
        x = np.asarray(x, float)
        if not np.all(x > 0):
            return None
        return np.log(x / self.g)

    def conj_subgrad(self, y):
        return self.g * np.exp(np.asarray(y, float))

    def center(self):
        return np.ones(self.geo.n)

    def conj_center(self):
        return np.zeros(self.geo.n)

    def radius(self, x):
        return float(0.25 * np.min(np.asarray(x, float)))


class Conjugate(Ref):
    """The conjugate of a modelled node as a functional of its own (used
    for the ``*ConvexConj`` classes and for unit-ball indicators)."""

    def __init__(self, base, name=None, smooth=False, lipschitz=None,
                 radius=None):
        Ref.__init__(self, base.geo)
        self.base = base
        self.name = name or ('Conj(' + base.name + ')')
        self.smooth = smooth
        self._lip = lipschitz
        self._radius = radius
        self.thin_dom = base.thin_conj_dom
        self.thin_conj_dom = base.thin_dom

    def value(self, x):
        return self.base.conj(x)

    def conj(self, y):
        return self.base.value(y)

    def subgrad(self, x):
        return self.base.conj_subgrad(x)

    def conj_subgrad(self, y):
        return self.base.subgrad(y)

    def center(self):
        return self.base.conj_center()

    def conj_center(self):
        return self.base.center()

    def conj_residual(self, y):
        return self.base.dom_residual(y)

    def dom_residual(self, x):
        return self.base.conj_residual(x)

    def radius(self, x):
        if self._radius is not None:
            return self._radius(x)
        return 0.0

    def lipschitz(self):
        return self._lip


def KLConvexConj(geo, prior=None):
    base = KullbackLeibler(geo, prior)
    return Conjugate(base, 'KullbackLeiblerConvexConj', smooth=True,
                     radius=lambda x: float(
                         0.25 * np.min(1 - np.asarray(x, float))))


def KLCrossEntropyConvexConj(geo, prior=None):
    base = KullbackLeiblerCrossEntropy(geo, prior)
    return Conjugate(base, 'KullbackLeiblerCrossEntropyConvexConj',
                     smooth=True, radius=lambda x: 1.0)


class IndicatorBox(Ref):
    name = 'IndicatorBox'

    def __init__(self, geo, lower=None, upper=None):
        Ref.__init__(self, geo)
        n = geo.n
        self.lo = (np.full(n, -INF) if lower is None else
                   np.broadcast_to(np.asarray(lower, float).ravel(),
                                   (n,)).copy())
        self.hi = (np.full(n, INF) if upper is None else
                   np.broadcast_to(np.asarray(upper, float).ravel(),
                                   (n,)).copy())

    def dom_residual(self, x):
        x = np.asarray(x, float)
        return float(max(np.max(self.lo - x), np.max(x - self.hi)))

    def value(self, x):
        return 0.0 if self.dom_residual(x) <= 0 else INF

    def conj(self, y):
        y = np.asarray(y, float)
        with np.errstate(all='ignore'):
            t = np.where(y > 0, self.hi * y, np.where(y < 0, self.lo * y,
                                                      0.0))
        return float(np.sum(self.geo.w * t))

    def subgrad(self, x):
        return np.zeros(self.geo.n) if self.dom_residual(x) <= 0 else None

    def center(self):
        lo = np.where(np.isfinite(self.lo), self.lo, np.minimum(self.hi, 0)
                      - 1)
        hi = np.where(np.isfinite(self.hi), self.hi, np.maximum(lo, 0) + 1)
        lo = np.where(np.isfinite(lo), lo, hi - 2)
        return 0.5 * (lo + hi)

    def radius(self, x):
        return 0.0


class IndicatorZero(Ref):
    name = 'IndicatorZero'
    thin_dom = True

    def __init__(self, geo, constant=0.0):
        Ref.__init__(self, geo)
        self.c = float(constant)

    def dom_residual(self, x):
        return float(np.max(np.abs(x))) if len(x) else 0.0

    def value(self, x):
        return self.c if not np.any(x) else INF

    def conj(self, y):
        return -self.c

    def subgrad(self, x):
        return np.zeros(self.geo.n) if not np.any(x) else None

    def conj_subgrad(self, y):
        return np.zeros(self.geo.n)

    def center(self):
        return None

    def conj_center(self):
        return np.zeros(self.geo.n)

    def radius(self, x):
        return 0.0


class Constant(Ref):
    name = 'ConstantFunctional'
    smooth = True
    thin_conj_dom = True

    def __init__(self, geo, constant=0.0):
        Ref.__init__(self, geo)
        self.c = float(constant)
        self.is_linear = self.c == 0

    def value(self, x):
        return self.c

    def conj_residual(self, y):
        return float(np.max(np.abs(y))) if len(y) else 0.0

    def conj(self, y):
        return -self.c if not np.any(y) else INF

    def subgrad(self, x):
        return np.zeros(self.geo.n)

    def conj_subgrad(self, y):
        return np.zeros(self.geo.n) if not np.any(y) else None

    def conj_center(self):
        return None

    def lipschitz(self):
        return 0.0


class QuadraticForm(Ref):
    """<x, A x> + <b, x> + c with A a dense matrix acting on flat vectors."""
    smooth = True
    name = 'QuadraticForm'

    def __init__(self, geo, A=None, b=None, c=0.0):
        Ref.__init__(self, geo)
        self.A = None if A is None else np.asarray(A, float)
        self.b = None if b is None else np.asarray(b, float).ravel()
        self.c = float(c)
        W = np.diag(geo.w)
        if self.A is not None:
            self.S = 0.5 * (W @ self.A + self.A.T @ W)   # x^T S x = <x,Ax>_w
            sw = 1.0 / np.sqrt(geo.w)
            self.eigs = np.linalg.eigvalsh(sw[:, None] * self.S * sw[None, :])
            self.pd = bool(self.eigs.min() > 1e-9 * max(1.0,
                                                        abs(self.eigs).max()))
        else:
            self.S = None
            self.pd = False
            self.thin_conj_dom = True
            self.is_linear = self.c == 0

    def value(self, x):
        x = np.asarray(x, float)
        v = self.c
        if self.A is not None:
            v += float(x @ self.S @ x)
        if self.b is not None:
            v += self.geo.inner(self.b, x)
        return v

    def _b(self):
        return np.zeros(self.geo.n) if self.b is None else self.b

    def conj_residual(self, y):
        if self.A is None:
            return float(np.max(np.abs(np.asarray(y, float) - self._b())))
        return None

    def conj(self, y):
        y = np.asarray(y, float)
        if self.A is None:
            return -self.c if not np.any(y - self._b()) else INF
        if not self.pd:
            return None
        r = self.geo.w * (y - self._b())
        return 0.25 * float(r @ np.linalg.solve(self.S, r)) - self.c

    def subgrad(self, x):
        g = self._b().copy()
        if self.A is not None:
            g = g + 2.0 * (self.S @ np.asarray(x, float)) / self.geo.w
        return g

    def conj_subgrad(self, y):
        if self.A is None or not self.pd:
            return None
        r = self.geo.w * (np.asarray(y, float) - self._b())
        return 0.5 * np.linalg.solve(self.S, r)

    def conj_center(self):
        if self.A is None:
            return None
        return self._b().copy() if self.pd else None

    def lipschitz(self):
        if self.A is None:
            return 0.0
        return float(2.0 * np.abs(self.eigs).max())


class GroupL1Norm(Ref):
    """int |x(t)|_p dt with the point-wise norm of ``PointwiseNorm``:
    (sum_j c_j |x_j|^p)^(1/p), p = inf: max_j c_j |x_j| (as documented
    there)."""

    def __init__(self, geo, p, fill=0.0):
        Ref.__init__(self, geo)
        assert geo.power is not None
        self.p = float(p)
        self.q = _conj_exp(self.p)
        self.fill = fill
        self.name = 'GroupL1Norm({})'.format(self.p)

    def _X(self, x):
        m, nb = self.geo.power
        return np.asarray(x, float).reshape(m, nb)

    @staticmethod
    def pw_norm(X, c, p):
        A = np.abs(X)
        if p == INF:
            return np.max(c[:, None] * A, axis=0)
        if p == 1:
            return np.sum(c[:, None] * A, axis=0)
        return np.sum(c[:, None] * A ** p, axis=0) ** (1.0 / p)

    @staticmethod
    def pw_dual_norm(Y, c, p):
        """Dual of pw_norm(., c, p) w.r.t. <a, b>_c = sum_j c_j a_j b_j."""
        A = np.abs(Y)
        if p == INF:
            # primal max_j c_j|a_j|  ->  dual sum_j |b_j|
            return np.sum(A, axis=0)
        if p == 1:
            return np.max(A, axis=0)
        q = p / (p - 1.0)
        return np.sum(c[:, None] * A ** q, axis=0) ** (1.0 / q)

    def value(self, x):
        g = self.geo
        return float(np.sum(g.base_w * self.pw_norm(self._X(x), g.comp_w,
                                                    self.p)))

    def conj_residual(self, y):
        d = self.pw_dual_norm(self._X(y), self.geo.comp_w, self.p)
        return float(d.max()) - 1.0 if d.size else -1.0

    def conj(self, y):
        return 0.0 if self.conj_residual(y) <= 0 else INF

    def subgrad(self, x):
        g = self.geo
        X = self._X(x)
        G = np.zeros_like(X)
        for i in range(X.shape[1]):
            a = X[:, i]
            if self.p == INF:
                k = int(np.argmax(g.comp_w * np.abs(a)))
                if a[k] != 0:
                    G[k, i] = np.sign(a[k])
            else:
                G[:, i] = _pnorm_subgrad(a, g.comp_w, self.p, self.fill)
                if self.p == 1:
                    pass
        return G.ravel()

    def conj_subgrad(self, y):
        return np.zeros(self.geo.n) if self.conj_residual(y) <= 0 else None

    def conj_center(self):
        return np.zeros(self.geo.n)

    def radius(self, x):
        X = self._X(x)
        if self.p == 1:
            return float(np.abs(X).min())
        if self.p == 2:
            nrm = np.sqrt(np.sum(X * X, axis=0))
            return float(nrm.min() / np.sqrt(X.shape[0]))
        if np.isfinite(self.p):
            # |a_j|^p is not C^2 at a_j = 0 for p < 2 (and the check keeps
            # the same margin for p > 2)
            return float(np.abs(X).min())
        return 0.0


def IndicatorGroupL1UnitBall(geo, p):
    """Indicator of {max_t |x(t)|_p <= 1} with the documented point-wise
    norm.  It is the conjugate of the group-L1 norm with the point-wise
    *dual* norm."""
    return _GroupBall(geo, p)


class _GroupBall(Ref):
    def __init__(self, geo, p):
        Ref.__init__(self, geo)
        self.p = float(p)
        self.name = 'IndicatorGroupL1UnitBall({})'.format(self.p)

    def _X(self, x):
        m, nb = self.geo.power
        return np.asarray(x, float).reshape(m, nb)

    def dom_residual(self, x):
        d = GroupL1Norm.pw_norm(self._X(x), self.geo.comp_w, self.p)
        return float(d.max()) - 1.0 if d.size else -1.0

    def value(self, x):
        return 0.0 if self.dom_residual(x) <= 0 else INF

    def conj(self, y):
        g = self.geo
        d = GroupL1Norm.pw_dual_norm(self._X(y), g.comp_w, self.p)
        return float(np.sum(g.base_w * d))

    def subgrad(self, x):
        return np.zeros(self.geo.n) if self.dom_residual(x) <= 0 else None

    def conj_center(self):
        return np.zeros(self.geo.n)

    def radius(self, x):
        return 0.0


def _schatten(s, p):
    if p == INF:
        return s.max(axis=-1)
    if p == 1:
        return s.sum(axis=-1)
    return (s ** p).sum(axis=-1) ** (1.0 / p)


class NuclearNorm(Ref):
    """(int |sigma(x(t))|_p^q dt)^(1/q) on matrix fields."""

    def __init__(self, geo, outer, sing):
        Ref.__init__(self, geo)
        assert geo.matrix is not None
        self.outer = float(outer)
        self.sing = float(sing)
        self.name = 'NuclearNorm({},{})'.format(self.outer, self.sing)

    def _mats(self, x):
        m1, m2, nb = self.geo.matrix
        return np.moveaxis(np.asarray(x, float).reshape(m1, m2, nb), -1, 0)

    def _norm(self, x, outer, sing):
        s = np.linalg.svd(self._mats(x), compute_uv=False)
        return _pnorm_w(_schatten(s, sing), self.geo.base_w, outer)

    def value(self, x):
        return self._norm(x, self.outer, self.sing)

    def conj_residual(self, y):
        return self._norm(y, _conj_exp(self.outer),
                          _conj_exp(self.sing)) - 1.0

    def conj(self, y):
        return 0.0 if self.conj_residual(y) <= 0 else INF

    def subgrad(self, x):
        M = self._mats(x)
        U, s, Vt = np.linalg.svd(M, full_matrices=False)
        sp = _schatten(s, self.sing)
        og = _pnorm_subgrad(sp, self.geo.base_w, self.outer)
        G = np.zeros_like(M)
        for i in range(M.shape[0]):
            gi = _pnorm_subgrad(s[i], np.ones(s.shape[1]), self.sing)
            G[i] = og[i] * (U[i] * gi[None, :]) @ Vt[i]
        return np.moveaxis(G, 0, -1).ravel()

    def conj_subgrad(self, y):
        return np.zeros(self.geo.n) if self.conj_residual(y) <= 0 else None

    def conj_center(self):
        return np.zeros(self.geo.n)

    def radius(self, x):
        return 0.0


class IndicatorNuclearNormUnitBall(Ref):
    def __init__(self, geo, outer, sing):
        Ref.__init__(self, geo)
        self.norm = NuclearNorm(geo, outer, sing)
        self.dual = NuclearNorm(geo, _conj_exp(float(outer)),
                                _conj_exp(float(sing)))
        self.name = 'IndicatorNuclearNormUnitBall({},{})'.format(
            float(outer), float(sing))

    def dom_residual(self, x):
        return self.norm.value(x) - 1.0

    def value(self, x):
        return 0.0 if self.dom_residual(x) <= 0 else INF

    def conj(self, y):
        return self.dual.value(y)

    def subgrad(self, x):
        return np.zeros(self.geo.n) if self.dom_residual(x) <= 0 else None

    def conj_subgrad(self, y):
        return self.dual.subgrad(y)

    def conj_center(self):
        return np.zeros(self.geo.n)

    def radius(self, x):
        return 0.0


# --------------------------------------------------------------------------
# derived nodes (calculus rules of convex analysis)

class LeftScal(Ref):
    """(s f)(x) = s f(x), s > 0:  (s f)*(y) = s f*(y / s)."""

    def __init__(self, f, s):
        Ref.__init__(self, f.geo)
        self.f, self.s = f, float(s)
        self.name = 'FunctionalLeftScalarMult'
        self.is_linear = f.is_linear
        self.smooth = f.smooth
        self.thin_conj_dom = f.thin_conj_dom
        self.thin_dom = f.thin_dom

    def children(self):
        return [self.f]

    def value(self, x):
        return self.s * self.f.value(x)

    def conj(self, y):
        if self.s < 0 and self.f.is_linear:
            # s f = f(s .) is linear, hence convex, for every s != 0
            return self.f.conj(np.asarray(y, float) / self.s)
        if self.s <= 0:
            return None
        v = self.f.conj(np.asarray(y, float) / self.s)
        return None if v is None else self.s * v

    def subgrad(self, x):
        g = self.f.subgrad(x)
        return None if g is None else self.s * g

    def conj_subgrad(self, y):
        return self.f.conj_subgrad(np.asarray(y, float) / self.s)

    def center(self):
        return self.f.center()

    def dom_residual(self, x):
        return self.f.dom_residual(x)

    def conj_center(self):
        c = self.f.conj_center()
        return None if c is None else self.s * c

    def conj_residual(self, y):
        return self.f.conj_residual(np.asarray(y, float) / self.s)

    def radius(self, x):
        return self.f.radius(x)

    def lipschitz(self):
        L = self.f.lipschitz()
        return None if L is None else abs(self.s) * L


class RightScal(Ref):
    """(f * s)(x) = f(s x), s != 0:  conj(y) = f*(y / s)."""

    def __init__(self, f, s):
        Ref.__init__(self, f.geo)
        self.f, self.s = f, float(s)
        self.name = 'FunctionalRightScalarMult'
        self.is_linear = f.is_linear
        self.smooth = f.smooth
        self.thin_conj_dom = f.thin_conj_dom
        self.thin_dom = f.thin_dom

    def children(self):
        return [self.f]

    def value(self, x):
        return self.f.value(self.s * np.asarray(x, float))

    def conj(self, y):
        return self.f.conj(np.asarray(y, float) / self.s)

    def subgrad(self, x):
        g = self.f.subgrad(self.s * np.asarray(x, float))
        return None if g is None else self.s * g

    def conj_subgrad(self, y):
        g = self.f.conj_subgrad(np.asarray(y, float) / self.s)
        return None if g is None else g / self.s

    def center(self):
        c = self.f.center()
        return None if c is None else c / self.s

    def dom_residual(self, x):
        return self.f.dom_residual(self.s * np.asarray(x, float))

    def conj_center(self):
        c = self.f.conj_center()
        return None if c is None else self.s * c

    def conj_residual(self, y):
        return self.f.conj_residual(np.asarray(y, float) / self.s)

    def radius(self, x):
        return self.f.radius(self.s * np.asarray(x, float)) / abs(self.s)

    def lipschitz(self):
        L = self.f.lipschitz()
        return None if L is None else self.s ** 2 * L


class RightVec(Ref):
    """(f * v)(x) = f(v x) (entry-wise), v without zeros."""

    def __init__(self, f, v):
        Ref.__init__(self, f.geo)
        self.f, self.v = f, np.asarray(v, float).ravel()
        self.name = 'FunctionalRightVectorMult'
        self.smooth = f.smooth
        self.thin_conj_dom = f.thin_conj_dom
        self.thin_dom = f.thin_dom

    def children(self):
        return [self.f]

    def value(self, x):
        return self.f.value(self.v * np.asarray(x, float))

    def conj(self, y):
        return self.f.conj(np.asarray(y, float) / self.v)

    def subgrad(self, x):
        g = self.f.subgrad(self.v * np.asarray(x, float))
        return None if g is None else self.v * g

    def conj_subgrad(self, y):
        g = self.f.conj_subgrad(np.asarray(y, float) / self.v)
        return None if g is None else g / self.v

    def center(self):
        c = self.f.center()
        return None if c is None else c / self.v

    def dom_residual(self, x):
        return self.f.dom_residual(self.v * np.asarray(x, float))

    def conj_center(self):
        c = self.f.conj_center()
        return None if c is None else self.v * c

    def conj_residual(self, y):
        return self.f.conj_residual(np.asarray(y, float) / self.v)

    def radius(self, x):
        return self.f.radius(self.v * np.asarray(x, float)) / float(
            np.abs(self.v).max())

    def lipschitz(self):
        L = self.f.lipschitz()
        return None if L is None else float(np.abs(self.v).max()) ** 2 * L


class ScalarSum(Ref):
    def __init__(self, f, c):
        Ref.__init__(self, f.geo)
        self.f, self.c = f, float(c)
        self.name = 'FunctionalScalarSum'
        self.smooth = f.smooth
        self.thin_conj_dom = f.thin_conj_dom
        self.thin_dom = f.thin_dom

    def children(self):
        return [self.f]

    def value(self, x):
        return self.f.value(x) + self.c

    def conj(self, y):
        v = self.f.conj(y)
        return None if v is None else v - self.c

    def subgrad(self, x):
        return self.f.subgrad(x)

    def conj_subgrad(self, y):
        return self.f.conj_subgrad(y)

    def center(self):
        return self.f.center()

    def dom_residual(self, x):
        return self.f.dom_residual(x)

    def conj_center(self):
        return self.f.conj_center()

    def conj_residual(self, y):
        return self.f.conj_residual(y)

    def radius(self, x):
        return self.f.radius(x)

    def lipschitz(self):
        return self.f.lipschitz()


class Translation(Ref):
    """f(. - t):  conj(y) = f*(y) + <t, y>."""

    def __init__(self, f, t):
        Ref.__init__(self, f.geo)
        self.f, self.t = f, np.asarray(t, float).ravel()
        self.name = 'FunctionalTranslation'
        self.smooth = f.smooth
        self.thin_conj_dom = f.thin_conj_dom
        self.thin_dom = f.thin_dom

    def children(self):
        return [self.f]

    def value(self, x):
        return self.f.value(np.asarray(x, float) - self.t)

    def conj(self, y):
        v = self.f.conj(y)
        return None if v is None else v + self.geo.inner(self.t, y)

    def subgrad(self, x):
        return self.f.subgrad(np.asarray(x, float) - self.t)

    def conj_subgrad(self, y):
        g = self.f.conj_subgrad(y)
        return None if g is None else g + self.t

    def center(self):
        c = self.f.center()
        return None if c is None else c + self.t

    def dom_residual(self, x):
        return self.f.dom_residual(np.asarray(x, float) - self.t)

    def conj_center(self):
        return self.f.conj_center()

    def conj_residual(self, y):
        return self.f.conj_residual(y)

    def radius(self, x):
        return self.f.radius(np.asarray(x, float) - self.t)

    def lipschitz(self):
        return self.f.lipschitz()


class QuadPerturb(Ref):
    """f + a <., .> + <., u> + c;  for a == 0: conj(y) = f*(y - u) - c."""

    def __init__(self, f, a=0.0, u=None, c=0.0):
        Ref.__init__(self, f.geo)
        self.f, self.a, self.c = f, float(a), float(c)
        self.u = (np.zeros(f.geo.n) if u is None
                  else np.asarray(u, float).ravel())
        self.name = 'FunctionalQuadraticPerturb'
        self.smooth = f.smooth
        self.thin_conj_dom = f.thin_conj_dom and self.a == 0
        self.thin_dom = f.thin_dom

    def children(self):
        return [self.f]

    def value(self, x):
        x = np.asarray(x, float)
        v = self.f.value(x)
        if not np.isfinite(v):
            return v
        return (v + self.a * self.geo.inner(x, x) +
                self.geo.inner(x, self.u) + self.c)

    def conj(self, y):
        if self.a != 0:
            return None
        v = self.f.conj(np.asarray(y, float) - self.u)
        return None if v is None else v - self.c

    def subgrad(self, x):
        g = self.f.subgrad(x)
        return None if g is None else (g + 2 * self.a *
                                       np.asarray(x, float) + self.u)

    def conj_subgrad(self, y):
        if self.a != 0:
            return None
        return self.f.conj_subgrad(np.asarray(y, float) - self.u)

    def center(self):
        return self.f.center()

    def dom_residual(self, x):
        return self.f.dom_residual(x)

    def conj_center(self):
        if self.a != 0:
            return None
        c = self.f.conj_center()
        return None if c is None else c + self.u

    def conj_residual(self, y):
        if self.a != 0:
            return None
        return self.f.conj_residual(np.asarray(y, float) - self.u)

    def radius(self, x):
        return self.f.radius(x)

    def lipschitz(self):
        L = self.f.lipschitz()
        return None if L is None else L + 2 * abs(self.a)


class Sum(Ref):
    def __init__(self, f, g):
        Ref.__init__(self, f.geo)
        self.f, self.g = f, g
        self.name = 'FunctionalSum'
        self.smooth = f.smooth and g.smooth
        self.thin_dom = f.thin_dom or g.thin_dom

    def children(self):
        return [self.f, self.g]

    def value(self, x):
        a, b = self.f.value(x), self.g.value(x)
        if not (np.isfinite(a) and np.isfinite(b)):
            return INF
        return a + b

    def subgrad(self, x):
        a, b = self.f.subgrad(x), self.g.subgrad(x)
        return None if a is None or b is None else a + b

    def center(self):
        return None

    def dom_residual(self, x):
        r = [v for v in (self.f.dom_residual(x), self.g.dom_residual(x))
             if v is not None]
        return max(r) if r else None

    def radius(self, x):
        return min(self.f.radius(x), self.g.radius(x))

    def lipschitz(self):
        a, b = self.f.lipschitz(), self.g.lipschitz()
        return None if a is None or b is None else a + b


class InfConv(Ref):
    """h(x) = inf_z f(x - z) + g(z):  h* = f* + g* (value not modelled)."""

    def __init__(self, f, g):
        Ref.__init__(self, f.geo)
        self.f, self.g = f, g
        self.name = 'InfimalConvolution'

    def children(self):
        return [self.f, self.g]

    def value(self, x):
        return None

    def conj(self, y):
        a, b = self.f.conj(y), self.g.conj(y)
        if a is None or b is None:
            return None
        if not (np.isfinite(a) and np.isfinite(b)):
            return INF
        return a + b

    def conj_subgrad(self, y):
        a, b = self.f.conj_subgrad(y), self.g.conj_subgrad(y)
        return None if a is None or b is None else a + b

    def conj_center(self):
        return None

    def conj_residual(self, y):
        r = [v for v in (self.f.conj_residual(y), self.g.conj_residual(y))
             if v is not None]
        return max(r) if r else None

    def radius(self, x):
        return 0.0


class SeparableSum(Ref):
    """sum_i f_i(x_i) on the product of the domains."""

    def __init__(self, geo, parts):
        Ref.__init__(self, geo)
        self.parts = list(parts)
        self.offs = np.cumsum([0] + [p.geo.n for p in self.parts])
        self.name = 'SeparableSum'
        self.smooth = all(p.smooth for p in self.parts)
        self.thin_conj_dom = any(p.thin_conj_dom for p in self.parts)
        self.thin_dom = any(p.thin_dom for p in self.parts)

    def children(self):
        return self.parts

    def _split(self, x):
        x = np.asarray(x, float)
        return [x[self.offs[i]:self.offs[i + 1]]
                for i in range(len(self.parts))]

    def value(self, x):
        vals = [p.value(xi) for p, xi in zip(self.parts, self._split(x))]
        if any(v is None for v in vals):
            return None
        if not all(np.isfinite(v) for v in vals):
            return INF
        return float(sum(vals))

    def conj(self, y):
        vals = [p.conj(yi) for p, yi in zip(self.parts, self._split(y))]
        if any(v is None for v in vals):
            return None
        if not all(np.isfinite(v) for v in vals):
            return INF
        return float(sum(vals))

    def _cat(self, vals):
        return None if any(v is None for v in vals) else np.concatenate(vals)

    def subgrad(self, x):
        return self._cat([p.subgrad(xi)
                          for p, xi in zip(self.parts, self._split(x))])

    def conj_subgrad(self, y):
        return self._cat([p.conj_subgrad(yi)
                          for p, yi in zip(self.parts, self._split(y))])

    def center(self):
        return self._cat([p.center() for p in self.parts])

    def conj_center(self):
        return self._cat([p.conj_center() for p in self.parts])

    def dom_residual(self, x):
        r = [p.dom_residual(xi)
             for p, xi in zip(self.parts, self._split(x))]
        r = [v for v in r if v is not None]
        return max(r) if r else None

    def conj_residual(self, y):
        r = [p.conj_residual(yi)
             for p, yi in zip(self.parts, self._split(y))]
        r = [v for v in r if v is not None]
        return max(r) if r else None

    def radius(self, x):
        return min(p.radius(xi)
                   for p, xi in zip(self.parts, self._split(x)))

    def lipschitz(self):
        ls = [p.lipschitz() for p in self.parts]
        return None if any(v is None for v in ls) else max(ls)


# --------------------------------------------------------------------------
# helpers shared by the checks (pure NumPy)

def boundary_scale(ref, y0, direction, tmax=1e6, iters=80):
    """Largest t with ``y0 + t*direction`` in the reference dom f*, found by
    bisection on the convex residual.  ``None`` if unbounded up to tmax or if
    the node has no residual."""
    r0 = ref.conj_residual(y0)
    if r0 is None or not (r0 < 0):
        return None
    hi = 1.0
    while ref.conj_residual(y0 + hi * direction) <= 0:
        hi *= 4.0
        if hi > tmax:
            return None
    lo = 0.0
    for _ in range(iters):
        mid = 0.5 * (lo + hi)
        if ref.conj_residual(y0 + mid * direction) <= 0:
            lo = mid
        else:
            hi = mid
    return lo


def residual_normal(ref, y, rel=1e-6):
    """Finite-difference element of the sub-differential (w.r.t. <.,.>_w) of
    the conjugate-domain residual at ``y``: an outward normal direction of
    dom f* (candidate direction for Fenchel-Young witnesses)."""
    y = np.asarray(y, float)
    h = rel * max(1.0, float(np.max(np.abs(y)))) if y.size else rel
    g = np.zeros_like(y)
    for k in range(y.size):
        e = np.zeros_like(y)
        e[k] = h
        rp, rm = ref.conj_residual(y + e), ref.conj_residual(y - e)
        g[k] = (rp - rm) / (2 * h)
    return g / ref.geo.w


def fd_estimate(phi, h0, eps, levels=7, fscale=0.0):
    """Directional derivative of ``t -> phi(t)`` at 0 from a ladder of
    central differences ``q_k = (phi(h_k) - phi(-h_k)) / (2 h_k)``,
    ``h_k = h0 2^-k``, with Romberg extrapolation.

    Returns ``(best, err, q, order_ok)``: the extrapolated value, an error
    estimate that depends on the function values only (the larger of the two
    last differences of diagonal entries used + rounding floor ``eps*max|phi|/h`` amplified
    by the extrapolation), the raw ladder and the result of the order test:
    on the part of the ladder that is above the rounding floor successive
    errors (against ``best``) must fall by >= 2^1.5 per halving (second
    order).
    """
    q, hs = [], []
    # ``fscale``: magnitude of the terms the values are assembled from
    # (rounding scale when the value itself is a small difference)
    fmax = float(fscale)
    for k in range(levels):
        h = h0 * 2.0 ** (-k)
        a, b = phi(h), phi(-h)
        if not (np.isfinite(a) and np.isfinite(b)):
            return None, INF, q, False
        fmax = max(fmax, abs(a), abs(b))
        q.append((a - b) / (2 * h))
        hs.append(h)
    diag = [q[0]]
    row = list(q)
    for j in range(1, levels):
        row = [(4.0 ** j * row[i + 1] - row[i]) / (4.0 ** j - 1)
               for i in range(len(row) - 1)]
        diag.append(row[0])
    best, err = diag[0], INF
    for j in range(2, levels):
        floor = 4.0 * eps * fmax / hs[j]
        # two successive differences: a single coincidence of two entries
        # (steps still outside the asymptotic regime) must not look like
        # convergence
        est = max(abs(diag[j] - diag[j - 1]),
                  abs(diag[j - 1] - diag[j - 2])) + floor
        if est < err:
            best, err = diag[j], est
    # order test on the raw ladder
    order_ok = True
    for k in range(levels - 1):
        e0, e1 = abs(q[k] - best), abs(q[k + 1] - best)
        floor = 64.0 * eps * fmax / hs[k + 1] + 8 * err
        if e0 > 50 * floor and e1 > floor:
            if e0 / e1 < 2.0 ** 1.5:
                order_ok = False
    return best, err, q, order_ok
