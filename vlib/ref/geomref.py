"""Reference model of the acquisition geometries (NumPy only, no odl).

Everything here is written from the class / method docstrings of
``odl.tomo.geometry`` (formulas quoted in the comments), evaluated for ONE
motion parameter and ONE detector parameter at a time with plain vector
algebra.  The check module compares every ODL method against it.

Configuration (``resolve``): the documented defaults

    Parallel2d      det_pos_init (0, 1),     det_axis_init (1, 0)
    Parallel3dEuler det_pos_init (0, 1, 0),  det_axes_init ((1,0,0), (0,0,1))
    Parallel3dAxis  axis (0, 0, 1), det_pos_init (0, 1, 0), det_axes_init same
    FanBeam         src_to_det_init (0, 1),  det_axis_init (1, 0)
    ConeBeam        axis (0, 0, 1), src_to_det_init (0, 1, 0), det_axes same

and the documented rule for vectors that are not given explicitly ("the new
default ... is given as a rotation of the original one by a matrix that
transforms <default principal vector> to the new (normalized) <principal
vector>. This matrix is calculated with the rotation_matrix_from_to
function"), respectively ``frommatrix`` ("transformation matrix whose left
(n, n) block is multiplied with the default ... vectors ... the [last]
column acts as a translation after the initial transformation").
"""
import numpy as np

from . import rotations as rot

DEFAULTS = {
    'par2d': {'principal': 'det_pos_init', 'det_pos_init': (0.0, 1.0),
              'det_axes_init': ((1.0, 0.0),)},
    'par3d_euler': {'principal': 'det_pos_init',
                    'det_pos_init': (0.0, 1.0, 0.0),
                    'det_axes_init': ((1.0, 0.0, 0.0), (0.0, 0.0, 1.0))},
    'par3d_axis': {'principal': 'axis', 'axis': (0.0, 0.0, 1.0),
                   'det_pos_init': (0.0, 1.0, 0.0),
                   'det_axes_init': ((1.0, 0.0, 0.0), (0.0, 0.0, 1.0))},
    'fan': {'principal': 'src_to_det_init', 'src_to_det_init': (0.0, 1.0),
            'det_axes_init': ((1.0, 0.0),)},
    'cone': {'principal': 'axis', 'axis': (0.0, 0.0, 1.0),
             'src_to_det_init': (0.0, 1.0, 0.0),
             'det_axes_init': ((1.0, 0.0, 0.0), (0.0, 0.0, 1.0))},
}
NDIM = {'par2d': 2, 'par3d_euler': 3, 'par3d_axis': 3, 'fan': 2, 'cone': 3}
VECTOR_KEYS = ('axis', 'det_pos_init', 'src_to_det_init')


def _arr(v):
    return np.asarray(v, dtype=float)


def resolve(g):
    """Initial vectors of the geometry described by ``g`` (see the check
    module for the descriptor layout).  Returns a dict with ``axis``
    (unit or None), ``det_pos`` (parallel: position relative to the
    rotation centre, i.e. WITHOUT the translation), ``s`` (unit
    source-to-detector vector, divergent), ``axes`` (list of unit detector
    axes) and ``translation``."""
    cls = g['cls']
    dflt = DEFAULTS[cls]
    ndim = NDIM[cls]
    out = {'cls': cls, 'ndim': ndim}
    if g.get('mode', 'ctor') == 'frommatrix':
        M = _arr(g['matrix'])
        A = M[:, :ndim]
        out['translation'] = (M[:, ndim].copy() if M.shape[1] == ndim + 1
                              else np.zeros(ndim))
        vec = {k: A.dot(_arr(dflt[k])) for k in VECTOR_KEYS if k in dflt}
        axes = [A.dot(_arr(a)) for a in dflt['det_axes_init']]
    else:
        t = g.get('translation')
        out['translation'] = np.zeros(ndim) if t is None else _arr(t)
        pkey = dflt['principal']
        pgiven = g.get(pkey)
        principal = _arr(dflt[pkey] if pgiven is None else pgiven)
        init_rot = rot.init_rotation(principal, dflt[pkey])
        vec = {pkey: principal}
        for k in VECTOR_KEYS:
            if k in dflt and k != pkey:
                given = g.get(k)
                vec[k] = (init_rot.dot(_arr(dflt[k])) if given is None
                          else _arr(given))
        given = g.get('det_axes_init')
        if given is None:
            axes = [init_rot.dot(_arr(a)) for a in dflt['det_axes_init']]
        else:
            axes = [_arr(a) for a in given]
    out['axis'] = rot.unit(vec['axis']) if 'axis' in vec else None
    out['det_pos'] = vec.get('det_pos_init')
    out['s'] = (rot.unit(vec['src_to_det_init'])
                if 'src_to_det_init' in vec else None)
    out['axes'] = [rot.unit(a) for a in axes]
    return out


# --------------------------------------------------------------------------
# detector surfaces

class RefDetector(object):
    """Detector reference surfaces.

    flat   : ``surf = p * axis``;  ``surf = p[0] * axes[0] + p[1] * axes[1]``
    curved : the class docstrings say the circle / cylinder / sphere section
    "is rotated to be aligned with [the given axes] and shifted to cross the
    origin", the angle increasing "in the clockwise direction, by analogy to
    flat detectors"; the worked examples fix the side of the curvature
    (``CircularDetector(axis=[1, 0], radius=2).surface(pi/2) == (2, -2)``,
    ``CylindricalDetector(axes=[(1,0,0), (0,0,1)], radius=2)
    .surface([pi/2, 1]) == (2, -2, 1)``): the centre of curvature lies at
    ``radius * n`` with ``n`` the documented surface normal (2d:
    ``(normal, tangent)`` right-handed, 3d: ``(tangent0, tangent1, normal)``
    right-handed), hence with ``a``/``a0, a1`` the unit axes

        circle   : r sin(phi) a  + r (1 - cos(phi)) n
        cylinder : r sin(phi) a0 + r (1 - cos(phi)) n + h a1
        sphere   : r sin(phi) cos(th) a0 + r sin(th) a1
                   + r (1 - cos(phi) cos(th)) n
    """

    def __init__(self, kind, axes, radius=None):
        self.kind = kind
        self.axes = [rot.unit(a) for a in axes]
        self.radius = None if radius is None else float(radius)
        if len(self.axes) == 1:
            a = self.axes[0]
            self.n = np.array([a[1], -a[0]])
        else:
            c = np.cross(self.axes[0], self.axes[1])
            self.n = c / np.sqrt(np.dot(c, c))

    def surface(self, p, mirrored=False):
        r = self.radius
        sg = -1.0 if mirrored else 1.0
        if self.kind == 'flat1d':
            return float(p) * self.axes[0]
        if self.kind == 'flat2d':
            return p[0] * self.axes[0] + p[1] * self.axes[1]
        if self.kind == 'circ':
            p = float(p)
            return sg * (r * np.sin(p) * self.axes[0] +
                         r * (1 - np.cos(p)) * self.n)
        a0, a1 = self.axes
        if self.kind == 'cyl':
            return (sg * (r * np.sin(p[0]) * a0 +
                          r * (1 - np.cos(p[0])) * self.n) + p[1] * a1)
        if self.kind == 'sph':
            return (sg * (r * np.sin(p[0]) * np.cos(p[1]) * a0 +
                          r * (1 - np.cos(p[0]) * np.cos(p[1])) * self.n) +
                    r * np.sin(p[1]) * a1)
        raise ValueError(self.kind)

    def deriv(self, p):
        """Analytic partial derivatives of the formulas above (rows)."""
        r = self.radius
        if self.kind == 'flat1d':
            return self.axes[0].copy()
        if self.kind == 'flat2d':
            return np.array(self.axes)
        if self.kind == 'circ':
            p = float(p)
            return r * np.cos(p) * self.axes[0] + r * np.sin(p) * self.n
        a0, a1 = self.axes
        if self.kind == 'cyl':
            return np.array([r * np.cos(p[0]) * a0 + r * np.sin(p[0]) * self.n,
                             a1])
        if self.kind == 'sph':
            c0, s0 = np.cos(p[0]), np.sin(p[0])
            c1, s1 = np.cos(p[1]), np.sin(p[1])
            return np.array([
                r * c0 * c1 * a0 + r * s0 * c1 * self.n,
                -r * s0 * s1 * a0 + r * c0 * s1 * self.n + r * c1 * a1])
        raise ValueError(self.kind)

    def normal(self, p):
        d = self.deriv(p)
        if len(self.axes) == 1:
            n = np.array([d[1], -d[0]])
        else:
            n = rot.cross3(d[0], d[1])
        return n / np.sqrt(np.dot(n, n))

    def measure(self, p):
        d = self.deriv(p)
        if len(self.axes) == 1:
            return float(np.sqrt(np.dot(d, d)))
        c = rot.cross3(d[0], d[1])
        return float(np.sqrt(np.dot(c, c)))

    @property
    def third_deriv_scale(self):
        return 0.0 if self.radius is None else self.radius


# --------------------------------------------------------------------------
# geometries

class RefGeometry(object):
    """Single-parameter reference evaluation.

    parallel (``ParallelBeamGeometry.det_refpoint``)::

        det_ref(phi) = translation + rot(phi) * (det_pos_init - translation)

    where the ``det_pos_init`` *property* includes the translation (see the
    ``frommatrix`` examples), i.e. ``translation + rot(phi) * p`` for the
    constructor argument ``p``; ``det_to_src = rot(phi) * surface_normal``.

    fan (``FanBeamGeometry.src_position`` / ``det_refpoint``)::

        src(phi) = translation + rot(phi) * (-src_rad * s)
                   + rot(phi) * (shift[0] * (-s) + shift[1] * tangent)
        det_ref(phi) = translation + rot(phi) * (det_rad * s)
                       + rot(phi) * (shift[0] * s + shift[1] * tangent)

    with ``tangent`` "tangent to the trajectory": the direction of motion
    for increasing angle, ``(s1, -s0)`` for the source (doctest with
    ``src_to_det_init=(-0.71, 0.71)``) and ``(-s1, s0)`` for the detector
    (doctest with ``src_to_det_init=(0.71, -0.71)``).

    cone (``ConeBeamGeometry``): the same with
    ``tangent = cross(-s, axis)`` (detector) / ``cross(s, axis)`` (source),
    normalised, plus ``(offset_along_axis + pitch * phi / (2 pi) + shift[2])
    * axis`` (``pitch``: "distance along axis that a point on the helix
    traverses when increasing the angle parameter by 2 * pi").

    ``det_point_position = det_ref + rot * surface``;
    divergent ``det_to_src = src - det_point_position``.
    """

    def __init__(self, g, src_shift=None, det_shift=None):
        cfg = resolve(g)
        self.cfg = cfg
        self.cls = cfg['cls']
        self.ndim = cfg['ndim']
        self.axis = cfg['axis']
        self.t = cfg['translation']
        self.det_pos = cfg['det_pos']
        self.s = cfg['s']
        self.axes_init = cfg['axes']
        self.divergent = self.cls in ('fan', 'cone')
        self.rs = float(g.get('src_radius', 0.0) or 0.0)
        self.rd = float(g.get('det_radius', 0.0) or 0.0)
        self.pitch = float(g.get('pitch', 0.0) or 0.0)
        self.offset = float(g.get('offset', 0.0) or 0.0)
        self.src_shift = src_shift
        self.det_shift = det_shift
        self._rot_memo = {}
        curv = g.get('curv')
        if self.ndim == 2:
            kind, radius = ('flat1d', None) if curv is None else ('circ', curv)
        elif curv is None:
            kind, radius = 'flat2d', None
        elif curv[1] is None or curv[1] == 'inf':
            kind, radius = 'cyl', curv[0]
        else:
            kind, radius = 'sph', curv[0]
        self.det = RefDetector(kind, self.axes_init, radius)

    # -- motion ----------------------------------------------------------
    def rot(self, m):
        """Rotation matrix at the motion parameter ``m`` (memoised by
        parameter value; callers get a fresh copy)."""
        key = (tuple(float(a) for a in m) if np.ndim(m) else float(m))
        R = self._rot_memo.get(key)
        if R is None:
            if self.cls in ('par2d', 'fan'):
                R = rot.rot2d(key)
            elif self.cls in ('par3d_axis', 'cone'):
                R = rot.rodrigues(self.axis, key)
            else:
                R = rot.euler_zxz(*key)
            if len(self._rot_memo) < 4096:
                self._rot_memo[key] = R
        return R.copy()

    def _shift(self, func, m):
        if func is None:
            return np.zeros(self.ndim)
        val = np.array(func(np.array([float(m)])), dtype=float, ndmin=2)
        return val[0]

    def _axial(self, m, extra):
        if self.cls != 'cone':
            return 0.0
        return (self.offset + self.pitch * float(m) / (2 * np.pi) +
                extra) * self.axis

    def refpoint(self, m):
        R = self.rot(m)
        if not self.divergent:
            return self.t + R.dot(self.det_pos)
        sh = self._shift(self.det_shift, m)
        if self.ndim == 2:
            tangent = np.array([-self.s[1], self.s[0]])
            extra = 0.0
        else:
            tangent = rot.unit(rot.cross3(-self.s, self.axis))
            extra = sh[2]
        init = self.rd * self.s + sh[0] * self.s + sh[1] * tangent
        return self.t + R.dot(init) + self._axial(m, extra)

    def src(self, m):
        R = self.rot(m)
        sh = self._shift(self.src_shift, m)
        if self.ndim == 2:
            tangent = np.array([self.s[1], -self.s[0]])
            extra = 0.0
        else:
            tangent = rot.unit(rot.cross3(self.s, self.axis))
            extra = sh[2]
        init = -self.rs * self.s - sh[0] * self.s + sh[1] * tangent
        return self.t + R.dot(init) + self._axial(m, extra)

    def axes(self, m):
        R = self.rot(m)
        return np.array([R.dot(a) for a in self.axes_init])

    def detpos(self, m, d):
        return self.refpoint(m) + self.rot(m).dot(self.det.surface(d))

    def det2src(self, m, d, normalized=True):
        if not self.divergent:
            return self.rot(m).dot(self.det.normal(d))
        v = self.src(m) - self.detpos(m, d)
        if normalized:
            v = v / np.sqrt(np.dot(v, v))
        return v

    def scale(self):
        """Magnitude of the coordinates this geometry produces (for the
        tolerances)."""
        s = 1.0 + float(np.max(np.abs(self.t)))
        if self.det_pos is not None:
            s += float(np.sqrt(np.dot(self.det_pos, self.det_pos)))
        s += self.rs + self.rd + abs(self.offset)
        return s
