"""Independent value reference for convex functionals (NumPy only).

Never imports odl.  Everything here is written from the documentation of the
functional classes / proximal factories and from text-book convex analysis:

* `RSpace` re-computes, from a plain space descriptor (the same JSON that
  ``vlib/build.py`` turns into an ODL space), the flat real dimension and the
  weight of every entry in the space's inner product
  ``<x, y> = sum_k W_k x_k y_k``  (tensor spaces: 1, a constant or an array;
  uniform discretizations: product of the per-axis cell sizes, boundary cells
  being half cells for ``nodes_on_bdry``; product spaces: component weight
  times the weights of the component).  Points are flat float64 vectors, leaves
  depth first, every leaf ravelled in C order.  A complex leaf is real-ified:
  every entry becomes the pair (re, im) and carries its weight twice, so
  that ``sum_k W_k v_k^2`` is the squared norm and ``sum_k W_k a_k b_k`` the
  real part of the inner product; the modulus of an entry (`RSpace.mod`) is
  the Euclidean length of its pair.  All "pointwise |x|" formulas below are
  written on `RSpace.mod` / `RSpace.Wp` (weights per point).
* `RFunc` nodes evaluate the documented value of a functional at a flat
  vector (`ev` -> ``(value, magnitude)``, value ``inf`` outside the domain),
  know a *retraction* onto their domain (clip for boxes, rescale for balls,
  normalise positives for the simplex, shift for the sum constraint, ...),
  written without any knowledge of a proximal formula, and tangent directions
  for domains with empty interior.
* Membership in a constraint set is decided on the constraint residual with a
  rounding tolerance ``(16 n + 180) eps scale`` (`IND_K`, `SHRINK_K`: the
  library deliberately moves some thresholds by 10*resolution(dtype) = 45 eps,
  and up to four such steps can be stacked by the calculus rules), never on a
  literal comparison, so that points produced on the boundary count as
  feasible.

Derived nodes (`RTranslate`, `RArgScale`, `RLeftScale`, `RQuadPert`,
`RAddConst`, `RSepSum`, `RCompose`) are evaluated by their definition.
`RConj` (the convex conjugate of a node, no closed form assumed) has no value;
`reduce_problem` rewrites the statement "p minimises h(z) + |z-x|^2/(2 sigma)"
into an equivalent statement about the child by exact convex-analysis
identities (Moreau decomposition for the conjugate) so that the optimality
certificate is always evaluated on documented value formulas.
"""
import numpy as np

LD = np.longdouble
EPS = float(np.finfo(float).eps)
IND_K = 16.0
SHRINK_K = 180.0
INF = float('inf')


# --------------------------------------------------------------------------
# spaces

def axis_cell_sizes(lo, hi, n, nob_l, nob_r):
    """Cell sizes of a uniform partition of [lo, hi] with n points; a
    boundary node sits on the boundary and owns half a cell."""
    n = int(n)
    h = (float(hi) - float(lo)) / (n - 0.5 * bool(nob_l) - 0.5 * bool(nob_r))
    cs = np.full(n, h)
    if nob_l:
        cs[0] = h / 2
    if nob_r:
        cs[-1] = h / 2
    return cs


def _nob_pairs(nob, ndim):
    if nob is True or nob is False or nob is None:
        return [(bool(nob), bool(nob))] * ndim
    out = []
    for p in nob:
        if isinstance(p, (list, tuple)):
            out.append((bool(p[0]), bool(p[1])))
        else:
            out.append((bool(p), bool(p)))
    return out


def leaf_weights(sd):
    """Array (space shape) of inner-product weights of a leaf descriptor."""
    shape = tuple(int(s) for s in sd['shape'])
    if sd['kind'] == 'tensor':
        w = sd.get('weighting')
        if w is None:
            return np.ones(shape)
        if w['type'] == 'const':
            return np.full(shape, float(w['value']))
        return np.asarray(w['data'], dtype=float).reshape(shape).copy()
    if sd['kind'] == 'discr':
        if sd.get('weighting') is not None:
            raise ValueError('reference: user weighting on discr not modelled')
        nd = len(shape)
        pairs = _nob_pairs(sd.get('nodes_on_bdry', False), nd)
        w = np.ones(shape)
        for ax in range(nd):
            cs = axis_cell_sizes(sd['min'][ax], sd['max'][ax], shape[ax],
                                 pairs[ax][0], pairs[ax][1])
            sh = [1] * nd
            sh[ax] = shape[ax]
            w = w * cs.reshape(sh)
        return w
    raise ValueError('reference: unknown leaf kind {!r}'.format(sd['kind']))


class RSpace(object):
    """Reference model of a (nested product of) real Hilbert space(s)."""

    def __init__(self, sd):
        self.sd = sd
        if sd['kind'] == 'pspace':
            if sd.get('power') is not None:
                pds = [sd['base']] * int(sd['power'])
            else:
                pds = list(sd['parts'])
            self.parts = [RSpace(p) for p in pds]
            n = len(pds)
            w = sd.get('weighting')
            if w is None:
                self.pw = np.ones(n)
                self.pkind = 'none'
            elif w['type'] == 'const':
                self.pw = np.full(n, float(w['value']))
                self.pkind = 'const' if float(w['value']) != 1.0 else 'none'
            else:
                self.pw = np.asarray(w['data'], dtype=float).ravel()
                self.pkind = 'array'
            if float(sd.get('exponent', 2.0)) != 2.0:
                raise ValueError('reference: only exponent 2 product spaces')
            self.shape = None
            self.size = sum(p.size for p in self.parts)
            offs = np.cumsum([0] + [p.size for p in self.parts])
            self.slices = [slice(int(offs[i]), int(offs[i + 1]))
                           for i in range(n)]
            dts = set(p.dtype for p in self.parts)
            cp = set(p.cplx for p in self.parts)
            if len(cp) > 1:
                raise ValueError('reference: real and complex parts mixed')
            self.cplx = bool(n) and cp == {True}
            self.dtype = next((d for d in ('complex64', 'float32',
                                           'complex128') if d in dts),
                              'float64')
            self.npoints = sum(p.npoints for p in self.parts)
            self.leafW = (np.concatenate([p.leafW for p in self.parts])
                          if n else np.zeros(0))
            self.W = (np.concatenate([self.pw[i] * p.W
                                      for i, p in enumerate(self.parts)])
                      if n else np.zeros(0))
            # a power space for the library: built as base^n, or equal
            # parts (array weightings compare by identity, so separately
            # built array-weighted parts are *not* equal)
            self.is_power = n >= 1 and (
                sd.get('power') is not None or
                (all(p == pds[0] for p in pds) and
                 not self.parts[0].has_array_weighting()))
        else:
            self.parts = None
            self.pw = None
            self.pkind = '-'
            self.dtype = str(sd.get('dtype', 'float64'))
            if self.dtype not in ('float32', 'float64', 'complex64',
                                  'complex128'):
                raise ValueError('reference: float / complex spaces only')
            self.cplx = self.dtype.startswith('complex')
            self.shape = tuple(int(s) for s in sd['shape'])
            self.npoints = int(np.prod(self.shape, dtype=int))
            self.size = self.npoints * (2 if self.cplx else 1)
            lw = leaf_weights(sd).ravel().astype(float)
            self.leafW = np.repeat(lw, 2) if self.cplx else lw
            self.W = self.leafW.copy()
            self.is_power = False
            self.slices = None

    # weighting classification (for signatures / strata)
    def has_array_weighting(self):
        """Some tensor leaf carries an array-type weighting object."""
        if self.parts is not None:
            return any(p.has_array_weighting() for p in self.parts)
        w = self.sd.get('weighting')
        return w is not None and w.get('type') == 'array'

    def leaf_kind(self):
        """unit / const / nonuniform by the values of the entry weights
        (product weights excluded), '+arr' when an array weighting object
        is involved."""
        w = self.leafW
        if w.size == 0 or np.all(w == 1.0):
            kind = 'unit'
        elif np.all(w == w[0]):
            kind = 'const'
        else:
            kind = 'nonuniform'
        return kind + ('+arr' if self.has_array_weighting() else '')

    def leaf_values(self):
        return self.leaf_kind().split('+')[0]

    def prod_kind(self):
        if self.parts is None:
            return '-'
        kinds = [self.pkind] + [p.prod_kind() for p in self.parts]
        for k in ('array', 'const'):
            if k in kinds:
                return k
        return 'none'

    def region(self):
        return 'leaf={},prod={}{}'.format(
            self.leaf_kind(), self.prod_kind(),
            {'float32': ',dt=f32', 'complex128': ',dt=c128',
             'complex64': ',dt=c64'}.get(self.dtype, ''))

    # entries ("points") of the space: one real number, or one (re, im) pair
    @property
    def Wp(self):
        """Weight of every point (entry) of the space."""
        return self.W[::2] if self.cplx else self.W

    def mod(self, v):
        """|x_i| for every point: absolute value / complex modulus."""
        v = np.asarray(v, dtype=float)
        if self.cplx:
            c = v.reshape(-1, 2)
            return np.hypot(c[:, 0], c[:, 1])
        return np.abs(v)

    def scale_points(self, v, fac):
        """Multiply every point by its own real factor."""
        fac = np.asarray(fac, dtype=float)
        if self.cplx and fac.ndim:
            fac = np.repeat(fac, 2)
        return np.asarray(v, dtype=float) * fac

    def inner(self, a, b):
        return float(np.sum(self.W.astype(LD) * np.asarray(a, dtype=LD) *
                            np.asarray(b, dtype=LD)))

    def norm2(self, a):
        return self.inner(a, a)


def wsum(w, a):
    return float(np.sum(np.asarray(w, dtype=LD) * np.asarray(a, dtype=LD)))


# --------------------------------------------------------------------------
# base class

class RFunc(object):
    """Reference functional on ``sp``; ``ev(v, amb)`` -> (value, magnitude).

    ``amb`` is the ambient magnitude of the quantities a point was computed
    from (it only widens the rounding tolerance of constraint residuals).
    """
    pure_indicator = False     # value in {0, inf}
    equality = False           # domain has empty interior
    has_value = True
    open_domain = False        # domain is open (log barriers)
    constrained = False        # domain has a closed boundary (tolerance used)
    fold = False               # see `reduce_problem`
    children = ()

    def __init__(self, sp):
        self.sp = sp

    def ev(self, v, amb=0.0):
        raise NotImplementedError

    def value(self, v, amb=0.0):
        return self.ev(v, amb)[0]

    def excess(self, v, amb=0.0):
        """(excess, tol): the point is in the (closed) domain iff
        excess <= tol.  None when the domain is the whole space or open."""
        return None

    def retract(self, v):
        """Some point of the domain near ``v`` (identity on the domain)."""
        return np.array(v, dtype=float)

    def tangent(self, d):
        return d

    def typ(self):
        """Typical magnitude of domain points (scale of feasible samples)."""
        return 1.0

    def leaves(self):
        if not self.children:
            return [self]
        out = []
        for c in self.children:
            out.extend(c.leaves())
        return out


_STRICT = [False]
_PREC = {'eps': EPS, 'shrink': SHRINK_K}


def eps():
    """Machine epsilon of the dtype of the space of the current case."""
    return _PREC['eps']


class precision(object):
    """Context: all rounding tolerances of this module are stated in units
    of eps(dtype) of the space under test; the allowance for the library's
    deliberate threshold shrink is four times 10*resolution(dtype)."""

    def __init__(self, dtype):
        fi = np.finfo(np.dtype(dtype))
        self.new = {'eps': float(fi.eps),
                    'shrink': 40.0 * float(fi.resolution) / float(fi.eps)}

    def __enter__(self):
        self.old = dict(_PREC)
        _PREC.update(self.new)

    def __exit__(self, *a):
        _PREC.update(self.old)


class strict_membership(object):
    """Inside this context membership is judged with the plain rounding
    tolerance ``16 n eps scale`` of the point itself (used for *probes*: a
    probe that is counted as feasible although it lies outside the set by
    delta falsifies the certificate by slope*delta), outside with the wider
    tolerance that also absorbs the library's deliberate shrink (used for
    the point p under test)."""

    def __enter__(self):
        self.old = _STRICT[0]
        _STRICT[0] = True

    def __exit__(self, *a):
        _STRICT[0] = self.old


def _tol(n, scale):
    if _STRICT[0]:
        return IND_K * max(int(n), 1) * _PREC['eps'] * \
            max(float(scale), 1e-300)
    return (IND_K * max(int(n), 1) + _PREC['shrink']) * _PREC['eps'] * \
        max(float(scale), 1e-300)


# --------------------------------------------------------------------------
# norms

class RLpNorm(RFunc):
    """Weighted p-norm of the space, p in {1, 2, inf} ( `LpNorm` )."""

    def __init__(self, sp, p):
        RFunc.__init__(self, sp)
        self.p = float(p)

    def ev(self, v, amb=0.0):
        a = self.sp.mod(v)
        W = self.sp.Wp
        if self.p == 1:
            s = wsum(W, a)
        elif self.p == 2:
            s = float(np.sqrt(LD(wsum(W, a * a))))
        elif self.p == INF:
            s = float(a.max()) if a.size else 0.0
        else:
            s = float(LD(wsum(W, a ** self.p)) ** (1 / LD(self.p)))
        return s, abs(s)


class RL2Sq(RFunc):
    def ev(self, v, amb=0.0):
        s = wsum(self.sp.W, np.asarray(v) ** 2)
        return s, abs(s)


class RConst(RFunc):
    def __init__(self, sp, c):
        RFunc.__init__(self, sp)
        self.c = float(c)

    def ev(self, v, amb=0.0):
        return self.c, abs(self.c)


def _power_parts(sp):
    if sp.parts is None or not sp.is_power or sp.parts[0].parts is not None:
        raise ValueError('reference: power space of leaves expected')
    n = len(sp.parts)
    return n, sp.parts[0].npoints, sp.parts[0].Wp, sp.pw


def pointwise_norm(V, pw, p):
    """[sum_j pw_j |V_j|^p]^(1/p) per point; max_j pw_j |V_j| for p=inf
    (documented formulas of PointwiseNorm with the product-space weights).
    ``V``: (components, points) array of the moduli |V_j(t)|."""
    A = np.abs(V)
    pw = np.asarray(pw, dtype=float).reshape(-1, 1)
    if p == 1:
        return np.sum(pw * A, axis=0)
    if p == INF:
        return np.max(pw * A, axis=0)
    return np.sum(pw * A ** p, axis=0) ** (1.0 / p)


class RGroupL1(RFunc):
    """int |F(t)|_p dt on a power space ( `GroupL1Norm` )."""

    def __init__(self, sp, p):
        RFunc.__init__(self, sp)
        self.p = float(p)
        self.n, self.m, self.c, self.pw = _power_parts(sp)

    def ev(self, v, amb=0.0):
        pn = pointwise_norm(self.sp.mod(v).reshape(self.n, self.m), self.pw,
                            self.p)
        s = wsum(self.c, pn)
        return s, abs(s)


def huber_scalar(t, gamma):
    t = np.abs(t)
    if gamma > 0:
        return np.where(t <= gamma, t * t / (2 * gamma), t - gamma / 2)
    return t


class RHuber(RFunc):
    """int f_gamma(|x(t)|_2) dt; scalar fields and vector fields."""

    def __init__(self, sp, gamma):
        RFunc.__init__(self, sp)
        self.gamma = float(gamma)
        if sp.parts is None:
            self.vec = False
            self.c = sp.Wp
        else:
            self.vec = True
            self.n, self.m, self.c, self.pw = _power_parts(sp)

    def ev(self, v, amb=0.0):
        if self.vec:
            t = pointwise_norm(self.sp.mod(v).reshape(self.n, self.m),
                               self.pw, 2.0)
        else:
            t = self.sp.mod(v)
        s = wsum(self.c, huber_scalar(t, self.gamma))
        return s, abs(s) + self.gamma * wsum(self.c, np.ones_like(t)) * 0.5


def _matrices(sp, v):
    """(points, n, m) array of the matrices of a (base^m)^n element."""
    n = len(sp.parts)
    m = len(sp.parts[0].parts)
    k = sp.parts[0].parts[0].size
    return np.moveaxis(np.asarray(v).reshape(n, m, k), 2, 0), n, m, k


def _nuclear_check(sp):
    ok = (sp.parts is not None and sp.is_power and
          sp.parts[0].parts is not None and sp.parts[0].is_power and
          sp.parts[0].parts[0].parts is None)
    if not ok:
        raise ValueError('reference: (base^m)^n expected')
    if sp.prod_kind() != 'none':
        raise ValueError('reference: nuclear norm on weighted product '
                         'spaces not modelled')


def _vec_norm(s, p):
    if p == 1:
        return np.sum(np.abs(s), axis=-1)
    if p == INF:
        return np.max(np.abs(s), axis=-1)
    return np.sum(np.abs(s) ** p, axis=-1) ** (1.0 / p)


class RNuclear(RFunc):
    """int |sigma(f(t))|_p dt  (outer exponent 1)."""

    def __init__(self, sp, p):
        RFunc.__init__(self, sp)
        _nuclear_check(sp)
        self.p = float(p)
        self.c = sp.parts[0].parts[0].W

    def ev(self, v, amb=0.0):
        A, n, m, k = _matrices(self.sp, v)
        s = np.linalg.svd(A, compute_uv=False)
        val = wsum(self.c, _vec_norm(s, self.p))
        return val, abs(val)


# --------------------------------------------------------------------------
# indicators

class RIndicator(RFunc):
    pure_indicator = True
    constrained = True

    def ev(self, v, amb=0.0):
        ex, tol = self.excess(v, amb)
        return (0.0 if ex <= tol else INF), 0.0


def _bound(b, n):
    if b is None:
        return None
    a = np.asarray(b, dtype=float)
    return np.full(n, float(a)) if a.ndim == 0 else a.ravel()


class RIndBox(RIndicator):
    def __init__(self, sp, lower=None, upper=None):
        RFunc.__init__(self, sp)
        self.lo = _bound(lower, sp.size)
        self.hi = _bound(upper, sp.size)

    def excess(self, v, amb=0.0):
        ex = -INF
        sc = max(float(np.abs(v).max()) if np.size(v) else 0.0, amb)
        if self.lo is not None:
            ex = max(ex, float(np.max(self.lo - v)))
            sc = max(sc, float(np.abs(self.lo).max()))
        if self.hi is not None:
            ex = max(ex, float(np.max(v - self.hi)))
            sc = max(sc, float(np.abs(self.hi).max()))
        return ex, _tol(1, sc)

    def retract(self, v):
        v = np.array(v, dtype=float)
        if self.lo is not None:
            v = np.maximum(v, self.lo)
        if self.hi is not None:
            v = np.minimum(v, self.hi)
        return v

    def typ(self):
        vals = [1.0]
        for b in (self.lo, self.hi):
            if b is not None:
                vals.append(float(np.abs(b).max()))
        return max(vals)


class RIndLpBall(RIndicator):
    """{ |x|_p <= radius }, weighted p-norm of the space, p in {1, 2, inf}."""

    def __init__(self, sp, p, radius=1.0):
        RFunc.__init__(self, sp)
        self.p = float(p)
        self.r = float(radius)
        self.norm = RLpNorm(sp, p)

    def excess(self, v, amb=0.0):
        nv = self.norm.value(v)
        n = 1 if self.p == INF else self.sp.size
        return nv - self.r, _tol(n, max(nv, self.r, amb))

    def retract(self, v):
        v = np.array(v, dtype=float)
        if self.p == INF and not self.sp.cplx:
            return np.clip(v, -self.r, self.r)
        if self.p == INF:
            a = self.sp.mod(v)
            return self.sp.scale_points(
                v, np.where(a > self.r, self.r / np.where(a > 0, a, 1.0),
                            1.0))
        nv = self.norm.value(v)
        if nv > self.r:
            v = v * (self.r / nv)
        return v

    def typ(self):
        w = float(np.mean(self.sp.W)) if self.sp.size else 1.0
        if self.p == 1:
            return self.r / max(w * self.sp.size, 1e-300)
        if self.p == 2:
            return self.r / max(np.sqrt(w * self.sp.size), 1e-300)
        return self.r


class RIndGroupBall(RIndicator):
    """{ |F(t)|_p <= radius for all t } on a power space."""

    def __init__(self, sp, p, radius=1.0):
        RFunc.__init__(self, sp)
        self.p = float(p)
        self.r = float(radius)
        self.n, self.m, self.c, self.pw = _power_parts(sp)

    def _pn(self, v):
        return pointwise_norm(self.sp.mod(v).reshape(self.n, self.m),
                              self.pw, self.p)

    def excess(self, v, amb=0.0):
        pn = self._pn(v)
        mx = float(pn.max()) if pn.size else 0.0
        return mx - self.r, _tol(self.n, max(mx, self.r, amb))

    def retract(self, v):
        v = np.array(v, dtype=float)
        if self.p == INF:
            lim = (self.r / self.pw).reshape(-1, 1)
            if not self.sp.cplx:
                return np.clip(v.reshape(self.n, self.m), -lim, lim).ravel()
            a = self.sp.mod(v).reshape(self.n, self.m)
            fac = np.where(a > lim, lim / np.where(a > 0, a, 1.0), 1.0)
            return self.sp.scale_points(v, fac.ravel())
        pn = self._pn(v)
        fac = np.where(pn > self.r, self.r / np.where(pn > 0, pn, 1.0), 1.0)
        return self.sp.scale_points(v, np.tile(fac, self.n))

    def typ(self):
        return self.r / max(float(np.mean(self.pw)) * np.sqrt(self.n), 1e-300)


class RIndNuclearBall(RIndicator):
    """{ |sigma(f(t))|_q <= 1 for all t }  (outer exponent inf)."""

    def __init__(self, sp, q):
        RFunc.__init__(self, sp)
        _nuclear_check(sp)
        self.q = float(q)

    def _nrm(self, v):
        A, n, m, k = _matrices(self.sp, v)
        return _vec_norm(np.linalg.svd(A, compute_uv=False), self.q), A

    def excess(self, v, amb=0.0):
        nr, _ = self._nrm(v)
        mx = float(nr.max()) if nr.size else 0.0
        return mx - 1.0, _tol(self.sp.size, max(mx, 1.0, amb))

    def retract(self, v):
        nr, A = self._nrm(v)
        fac = np.where(nr > 1.0, 1.0 / np.where(nr > 0, nr, 1.0), 1.0)
        B = A * fac.reshape(-1, 1, 1)
        return np.moveaxis(B, 0, 2).ravel()

    def typ(self):
        return 0.5


class RIndZero(RFunc):
    """constant at 0, inf elsewhere ( `IndicatorZero` )."""
    equality = True
    constrained = True

    def __init__(self, sp, constant=0.0):
        RFunc.__init__(self, sp)
        self.c = float(constant)
        self.pure_indicator = (self.c == 0.0)

    def excess(self, v, amb=0.0):
        mx = float(np.abs(v).max()) if np.size(v) else 0.0
        return mx, _tol(1, amb)

    def ev(self, v, amb=0.0):
        ex, tol = self.excess(v, amb)
        return (self.c if ex <= tol else INF), abs(self.c)

    def retract(self, v):
        return np.zeros(self.sp.size)

    def tangent(self, d):
        return np.zeros_like(d)


def _doc_sum_rtol(sp):
    return (1e-10 if sp.dtype == 'float64' else 1e-6) * sp.size


class RIndSimplex(RIndicator):
    """{ x >= 0, sum_i x_i = diameter }  (plain sum of the entries)."""
    equality = True

    def __init__(self, sp, diameter=1.0, sum_rtol=None):
        RFunc.__init__(self, sp)
        self.r = float(diameter)
        # documented default relative tolerance of the class:
        # 1e-10 * size for float64 spaces, 1e-6 * size otherwise
        self.doc_rtol = (_doc_sum_rtol(sp) if sum_rtol is None
                         else float(sum_rtol))

    def excess(self, v, amb=0.0):
        """Two constraints with their own rounding scales (no summation is
        involved in the sign constraint): the larger of the two excesses in
        units of its tolerance, against 1."""
        v = np.asarray(v, dtype=float)
        vm = float(np.abs(v).max()) if v.size else 0.0
        tol_sum = _tol(self.sp.size, max(vm, abs(self.r), amb))
        tol_neg = _tol(1, max(vm, amb))
        neg = float(np.max(-v)) if v.size else 0.0
        s = float(np.sum(v.astype(LD)))
        return max(neg / tol_neg, abs(s - self.r) / tol_sum), 1.0

    def doc_excess(self, v, margin=1.0):
        """Documented membership test of the class (relative sum tol)."""
        v = np.asarray(v, dtype=float)
        s = float(np.sum(v.astype(LD)))
        return (abs(s / self.r - 1) <= margin * self.doc_rtol) and \
            bool(np.all(v >= 0))

    def retract(self, v):
        v = np.abs(np.array(v, dtype=float))
        s = float(np.sum(v))
        if not s > 0:
            return np.full(self.sp.size, self.r / self.sp.size)
        return v * (self.r / s)

    def tangent(self, d):
        return d - np.mean(d)

    def typ(self):
        return abs(self.r) / max(self.sp.size, 1)


class RIndSum(RIndicator):
    """{ sum_i x_i = c }  (plain sum of the entries)."""
    equality = True

    def __init__(self, sp, sum_value=1.0, sum_rtol=None):
        RFunc.__init__(self, sp)
        self.c = float(sum_value)
        self.doc_rtol = (_doc_sum_rtol(sp) if sum_rtol is None
                         else float(sum_rtol))

    def excess(self, v, amb=0.0):
        v = np.asarray(v, dtype=float)
        sc = max(float(np.abs(v).max()) if v.size else 0.0, abs(self.c), amb)
        s = float(np.sum(v.astype(LD)))
        return abs(s - self.c), _tol(self.sp.size, sc)

    def doc_excess(self, v, margin=1.0):
        s = float(np.sum(np.asarray(v, dtype=LD)))
        return abs(s / self.c - 1) <= margin * self.doc_rtol

    def retract(self, v):
        v = np.array(v, dtype=float)
        return v + (self.c - float(np.sum(v))) / self.sp.size

    def tangent(self, d):
        return d - np.mean(d)

    def typ(self):
        return max(abs(self.c) / max(self.sp.size, 1), 1.0)


# --------------------------------------------------------------------------
# entropy type functionals

def _prior(g, n):
    return np.ones(n) if g is None else np.asarray(g, dtype=float).ravel()


def _xlogy(x, y):
    """x*log(y) with 0*log(anything) = 0."""
    x = np.asarray(x, dtype=LD)
    y = np.asarray(y, dtype=LD)
    out = np.zeros(x.shape, dtype=LD)
    nz = x != 0
    out[nz] = x[nz] * np.log(y[nz])
    return out


class RKL(RFunc):
    """int x - g + g log(g/x) for x > 0 everywhere, else inf."""
    open_domain = True

    def __init__(self, sp, prior=None):
        RFunc.__init__(self, sp)
        self.g = _prior(prior, sp.size)

    def ev(self, v, amb=0.0):
        v = np.asarray(v, dtype=float)
        if not np.all(v > 0):
            return INF, 0.0
        g = self.g
        W = self.sp.W.astype(LD)
        t1 = v.astype(LD) - g
        t2 = _xlogy(g, np.where(g > 0, g, 1.0) / v.astype(LD))
        val = float(np.sum(W * (t1 + t2)))
        mag = float(np.sum(W * (np.abs(v) + np.abs(g) + np.abs(t2))))
        return val, mag

    def retract(self, v):
        v = np.array(v, dtype=float)
        return np.where(v > 1e-3, v, np.abs(v) + 1e-3)


class RKLConj(RFunc):
    """int -g log(1 - x) for x < 1 everywhere, else inf."""
    open_domain = True

    def __init__(self, sp, prior=None):
        RFunc.__init__(self, sp)
        self.g = _prior(prior, sp.size)

    def ev(self, v, amb=0.0):
        v = np.asarray(v, dtype=float)
        if not np.all(v < 1):
            return INF, 0.0
        t = -_xlogy(self.g, 1 - v.astype(LD))
        W = self.sp.W.astype(LD)
        return float(np.sum(W * t)), float(np.sum(W * np.abs(t)))

    def retract(self, v):
        v = np.array(v, dtype=float)
        return np.where(v < 1 - 1e-3, v, 1 - 1e-3 - np.abs(v - 1))


class RKLCE(RFunc):
    """int g - x + x log(x/g) for x >= 0 (0 log 0 = 0), else inf; g > 0."""
    constrained = True

    def __init__(self, sp, prior=None):
        RFunc.__init__(self, sp)
        self.g = _prior(prior, sp.size)

    def ev(self, v, amb=0.0):
        v = np.asarray(v, dtype=float)
        if not np.all(v >= 0):
            return INF, 0.0
        W = self.sp.W.astype(LD)
        t2 = _xlogy(v, np.where(v > 0, v, 1.0).astype(LD) / self.g)
        val = float(np.sum(W * (self.g.astype(LD) - v + t2)))
        mag = float(np.sum(W * (np.abs(self.g) + np.abs(v) + np.abs(t2))))
        return val, mag

    def excess(self, v, amb=0.0):
        return (float(np.max(-np.asarray(v))) if np.size(v) else 0.0), 0.0

    def retract(self, v):
        return np.abs(np.array(v, dtype=float))


class RKLCEConj(RFunc):
    """int g (exp(x) - 1)."""

    def __init__(self, sp, prior=None):
        RFunc.__init__(self, sp)
        self.g = _prior(prior, sp.size)

    def ev(self, v, amb=0.0):
        W = self.sp.W.astype(LD)
        t = self.g.astype(LD) * np.expm1(np.asarray(v, dtype=LD))
        return float(np.sum(W * t)), float(np.sum(W * np.abs(t)))


# --------------------------------------------------------------------------
# derived functionals

class RTranslate(RFunc):
    """h(. - y)"""

    def __init__(self, h, y):
        RFunc.__init__(self, h.sp)
        self.h = h
        self.y = np.asarray(y, dtype=float).ravel()
        self.children = (h,)
        self.pure_indicator = h.pure_indicator
        self.equality = h.equality
        self.has_value = h.has_value
        self.open_domain = h.open_domain
        self.constrained = h.constrained
        self.fold = h.fold

    def _amb(self, v, amb):
        return max(amb, float(np.abs(v).max()) if np.size(v) else 0.0,
                   float(np.abs(self.y).max()) if self.y.size else 0.0)

    def ev(self, v, amb=0.0):
        return self.h.ev(v - self.y, self._amb(v, amb))

    def excess(self, v, amb=0.0):
        return self.h.excess(v - self.y, self._amb(v, amb))

    def retract(self, v):
        return self.h.retract(v - self.y) + self.y

    def tangent(self, d):
        return self.h.tangent(d)

    def typ(self):
        return max(self.h.typ(), float(np.abs(self.y).max())
                   if self.y.size else 0.0)


class RArgScale(RFunc):
    """h(s .) with a non-zero scalar or entry-wise scaling s"""

    def __init__(self, h, s):
        RFunc.__init__(self, h.sp)
        self.h = h
        s = np.asarray(s, dtype=float)
        self.s = float(s) if s.ndim == 0 else s.ravel()
        self.children = (h,)
        self.pure_indicator = h.pure_indicator
        self.equality = h.equality
        self.has_value = h.has_value
        self.open_domain = h.open_domain
        self.constrained = h.constrained
        self.fold = h.fold

    def _amb(self, v, amb):
        sm = float(np.max(np.abs(self.s)))
        return max(amb, 1.0) * max(sm, 1.0) + \
            (float(np.abs(v).max()) * sm if np.size(v) else 0.0)

    def ev(self, v, amb=0.0):
        return self.h.ev(self.s * v, self._amb(v, amb))

    def excess(self, v, amb=0.0):
        return self.h.excess(self.s * v, self._amb(v, amb))

    def retract(self, v):
        return self.h.retract(self.s * v) / self.s

    def tangent(self, d):
        return self.h.tangent(self.s * d) / self.s

    def typ(self):
        return self.h.typ() / float(np.max(np.abs(self.s)))


class RLeftScale(RFunc):
    """s h, s > 0"""

    def __init__(self, h, s):
        RFunc.__init__(self, h.sp)
        self.h = h
        self.s = float(s)
        self.children = (h,)
        self.pure_indicator = h.pure_indicator
        self.equality = h.equality
        self.has_value = h.has_value
        self.open_domain = h.open_domain
        self.constrained = h.constrained
        self.fold = h.fold

    def ev(self, v, amb=0.0):
        val, mag = self.h.ev(v, amb)
        return (self.s * val if np.isfinite(val) else val), self.s * mag

    def excess(self, v, amb=0.0):
        return self.h.excess(v, amb)

    def retract(self, v):
        return self.h.retract(v)

    def tangent(self, d):
        return self.h.tangent(d)

    def typ(self):
        return self.h.typ()


class RAddConst(RLeftScale):
    """h + c"""

    def __init__(self, h, c):
        RLeftScale.__init__(self, h, 1.0)
        self.c = float(c)
        self.pure_indicator = h.pure_indicator and self.c == 0.0

    def ev(self, v, amb=0.0):
        val, mag = self.h.ev(v, amb)
        return val + self.c, mag + abs(self.c)


class RQuadPert(RLeftScale):
    """h + a <., .> + <., u> + c   (inner product of the space)"""

    def __init__(self, h, a=0.0, u=None, c=0.0):
        RLeftScale.__init__(self, h, 1.0)
        self.a = float(a)
        self.u = (np.zeros(h.sp.size) if u is None
                  else np.asarray(u, dtype=float).ravel())
        self.c = float(c)
        self.pure_indicator = False
        # a linear / quadratic term on top of a constraint: the multiplier of
        # the constraint is no longer bounded by |x - p|/sigma, so the
        # certificate is evaluated after completing the square
        self.fold = h.fold or h.constrained

    def ev(self, v, amb=0.0):
        val, mag = self.h.ev(v, amb)
        if not np.isfinite(val):
            return val, mag
        W = self.sp.W
        q = wsum(W, np.asarray(v) ** 2)
        lin = wsum(W, np.asarray(v) * self.u)
        linm = wsum(W, np.abs(np.asarray(v) * self.u))
        return (val + self.a * q + lin + self.c,
                mag + abs(self.a) * q + linm + abs(self.c))


class RSepSum(RFunc):
    """sum_i f_i(x_i) on the unweighted product of the summands' domains."""

    def __init__(self, sp, parts):
        RFunc.__init__(self, sp)
        if sp.parts is None or len(sp.parts) != len(parts) or \
                not np.all(sp.pw == 1.0):
            raise ValueError('reference: separable sum needs the unweighted '
                             'product of the domains')
        self.children = tuple(parts)
        self.pure_indicator = all(p.pure_indicator for p in parts)
        self.equality = any(p.equality for p in parts)
        self.has_value = all(p.has_value for p in parts)
        self.open_domain = any(p.open_domain for p in parts)
        self.constrained = any(p.constrained for p in parts)
        self.fold = any(p.fold for p in parts)

    def ev(self, v, amb=0.0):
        val, mag = 0.0, 0.0
        for f, sl in zip(self.children, self.sp.slices):
            a, b = f.ev(v[sl], amb)
            val += a
            mag += b
        return val, mag

    def excess(self, v, amb=0.0):
        worst = None
        for f, sl in zip(self.children, self.sp.slices):
            e = f.excess(v[sl], amb)
            if e is None:
                continue
            if worst is None or e[0] - e[1] > worst[0] - worst[1]:
                worst = e
        return worst

    def retract(self, v):
        return np.concatenate([f.retract(v[sl]) for f, sl in
                               zip(self.children, self.sp.slices)])

    def tangent(self, d):
        return np.concatenate([f.tangent(d[sl]) for f, sl in
                               zip(self.children, self.sp.slices)])

    def typ(self):
        return max(f.typ() for f in self.children)


class RCompose(RFunc):
    """h(L .) with a square matrix L (flat coordinates), L^* L = mu I."""

    def __init__(self, h, L, mu):
        RFunc.__init__(self, h.sp)
        self.h = h
        self.L = np.asarray(L, dtype=float)
        self.mu = float(mu)
        self.children = (h,)
        self.pure_indicator = h.pure_indicator
        self.equality = h.equality
        self.has_value = h.has_value
        self.open_domain = h.open_domain
        self.constrained = h.constrained
        self.fold = h.fold

    def _amb(self, v, amb):
        return max(amb, float(np.abs(v).max()) if np.size(v) else 0.0) * \
            max(float(np.abs(self.L).sum(axis=1).max()), 1.0)

    def ev(self, v, amb=0.0):
        return self.h.ev(self.L @ v, self._amb(v, amb))

    def excess(self, v, amb=0.0):
        return self.h.excess(self.L @ v, self._amb(v, amb))

    def retract(self, v):
        return np.linalg.solve(self.L, self.h.retract(self.L @ v))

    def tangent(self, d):
        return np.linalg.solve(self.L, self.h.tangent(self.L @ d))

    def typ(self):
        return self.h.typ() / max(np.sqrt(abs(self.mu)), 1e-300)


class RConj(RFunc):
    """Convex conjugate of ``h`` in the space's inner product.  No value is
    modelled; statements about its proximal are rewritten by
    `reduce_problem` (Moreau decomposition)."""
    has_value = False

    def __init__(self, h):
        RFunc.__init__(self, h.sp)
        self.h = h
        self.children = (h,)

    def ev(self, v, amb=0.0):
        raise ValueError('reference: conjugate has no modelled value')


# --------------------------------------------------------------------------
# problem reduction: "p = argmin_z node(z) + sum_k W_k (z_k - x_k)^2 /
# (2 sigma_k)" rewritten as equivalent statements about nodes with values

def descend(node, p, x, sigma):
    """One level of the exact rewriting of "p = argmin_z node(z) + sum_k W_k
    (z_k - x_k)^2 / (2 sigma_k)" into statements about the operand(s) of a
    derived node; None for leaves.  ``sigma`` is a float or a flat array.

    * conjugate (Moreau): p = prox_{sigma h*}(x)  <=>
      (x - p)/sigma = prox_{h/sigma}(x/sigma)
    * h(.-y): p - y = prox_{sigma h}(x - y);  s h: step sigma s;
      h(s .): s p = prox_{sigma s^2 h}(s x);  h + c: unchanged;
      h + a|.|^2 + <u,.> + c: p = prox_{sigma' h}(sigma'(x/sigma - u)),
      sigma' = sigma/(1 + 2 a sigma);
      separable sums: component-wise;  h(L.), L*L = mu: L p =
      prox_{mu sigma h}(L x).
    """
    if isinstance(node, RConj):
        return [(node.h, (x - p) / sigma, x / sigma, 1.0 / sigma)]
    if isinstance(node, RTranslate):
        return [(node.h, p - node.y, x - node.y, sigma)]
    if isinstance(node, RArgScale):
        return [(node.h, node.s * p, node.s * x, sigma * node.s * node.s)]
    if isinstance(node, RQuadPert):
        sig2 = sigma / (1 + 2 * node.a * sigma)
        return [(node.h, p, sig2 * (x / sigma - node.u), sig2)]
    if isinstance(node, RAddConst):
        return [(node.h, p, x, sigma)]
    if isinstance(node, RLeftScale):
        return [(node.h, p, x, sigma * node.s)]
    if isinstance(node, RCompose):
        return [(node.h, node.L @ p, node.L @ x, sigma * node.mu)]
    if isinstance(node, RSepSum):
        out = []
        for f, sl in zip(node.children, node.sp.slices):
            sg = sigma[sl] if np.ndim(sigma) else sigma
            out.append((f, p[sl], x[sl], sg))
        return out
    return None


def reduce_problem(node, p, x, sigma):
    """List of (node', p', x', sigma') with ``node'.has_value`` such that the
    original statement holds iff all of them hold (exact identities only,
    see `descend`).  Nodes with values are kept as they are, except where a
    linear/quadratic perturbation sits on top of a constraint set
    (``fold``): there the square is completed first, so that the slope of
    the objective at p along the constraint is (x' - p)/sigma' and the
    rounding tolerances, which are stated in terms of |x' - p|, apply."""
    p = np.asarray(p, dtype=float)
    x = np.asarray(x, dtype=float)
    if node.has_value and not node.fold:
        return [(node, p, x, sigma)]
    kids = descend(node, p, x, sigma)
    if kids is None:
        raise ValueError('reference: cannot reduce {!r}'.format(type(node)))
    out = []
    for k in kids:
        out.extend(reduce_problem(*k))
    return out


def ambient(node, p, x, sigma):
    """(largest magnitude of the points, largest step) met while the
    statement is rewritten down to the leaves: the natural scale of the
    rounding errors of a proximal assembled by the calculus rules."""
    p = np.asarray(p, dtype=float)
    x = np.asarray(x, dtype=float)
    mag = max(float(np.abs(p).max(initial=0)), float(np.abs(x).max(initial=0)))
    sg = float(np.max(sigma))
    kids = descend(node, p, x, sigma)
    for k in (kids or []):
        m2, s2 = ambient(*k)
        mag, sg = max(mag, m2), max(sg, s2)
    return mag, sg


# --------------------------------------------------------------------------
# sub-gradients (for Bregman distances), written from the definitions

def subgradient(node, y):
    """An element of the sub-differential (w.r.t. the space's inner product)
    of a smooth-enough node at ``y`` or None."""
    y = np.asarray(y, dtype=float)
    if isinstance(node, RL2Sq):
        return 2 * y
    if isinstance(node, RLpNorm) and node.p == 1:
        return np.where(y > 0, 1.0, np.where(y < 0, -1.0, 0.25))
    if isinstance(node, RLpNorm) and node.p == 2:
        n = node.value(y)
        return y / n if n > 0 else np.zeros_like(y)
    if isinstance(node, RHuber) and not node.vec and node.gamma > 0:
        return np.clip(y / node.gamma, -1.0, 1.0)
    if isinstance(node, RKL):
        return 1 - node.g / y if np.all(y > 0) else None
    if isinstance(node, RKLCEConj):
        return node.g * np.exp(y)
    return None
