"""Entry-wise reference for vector arithmetic (NumPy long double only).

Never imports odl.  ``reference`` returns, per leaf array, the expected values
in (complex) long double, a magnitude array (sum of absolute values of the
terms of the expression, the natural scale of the rounding error) and the
number ``k`` of eps units allowed.
"""
import numpy as np


def _ld(dt):
    return np.clongdouble if np.dtype(dt).kind == 'c' else np.longdouble


def _scalar(s, dt):
    if s is None:
        return None
    return _ld(dt)(s) if np.dtype(dt).kind != 'c' else np.clongdouble(
        complex(s))


def reference(op, v1, v2, a, b, n, dts):
    refs, mags = [], []
    k = 8
    for x1, x2, dt in zip(v1, v2, dts):
        ld = _ld(dt)
        X1 = x1.astype(ld)
        X2 = x2.astype(ld)
        A = _scalar(a, dt)
        B = _scalar(b, dt)
        if op in ('lincomb2', 'elem_lincomb'):
            r = A * X1 + B * X2
            m = abs(A) * np.abs(X1) + abs(B) * np.abs(X2)
        elif op == 'lincomb1':
            r = A * X1
            m = np.abs(r)
        elif op in ('add', 'iadd', 'bcast_add', 'bcast_iadd'):
            r = X1 + X2
            m = np.abs(X1) + np.abs(X2)
        elif op in ('sub', 'isub'):
            r = X1 - X2
            m = np.abs(X1) + np.abs(X2)
        elif op in ('mul', 'imul', 'multiply', 'bcast_mul'):
            r = X1 * X2
            m = np.abs(X1) * np.abs(X2)
        elif op in ('div', 'idiv', 'divide'):
            r = X1 / X2
            m = np.abs(r)
        elif op == 'rsub':
            r = X2 - X1
            m = np.abs(X1) + np.abs(X2)
        elif op == 'rdiv':
            r = X2 / X1
            m = np.abs(r)
        elif op in ('smul', 'rsmul', 'ismul'):
            r = A * X1
            m = np.abs(r)
        elif op in ('sdiv', 'isdiv'):
            r = X1 / A
            m = np.abs(r)
        elif op == 'rsdiv':
            r = A / X1
            m = np.abs(r)
        elif op in ('sadd', 'rsadd', 'isadd'):
            r = X1 + A
            m = np.abs(X1) + abs(A)
        elif op in ('ssub', 'issub'):
            r = X1 - A
            m = np.abs(X1) + abs(A)
        elif op == 'rssub':
            r = A - X1
            m = np.abs(X1) + abs(A)
        elif op in ('pow', 'ipow'):
            if n >= 0:
                r = np.ones_like(X1)
                for _ in range(n):
                    r = r * X1
            else:
                r = np.ones_like(X1)
                for _ in range(-n):
                    r = r * X1
                r = 1 / r
            m = np.abs(r)
            k = 8 + 4 * abs(n)
        elif op == 'neg':
            r = -X1
            m = np.abs(r)
        elif op in ('pos', 'copy'):
            r = X1
            m = np.abs(r)
        elif op == 'assign':
            r = X2
            m = np.abs(r)
        elif op in ('set_zero', 'zero'):
            r = np.zeros_like(X1)
            m = np.zeros(X1.shape, dtype=np.longdouble)
        elif op == 'one':
            r = np.ones_like(X1)
            m = np.abs(r)
        else:
            raise ValueError('unknown op {!r}'.format(op))
        refs.append(r)
        mags.append(np.abs(m).astype(np.longdouble))
    return refs, mags, k
