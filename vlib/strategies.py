"""Hypothesis strategies that emit plain-data descriptors (see build.py)."""
import numpy as np
from hypothesis import strategies as st

from . import build

FLOAT_PALETTE = [0.0, 1.0, -1.0, 2.0, -3.0, 0.5, -0.25, 1.5, 7.0, -12.5,
                 1e-3, 123.456, -0.3, 2.7, -0.0, 100.0]
INT_PALETTE = [0, 1, -1, 2, -3, 5, 7, -12, 20, 3]
EXPLICIT_LIMIT = 24


def _round(x):
    # keep generic floats short in replay files without losing generality
    return float(np.float32(x))


def float_values(lo=-1e3, hi=1e3, positive=False):
    if positive:
        return st.one_of(
            st.sampled_from([1.0, 2.0, 0.5, 1.5, 7.0, 0.25, 3.0, 0.1]),
            st.floats(0.05, 50.0, allow_nan=False).map(_round))
    return st.one_of(
        st.sampled_from(FLOAT_PALETTE),
        st.floats(lo, hi, allow_nan=False, allow_infinity=False).map(_round))


def int_values(unsigned=False):
    if unsigned:
        return st.integers(0, 20)
    return st.one_of(st.sampled_from(INT_PALETTE), st.integers(-20, 20))


def entry_values(dtype, positive=False, lo=-1e3, hi=1e3):
    dt = np.dtype(dtype)
    if dt.kind == 'u':
        return int_values(unsigned=True)
    if dt.kind == 'i':
        return int_values() if not positive else st.integers(1, 20)
    if dt.kind == 'c' and not positive:
        return st.tuples(float_values(lo, hi), float_values(lo, hi)).map(
            lambda t: complex(t[0], t[1]))
    return float_values(lo, hi, positive=positive)


def _nest(flat, shape):
    arr = np.empty(len(flat), dtype=object)
    for i, v in enumerate(flat):
        arr[i] = v
    return arr.reshape(shape).tolist() if shape else flat[0]


@st.composite
def array_descs(draw, shape, dtype, orders=('C', 'F', 'strided', 'rev'),
                positive=False, lo=-1e3, hi=1e3, explicit_limit=EXPLICIT_LIMIT,
                scale=None):
    shape = tuple(int(s) for s in shape)
    size = int(np.prod(shape, dtype=int))
    order = draw(st.sampled_from(list(orders)))
    ad = {'dtype': str(np.dtype(dtype)), 'shape': list(shape), 'order': order}
    if size <= explicit_limit:
        vals = draw(st.lists(entry_values(dtype, positive, lo, hi),
                             min_size=size, max_size=size))
        ad['data'] = _nest(vals, shape) if size else np.zeros(shape).tolist()
    else:
        sc = scale if scale is not None else draw(
            st.sampled_from([1.0, 100.0, 0.01]))
        sc = min(sc, hi)
        ad['gen'] = {'seed': draw(st.integers(0, 2 ** 31 - 1)),
                     'scale': sc,
                     'kind': 'pos' if positive else 'normal'}
    return ad


# --------------------------------------------------------------------------
# spaces

SIZE_STRATA = [1, 2, 3, 4, 5, 7, 9, 99, 100, 101, 300]
LARGE_SIZES = [49999, 50000, 50001]
FLOAT_DTYPES = ['float64', 'float32', 'complex128', 'complex64']
INT_DTYPES = ['int64', 'int32', 'int8', 'uint8']


@st.composite
def shapes_for_size(draw, size, max_ndim=3):
    """A shape with exactly ``size`` entries (factorised at random)."""
    size = int(size)
    if size <= 1:
        nd = draw(st.integers(1, max_ndim))
        return [size] + [1] * (nd - 1)
    shape = []
    rest = size
    nd = draw(st.integers(1, max_ndim))
    for _ in range(nd - 1):
        divs = [d for d in range(1, min(rest, 64) + 1) if rest % d == 0]
        d = draw(st.sampled_from(divs))
        shape.append(d)
        rest //= d
    shape.append(rest)
    return draw(st.permutations(shape))


@st.composite
def small_shapes(draw, min_ndim=1, max_ndim=3, min_side=1, max_side=5,
                 max_size=40):
    nd = draw(st.integers(min_ndim, max_ndim))
    shape = []
    size = 1
    for _ in range(nd):
        hi = max(min_side, min(max_side, max_size // max(size, 1)))
        s = draw(st.integers(min_side, hi))
        shape.append(s)
        size *= s
    return shape


@st.composite
def weightings(draw, shape, kinds=('none', 'const', 'array')):
    kind = draw(st.sampled_from(list(kinds)))
    if kind == 'none':
        return None
    if kind == 'const':
        return {'type': 'const', 'value': draw(float_values(positive=True))}
    size = int(np.prod(shape, dtype=int))
    if size <= EXPLICIT_LIMIT:
        vals = draw(st.lists(float_values(positive=True), min_size=size,
                             max_size=size))
    else:
        rng = np.random.RandomState(draw(st.integers(0, 2 ** 31 - 1)))
        vals = [float(v) for v in np.round(rng.uniform(0.2, 3.0, size), 3)]
    return {'type': 'array', 'data': _nest(vals, tuple(shape))}


EXPONENTS = [2.0, 1.0, float('inf'), 1.5, 3.0]


@st.composite
def tensor_space_descs(draw, shapes=None, dtypes=FLOAT_DTYPES,
                       weighting_kinds=('none', 'const', 'array'),
                       exponents=(2.0,)):
    shape = draw(shapes if shapes is not None else small_shapes())
    dtype = draw(st.sampled_from(list(dtypes)))
    sd = {'kind': 'tensor', 'shape': list(shape), 'dtype': dtype}
    if np.dtype(dtype).kind in 'iu':
        sd['weighting'] = None
        sd['exponent'] = 2.0
        return sd
    sd['exponent'] = draw(st.sampled_from(list(exponents)))
    sd['weighting'] = draw(weightings(shape, weighting_kinds))
    return sd


LIMIT_VALUES = [0.0, 1.0, -1.0, 2.0, 4.0, -2.0, 0.5, 3.0, 10.0, -0.5]


@st.composite
def discr_space_descs(draw, shapes=None, dtypes=('float64', 'complex128',
                                                 'float32'),
                      exponents=(2.0,), nodes_on_bdry=True,
                      integer_cells=True, weighting_kinds=('none',)):
    shape = draw(shapes if shapes is not None else
                 small_shapes(max_ndim=3, max_side=5))
    nd = len(shape)
    mins, maxs = [], []
    for n in shape:
        lo = draw(st.sampled_from(LIMIT_VALUES) |
                  st.floats(-5, 5).map(_round))
        mode = draw(st.sampled_from(['unitcell', 'int', 'generic']
                                    if integer_cells else ['generic']))
        if mode == 'unitcell':
            ext = float(n)
        elif mode == 'int':
            ext = float(draw(st.integers(1, 8)))
        else:
            ext = draw(st.floats(0.1, 8.0).map(_round))
        mins.append(float(lo))
        maxs.append(float(lo) + ext)
    sd = {'kind': 'discr', 'min': mins, 'max': maxs, 'shape': list(shape),
          'dtype': draw(st.sampled_from(list(dtypes))),
          'exponent': draw(st.sampled_from(list(exponents)))}
    if nodes_on_bdry:
        style = draw(st.sampled_from(['false', 'false', 'true', 'per_side']))
        if style == 'false':
            sd['nodes_on_bdry'] = False
        elif style == 'true':
            sd['nodes_on_bdry'] = True
        else:
            nob = [[draw(st.booleans()), draw(st.booleans())]
                   for _ in range(nd)]
            sd['nodes_on_bdry'] = nob
        # a boundary node on both sides of a one-point axis is degenerate
        nob = sd['nodes_on_bdry']
        for i, n in enumerate(shape):
            both = (nob is True) or (isinstance(nob, list) and
                                     all(nob[i]))
            if n == 1 and both:
                if nob is True:
                    sd['nodes_on_bdry'] = False
                    break
                nob[i] = [nob[i][0], False]
    else:
        sd['nodes_on_bdry'] = False
    wk = draw(st.sampled_from(list(weighting_kinds)))
    sd['weighting'] = (None if wk == 'none' else
                       draw(weightings(shape, (wk,))))
    return sd


@st.composite
def pspace_descs(draw, leaves, max_depth=2, max_len=3, min_len=1,
                 weighting_kinds=('none', 'const', 'array'),
                 exponents=(2.0,)):
    depth = draw(st.integers(1, max_depth))

    def rec(d):
        if d == 0:
            return draw(leaves)
        power = draw(st.booleans())
        n = draw(st.integers(min_len, max_len))
        sd = {'kind': 'pspace'}
        if power:
            sd['base'] = rec(d - 1)
            sd['power'] = n
        else:
            sd['parts'] = [rec(draw(st.integers(0, d - 1)))
                           for _ in range(n)]
            sd['power'] = None
        wk = draw(st.sampled_from(list(weighting_kinds)))
        if wk == 'none':
            sd['weighting'] = None
        elif wk == 'const':
            sd['weighting'] = {'type': 'const',
                               'value': draw(float_values(positive=True))}
        else:
            sd['weighting'] = {'type': 'array', 'data': draw(
                st.lists(float_values(positive=True), min_size=n,
                         max_size=n))}
        sd['exponent'] = draw(st.sampled_from(list(exponents)))
        return sd

    return rec(depth)


@st.composite
def element_descs(draw, sd, orders=('C', 'F', 'strided', 'rev'),
                  positive=False, lo=-1e3, hi=1e3, scale=None):
    """Element descriptor (array descriptor, or nested list for pspaces)."""
    if sd['kind'] == 'pspace':
        return [draw(element_descs(p, orders, positive, lo, hi, scale))
                for p in build.space_parts(sd)]
    return draw(array_descs(build.space_shape(sd),
                            sd.get('dtype', 'float64'), orders=orders,
                            positive=positive, lo=lo, hi=hi, scale=scale))


def real_scalars():
    return st.one_of(
        st.sampled_from([0.0, 1.0, -1.0, 2.0, -0.5, 3.0, 0.25, -2.5]),
        st.floats(-30, 30, allow_nan=False).map(_round))


def nonzero_scalars():
    return real_scalars().filter(lambda v: abs(v) > 1e-3)
