"""Scratch tool: generate position-exact source mutants for selected functions.

Mutation operators (textual, applied at AST-located positions):
  AOR  swap arithmetic operator (+ <-> -, * <-> /)
  ROR  swap comparison (< <-> <=, > <-> >=, == <-> !=)
  CRP  numeric constant replacement (0<->1, 2->3, 0.5->1.5, -1 -> 1 ...)
  ASW  swap first two positional args of a call
  SDL  delete an expression/augassign/assign statement (replace by pass)
  CND  negate an if condition
  CPY  remove .copy()
"""
import ast, json, random, sys, os, re

ROOT = '/repo'


def line_offsets(src):
    offs = [0]
    for l in src.splitlines(True):
        offs.append(offs[-1] + len(l))
    return offs


def pos(offs, lineno, col):
    return offs[lineno - 1] + col


def seg(src, offs, node):
    return src[pos(offs, node.lineno, node.col_offset):pos(offs, node.end_lineno, node.end_col_offset)]


def gen_for_function(src, offs, fn, relfile, qualname):
    muts = []
    # byte offsets vs str offsets: ast col offsets are in UTF-8 bytes; files are ASCII mostly
    doc = ast.get_docstring(fn, clean=False)
    body_nodes = list(ast.walk(fn))
    docnode = fn.body[0] if (fn.body and isinstance(fn.body[0], ast.Expr) and isinstance(getattr(fn.body[0], 'value', None), ast.Constant) and isinstance(fn.body[0].value.value, str)) else None
    for node in body_nodes:
        if docnode is not None and node is docnode.value:
            continue
        if isinstance(node, ast.BinOp) and isinstance(node.op, (ast.Add, ast.Sub, ast.Mult, ast.Div)):
            a = pos(offs, node.left.end_lineno, node.left.end_col_offset)
            b = pos(offs, node.right.lineno, node.right.col_offset)
            between = src[a:b]
            sym = {ast.Add: '+', ast.Sub: '-', ast.Mult: '*', ast.Div: '/'}[type(node.op)]
            new = {'+': '-', '-': '+', '*': '/', '/': '*'}[sym]
            i = between.find(sym)
            if i >= 0 and between.count(sym) == 1 and '**' not in between and '//' not in between:
                muts.append(('AOR', a + i, a + i + 1, new, node.lineno))
        elif isinstance(node, ast.Compare) and len(node.ops) == 1:
            op = node.ops[0]
            table = {ast.Lt: ('<', '<='), ast.LtE: ('<=', '<'), ast.Gt: ('>', '>='), ast.GtE: ('>=', '>'), ast.Eq: ('==', '!='), ast.NotEq: ('!=', '==')}
            if type(op) in table:
                sym, new = table[type(op)]
                a = pos(offs, node.left.end_lineno, node.left.end_col_offset)
                b = pos(offs, node.comparators[0].lineno, node.comparators[0].col_offset)
                between = src[a:b]
                i = between.find(sym)
                if i >= 0 and between.strip() == sym:
                    muts.append(('ROR', a + i, a + i + len(sym), new, node.lineno))
        elif isinstance(node, ast.Constant) and isinstance(node.value, (int, float)) and not isinstance(node.value, bool):
            a = pos(offs, node.lineno, node.col_offset); b = pos(offs, node.end_lineno, node.end_col_offset)
            txt = src[a:b]
            v = node.value
            if v == 0: new = '1'
            elif v == 1: new = '0' if isinstance(v, int) else '0.0'
            elif v == 2: new = '3' if isinstance(v, int) else '3.0'
            elif v == 0.5: new = '1.5'
            elif v == -1: new = '1'
            else: new = repr(v + 1)
            if re.match(r'^[0-9.eE+-]+$', txt):
                muts.append(('CRP', a, b, new, node.lineno))
        elif isinstance(node, ast.Call) and len(node.args) >= 2 and not any(isinstance(x, ast.Starred) for x in node.args[:2]):
            a0, a1 = node.args[0], node.args[1]
            s0 = seg(src, offs, a0); s1 = seg(src, offs, a1)
            if s0 != s1 and '\n' not in s0 and '\n' not in s1:
                A = pos(offs, a0.lineno, a0.col_offset); B = pos(offs, a1.end_lineno, a1.end_col_offset)
                mid = src[pos(offs, a0.end_lineno, a0.end_col_offset):pos(offs, a1.lineno, a1.col_offset)]
                muts.append(('ASW', A, B, s1 + mid + s0, node.lineno))
        elif isinstance(node, (ast.AugAssign,)) or (isinstance(node, ast.Expr) and isinstance(node.value, ast.Call)):
            if docnode is not None and node is docnode:
                continue
            a = pos(offs, node.lineno, node.col_offset); b = pos(offs, node.end_lineno, node.end_col_offset)
            muts.append(('SDL', a, b, 'pass', node.lineno))
        elif isinstance(node, ast.If):
            t = node.test
            a = pos(offs, t.lineno, t.col_offset); b = pos(offs, t.end_lineno, t.end_col_offset)
            muts.append(('CND', a, b, 'not (' + src[a:b] + ')', node.lineno))
        if isinstance(node, ast.Call) and isinstance(node.func, ast.Attribute) and node.func.attr == 'copy' and not node.args:
            a = pos(offs, node.func.value.end_lineno, node.func.value.end_col_offset); b = pos(offs, node.end_lineno, node.end_col_offset)
            muts.append(('CPY', a, b, '', node.lineno))
    out = []
    for kind, a, b, new, lineno in muts:
        out.append(dict(file=relfile, func=qualname, kind=kind, a=a, b=b, new=new, line=lineno, orig=src[a:b]))
    return out


def collect(relfile, selectors):
    path = os.path.join(ROOT, relfile)
    srcb = open(path, 'rb').read()
    tree = ast.parse(srcb)
    # operate on a latin-1 view so that str offsets == byte offsets
    src = srcb.decode('latin-1')
    offs = line_offsets(src)
    res = []

    def visit(node, prefix):
        for ch in ast.iter_child_nodes(node):
            if isinstance(ch, (ast.FunctionDef,)):
                q = prefix + ch.name
                if any(re.fullmatch(sel, q) for sel in selectors):
                    res.extend(gen_for_function(src, offs, ch, relfile, q))
                visit(ch, q + '.')
            elif isinstance(ch, ast.ClassDef):
                visit(ch, prefix + ch.name + '.')
            else:
                visit(ch, prefix)
    visit(tree, '')
    return res


if __name__ == '__main__':
    spec = json.load(open(sys.argv[1]))   # {prop: [[file, [selectors...]], ...]}
    per_func = int(sys.argv[3]) if len(sys.argv) > 3 else 3
    rnd = random.Random(12345)
    allm = []
    for prop, items in spec.items():
        for relfile, selectors in items:
            ms = collect(relfile, selectors)
            # non-ascii guard: ensure positions are right
            byfunc = {}
            for m in ms:
                byfunc.setdefault(m['func'], []).append(m)
            for fn, lst in sorted(byfunc.items()):
                rnd.shuffle(lst)
                # prefer diversity of kinds
                seen = set(); pick = []
                for m in lst:
                    if m['kind'] not in seen or len(pick) < per_func:
                        if len(pick) >= per_func: break
                        pick.append(m); seen.add(m['kind'])
                for m in pick:
                    m['prop'] = prop
                    allm.append(m)
    for i, m in enumerate(allm):
        m['id'] = 'A%04d' % i
    json.dump(allm, open(sys.argv[2], 'w'), indent=1)
    import collections
    print(len(allm), collections.Counter(m['prop'] for m in allm))
