import sys; sys.path.insert(0, '/tmp/w')
import numpy as np, odl, collections, warnings, traceback
warnings.simplefilter('ignore')
from proto import *
from odl.util.ufuncs import RAW_UFUNCS
S = odl.solvers
rng = np.random.RandomState(0)
def rnd(space, lo=-1.0, hi=1.0, integer=False):
    n = rdim(space)
    v = rng.randint(1, 6, n).astype(float) if integer else rng.uniform(lo, hi, n)
    return unflat(v, space)
zoo = collections.OrderedDict()
def add(name, f, dom=(-1, 1), integer=False):
    zoo[name] = (f, dom, integer)
R3 = odl.rn(3); C3 = odl.cn(3); R3w = odl.rn(3, weighting=[1., 2., 3.]); D4 = odl.uniform_discr(0, 2, 4); D23 = odl.uniform_discr([0, 0], [1, 3], (2, 3)); I3 = odl.tensor_space(3, dtype=int)
DC = odl.uniform_discr(0, 1, 4, dtype=complex)
A34 = np.arange(12.).reshape(3, 4) + np.eye(3, 4)
add('Scaling', lambda: odl.ScalingOperator(R3, 2.5)); add('Identity', lambda: odl.IdentityOperator(D23)); add('LinComb', lambda: odl.LinCombOperator(R3, 2.0, -1.0))
add('Multiply elem', lambda: odl.MultiplyOperator(rnd(R3w))); add('Multiply field dom', lambda: odl.MultiplyOperator(rnd(R3), domain=odl.RealNumbers(), range=R3)); add('Multiply scalar', lambda: odl.MultiplyOperator(2.0, domain=R3, range=R3))
add('Power 2.5', lambda: odl.PowerOperator(R3, 2.5), (0.2, 2)); add('Power 3', lambda: odl.PowerOperator(D4, 3)); add('Power field', lambda: odl.PowerOperator(odl.RealNumbers(), 2.0), (0.2, 2))
add('InnerProduct', lambda: odl.InnerProductOperator(rnd(C3))); add('Norm', lambda: odl.NormOperator(R3w)); add('Dist', lambda: odl.DistOperator(rnd(D4)))
add('Constant', lambda: odl.ConstantOperator(rnd(R3))); add('Constant dom/ran', lambda: odl.ConstantOperator(rnd(R3), domain=D4)); add('Zero', lambda: odl.ZeroOperator(R3)); add('Zero dom/ran', lambda: odl.ZeroOperator(R3, D4))
add('RealPart', lambda: odl.RealPart(C3)); add('ImagPart', lambda: odl.ImagPart(C3)); add('RealPart real', lambda: odl.RealPart(R3)); add('ComplexEmbedding', lambda: odl.ComplexEmbedding(R3, 2 - 1j)); add('ComplexEmbedding c', lambda: odl.ComplexEmbedding(C3, 2 - 1j))
add('ComplexModulus', lambda: odl.ComplexModulus(C3)); add('ComplexModulusSq', lambda: odl.ComplexModulusSquared(C3))
add('ComplexModulus.deriv', lambda: odl.ComplexModulus(C3).derivative(rnd(C3))); add('ComplexModulus.deriv.adj', lambda: odl.ComplexModulus(C3).derivative(rnd(C3)).adjoint)
add('ComplexModulusSq.deriv', lambda: odl.ComplexModulusSquared(C3).derivative(rnd(C3))); add('ComplexModulusSq.deriv.adj', lambda: odl.ComplexModulusSquared(C3).derivative(rnd(C3)).adjoint)
add('PointwiseNorm 2', lambda: odl.PointwiseNorm(D4 ** 2)); add('PointwiseNorm 1', lambda: odl.PointwiseNorm(D4 ** 2, 1)); add('PointwiseNorm inf', lambda: odl.PointwiseNorm(D4 ** 2, np.inf)); add('PointwiseNorm 3 w', lambda: odl.PointwiseNorm(D4 ** 2, 3, weighting=[1., 2.])); add('PointwiseNorm cplx', lambda: odl.PointwiseNorm(DC ** 2))
add('PointwiseInner', lambda: odl.PointwiseInner(D4 ** 2, rnd(D4 ** 2))); add('PointwiseInner cplx', lambda: odl.PointwiseInner(DC ** 2, rnd(DC ** 2))); add('PointwiseInner.adj', lambda: odl.PointwiseInner(D4 ** 2, rnd(D4 ** 2), weighting=[1., 2.]).adjoint); add('PointwiseSum', lambda: odl.PointwiseSum(D4 ** 3))
add('Matrix', lambda: odl.MatrixOperator(A34)); add('Matrix axis1', lambda: odl.MatrixOperator(A34, domain=odl.rn((2, 4)), axis=1)); add('Matrix sparse', lambda: odl.MatrixOperator(__import__('scipy.sparse').sparse.csr_matrix(A34))); add('Matrix cplx', lambda: odl.MatrixOperator(A34 * (1 + 1j), domain=odl.cn(4)))
add('Sampling', lambda: odl.SamplingOperator(D23, [[0, 1, 1], [0, 2, 2]])); add('Sampling integrate', lambda: odl.SamplingOperator(D23, [[0, 1, 1], [0, 2, 2]], 'integrate')); add('WeightedSumSampling', lambda: odl.WeightedSumSamplingOperator(D23, [[0, 1, 1], [0, 2, 2]])); add('WeightedSumSampling dirac', lambda: odl.WeightedSumSamplingOperator(D23, [[0, 1, 1], [0, 2, 2]], 'dirac'))
add('Flattening', lambda: odl.FlatteningOperator(D23)); add('Flattening F', lambda: odl.FlatteningOperator(D23, 'F')); add('Flattening.inverse', lambda: odl.FlatteningOperator(D23, 'F').inverse)
PS = odl.ProductSpace(R3, D4, R3w)
add('PSO', lambda: odl.ProductSpaceOperator([[odl.ScalingOperator(R3, 2.0), 0], [None, odl.MatrixOperator(A34)], [odl.MatrixOperator(A34.T[:, :3]), odl.ufunc_ops.sin(odl.rn(4))]]))
add('PSO 2 per row', lambda: odl.ProductSpaceOperator([[odl.ScalingOperator(R3, 2.0), odl.ufunc_ops.exp(R3)]]))
add('ComponentProjection', lambda: odl.ComponentProjection(PS, 1)); add('ComponentProjection list', lambda: odl.ComponentProjection(PS, [0, 2])); add('ComponentProjectionAdjoint', lambda: odl.ComponentProjectionAdjoint(PS, 2))
add('Broadcast', lambda: odl.BroadcastOperator(odl.ScalingOperator(R3, 2.0), odl.ufunc_ops.exp(R3))); add('Reduction', lambda: odl.ReductionOperator(odl.ScalingOperator(R3, 2.0), odl.ufunc_ops.exp(R3))); add('Diagonal', lambda: odl.DiagonalOperator(odl.ScalingOperator(R3, 2.0), odl.ufunc_ops.exp(D4)))
for meth in ('forward', 'backward', 'central'):
    for pm in ('constant', 'symmetric', 'periodic', 'order0', 'order1', 'order2', 'order1_adjoint'):
        add('PartialDeriv %s %s' % (meth, pm), lambda meth=meth, pm=pm: odl.PartialDerivative(D23, 1, method=meth, pad_mode=pm, pad_const=(1.0 if pm == 'constant' else 0)))
add('Gradient', lambda: odl.Gradient(D23, pad_mode='symmetric')); add('Divergence', lambda: odl.Divergence(range=D23, pad_mode='order1')); add('Laplacian', lambda: odl.Laplacian(D23, pad_mode='periodic')); add('Laplacian const', lambda: odl.Laplacian(D23, pad_const=1.0))
add('Resampling', lambda: odl.Resampling(D4, odl.uniform_discr(0, 2, 7), 'linear')); add('Resampling nn', lambda: odl.Resampling(D23, odl.uniform_discr([0, 0], [1, 3], (3, 2)), ['nearest', 'linear']))
for pm in ('constant', 'symmetric', 'periodic', 'order0', 'order1'):
    add('Resizing %s' % pm, lambda pm=pm: odl.ResizingOperator(D23, ran_shp=(4, 2), offset=(1, 0), pad_mode=pm, pad_const=(2.0 if pm == 'constant' else 0)))
    add('Resizing %s adj' % pm, lambda pm=pm: odl.ResizingOperator(D23, ran_shp=(4, 2), offset=(1, 0), pad_mode=pm).adjoint)
for impl in ('numpy', 'pyfftw'):
    add('DFT c2c ' + impl, lambda impl=impl: odl.trafos.DiscreteFourierTransform(DC, impl=impl)); add('DFT r2hc ' + impl, lambda impl=impl: odl.trafos.DiscreteFourierTransform(odl.uniform_discr([0, 0], [1, 1], (3, 4)), halfcomplex=True, impl=impl, axes=(1,)))
    add('DFT inv ' + impl, lambda impl=impl: odl.trafos.DiscreteFourierTransform(DC, impl=impl).inverse); add('DFT r2hc inv ' + impl, lambda impl=impl: odl.trafos.DiscreteFourierTransform(odl.uniform_discr([0, 0], [1, 1], (3, 4)), halfcomplex=True, impl=impl).inverse)
    add('FT c2c ' + impl, lambda impl=impl: odl.trafos.FourierTransform(odl.uniform_discr(-1, 1, 6, dtype=complex), impl=impl)); add('FT r2hc ' + impl, lambda impl=impl: odl.trafos.FourierTransform(odl.uniform_discr([-1, -1], [1, 1], (4, 5)), impl=impl)); add('FT inv ' + impl, lambda impl=impl: odl.trafos.FourierTransform(odl.uniform_discr([-1, -1], [1, 1], (4, 5)), impl=impl).inverse)
add('Wavelet', lambda: odl.trafos.WaveletTransform(odl.uniform_discr([0, 0], [1, 1], (8, 6)), 'db2', nlevels=1)); add('Wavelet inv', lambda: odl.trafos.WaveletTransform(odl.uniform_discr([0, 0], [1, 1], (8, 6)), 'db2', nlevels=1).inverse); add('Wavelet adj', lambda: odl.trafos.WaveletTransform(odl.uniform_discr(0, 1, 8), 'haar', nlevels=2).adjoint)
DD = odl.uniform_discr([0, 0], [1, 1], (4, 5))
add('LinDeformFixedTempl', lambda: odl.deform.LinDeformFixedTempl(rnd(DD)), (-0.1, 0.1)); add('LinDeformFixedDisp', lambda: odl.deform.LinDeformFixedDisp(rnd(DD.tangent_bundle, -0.1, 0.1)))
add('RayTransform skimage', lambda: odl.tomo.RayTransform(odl.uniform_discr([-1, -1], [1, 1], (8, 8)), odl.tomo.parallel_beam_geometry(odl.uniform_discr([-1, -1], [1, 1], (8, 8)), 6, 12), impl='skimage'))
add('RayTransform skimage adj', lambda: odl.tomo.RayTransform(odl.uniform_discr([-1, -1], [1, 1], (8, 8)), odl.tomo.parallel_beam_geometry(odl.uniform_discr([-1, -1], [1, 1], (8, 8)), 6, 12), impl='skimage').adjoint)
for name in RAW_UFUNCS:
    uf = getattr(np, name); integer = ('shift' in name or 'bitwise' in name or name == 'invert')
    dom = (0.2, 0.9) if name in ('arccos', 'arcsin', 'arctanh', 'log', 'log2', 'log10', 'sqrt', 'reciprocal', 'log1p') else ((1.1, 3) if name == 'arccosh' else (-1, 1))
    add('ufunc ' + name, lambda name=name, integer=integer: getattr(odl.ufunc_ops, name)(I3 if integer else R3), dom, integer)
for fn, f in [('L1', lambda: S.L1Norm(D4)), ('L2', lambda: S.L2Norm(D4)), ('Huber', lambda: S.Huber(D4, 0.3)), ('KL', lambda: S.KullbackLeibler(D4, D4.one())), ('Quad', lambda: S.QuadraticForm(odl.MatrixOperator(A34[:, :3]), rnd(R3), 1.0)), ('GroupL1', lambda: S.GroupL1Norm(D4 ** 2)), ('L2sq∘exp', lambda: S.L2NormSquared(R3) * odl.ufunc_ops.exp(R3)), ('Product', lambda: S.FunctionalProduct(S.L2NormSquared(R3), S.L1Norm(R3))), ('Moreau', lambda: S.MoreauEnvelope(S.L1Norm(R3)))]:
    add('grad ' + fn, lambda f=f: f().gradient, (0.2, 1.0))
    if fn != 'Moreau': add('func ' + fn, f, (0.2, 1.0))
add('NumericalGradient', lambda: S.NumericalGradient(S.L2NormSquared(R3))); add('NumericalDerivative', lambda: S.NumericalDerivative(odl.ufunc_ops.exp(R3), rnd(R3)))
issues = collections.Counter(); ex = {}
def note(k, e): issues[k] += 1; ex.setdefault(k, e)
ok = 0
for name, (f, dom, integer) in zoo.items():
    try: op = f()
    except Exception as e:
        note(('BUILD', name, type(e).__name__), str(e)[:80]); continue
    try:
        for rep in range(3):
            x = rnd(op.domain, dom[0], dom[1], integer)
            isf = isinstance(op.domain, odl.set.sets.Field)
            xb = None if isf else flat(x, op.domain).copy()
            r = op(x)
            if r not in op.range: note(('result not in range', name), type(r).__name__)
            if not isf and not np.array_equal(flat(x, op.domain), xb, equal_nan=True): note(('x modified (oop)', name), None)
            if isinstance(op.range, odl.set.sets.Field):
                try:
                    op(x, out=0.0); note(('functional accepted out', name), None)
                except TypeError: pass
                except Exception as e: note(('functional out other exc', name, type(e).__name__), str(e)[:60])
                continue
            rf = flat(r, op.range)
            for fill in (np.nan, 7.25):
                y = unflat(np.full(rdim(op.range), 3.0), op.range)
                for a in leaf_arrays(y, op.range):
                    if a.dtype.kind in 'fc': a[...] = fill
                    else: a[...] = 7
                try:
                    r2 = op(x, out=y)
                except Exception as e:
                    note(('in-place EXC', name, type(e).__name__), str(e)[:80]); break
                if r2 is not y: note(('in-place returned other object', name), None)
                yf = flat(y, op.range)
                if not np.allclose(yf, rf, rtol=1e-12, atol=1e-12, equal_nan=True): note(('in-place != out-of-place', name, 'fill=%s' % fill), (np.abs(yf - rf).max(),))
                if not isf and not np.array_equal(flat(x, op.domain), xb, equal_nan=True): note(('x modified (ip)', name), None)
        ok += 1
    except Exception as e:
        note(('CALL EXC', name, type(e).__name__), str(e)[:90])
print('zoo size', len(zoo), 'completed', ok)
for k, v in sorted(issues.items(), key=lambda kv: str(kv[0])): print(v, k, '' if ex[k] is None else '  e.g. %s' % (ex[k],))
