"""Scratch: apply a mutant to a private copy and run a probe snippet against it."""
import json, os, shutil, subprocess, sys
ROOT = '/var/tmp/odlk'
def fresh():
    if os.path.exists(ROOT): shutil.rmtree(ROOT)
    os.makedirs(ROOT); shutil.copytree('/repo/odl', ROOT + '/odl')
def apply_text(m):
    p = os.path.join(ROOT, m['file']); s = open(p).read(); assert s.count(m['old']) == m.get('count', 1); open(p, 'w').write(s.replace(m['old'], m['new']))
def apply_pos(m):
    p = os.path.join(ROOT, m['file']); b = open(p, 'rb').read(); assert b[m['a']:m['b']].decode('latin-1') == m['orig']; open(p, 'wb').write(b[:m['a']] + m['new'].encode('latin-1') + b[m['b']:])
def run(snippet):
    r = subprocess.run(['/venv/bin/python', '-W', 'ignore', '-c', snippet], env=dict(os.environ, PYTHONPATH=ROOT + ':/tmp/w', PYTHONDONTWRITEBYTECODE='1'), capture_output=True, text=True, timeout=600, cwd='/tmp/w')
    return (r.stdout + r.stderr).strip().splitlines()[-6:]
if __name__ == '__main__':
    hand = {m['id']: m for m in json.load(open('/tmp/w/mut/m2.json'))}
    auto = {m['id']: m for m in json.load(open('/tmp/w/mut/auto.json'))}
    probes = json.load(open(sys.argv[1]))
    for mid, snippet in probes:
        fresh()
        if mid in hand: apply_text(hand[mid])
        elif mid in auto: apply_pos(auto[mid])
        elif mid != 'BASE': raise KeyError(mid)
        out = run(snippet)
        print('==', mid, (hand.get(mid) or auto.get(mid) or {}).get('descr', (auto.get(mid) or {}).get('func', '')))
        for l in out: print('   ', l[:200])
    shutil.rmtree(ROOT)
