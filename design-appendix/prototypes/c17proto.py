import numpy as np, odl, collections, sys, warnings
warnings.simplefilter('ignore')
from odl.util.ufuncs import RAW_UFUNCS
rng = np.random.RandomState(int(sys.argv[1]) if len(sys.argv) > 1 else 0)
issues = collections.Counter(); ex = {}
def note(k, e): issues[k] += 1; ex.setdefault(k, e)
def mkspace(kind, shape, dt):
    if kind == 'tensor': return odl.tensor_space(shape, dtype=dt)
    if kind == 'tensor_w': return odl.tensor_space(shape, dtype=dt, weighting=2.0) if dt != 'int64' and dt != 'bool' else odl.tensor_space(shape, dtype=dt)
    if kind == 'discr': return odl.uniform_discr([0]*len(shape), [1]*len(shape), shape, dtype=dt)
    if kind == 'pspace': return odl.ProductSpace(odl.tensor_space(shape[1:], dtype=dt), shape[0])
def rv(shape, dt):
    if dt == 'int64': return rng.randint(1, 9, size=shape)
    if dt == 'bool': return rng.rand(*shape) > .5
    a = np.round(rng.rand(*shape) * 3 + 0.25, 2)
    if dt == 'complex128': a = a + 1j * np.round(rng.rand(*shape), 2)
    return a.astype(dt)
def same(a, b):
    a = np.asarray(a); b = np.asarray(b)
    return a.shape == b.shape and a.dtype == b.dtype and np.array_equal(a, b, equal_nan=True) if a.dtype.kind in 'fc' else (a.shape == b.shape and a.dtype == b.dtype and np.array_equal(a, b))
N = int(sys.argv[2]) if len(sys.argv) > 2 else 4000
done = collections.Counter()
for it in range(N):
    name = RAW_UFUNCS[rng.randint(len(RAW_UFUNCS))]; uf = getattr(np, name)
    dt = rng.choice(['float64', 'float32', 'complex128', 'int64'])
    kind = rng.choice(['tensor', 'tensor_w', 'discr', 'pspace'])
    if kind == 'discr' and dt == 'int64': kind = 'tensor'
    shape = (2, 3)
    sp = mkspace(kind, shape, dt)
    arrs = [rv(shape, dt) for _ in range(uf.nin)]
    # applicable?
    try:
        with np.errstate(all='ignore'): ref_probe = uf(*arrs)
    except TypeError:
        continue
    method = rng.choice(['__call__', '__call__', 'reduce', 'accumulate', 'outer', 'at', 'reduceat', 'legacy'])
    x = sp.element(arrs[0].copy())
    others = []
    for a in arrs[1:]:
        form = rng.choice(['elem', 'ndarray', 'scalar'])
        if form == 'elem': others.append((sp.element(a.copy()), a))
        elif form == 'ndarray': others.append((a.copy(), a))
        else:
            s = a.flat[0].item(); others.append((s, np.asarray(s).astype(a.dtype)[()] if False else s))
    key = (method, kind, 'nin%d' % uf.nin, 'nout%d' % uf.nout)
    try:
        with np.errstate(all='ignore'):
            if method == '__call__':
                outk = rng.choice(['none', 'elem', 'ndarray']) if uf.nout == 1 else 'none'
                ref = uf(arrs[0], *[o[1] for o in others])
                if outk == 'none':
                    # randomly put ndarray first
                    got = uf(x, *[o[0] for o in others])
                else:
                    refd = np.asarray(ref)
                    if kind == 'pspace': continue
                    target = (sp.astype(refd.dtype).element() if outk == 'elem' else np.empty(refd.shape, refd.dtype))
                    got = uf(x, *[o[0] for o in others], out=target)
                    if got is not target: note(('out identity',) + key, (name, dt, outk))
                gots = got if isinstance(got, tuple) else (got,); refs = ref if isinstance(ref, tuple) else (ref,)
                for g_, r_ in zip(gots, refs):
                    if not same(np.asarray(g_), np.asarray(r_)): note(('VALUE',) + key, (name, dt, kind, np.asarray(g_), np.asarray(r_)))
                    if outk == 'none' and kind != 'pspace' and type(g_).__name__ != type(x).__name__: note(('result type',) + key, (name, dt, type(g_).__name__))
            elif method in ('reduce', 'accumulate', 'outer', 'reduceat', 'at'):
                if uf.nin != 2 or uf.nout != 1: continue
                if method == 'reduce':
                    kw = {}
                    ax = rng.choice(['default', '0', '1', '-1', 'None', '(0,1)'])
                    if ax != 'default': kw['axis'] = eval(ax)
                    if rng.rand() < .3: kw['keepdims'] = True
                    ref = uf.reduce(arrs[0], **kw); got = uf.reduce(x, **kw); key = key + ('axis=' + ax, 'keepdims' if 'keepdims' in kw else '')
                elif method == 'accumulate':
                    ax = int(rng.choice([0, 1, -1])); ref = uf.accumulate(arrs[0], axis=ax); got = uf.accumulate(x, axis=ax); key = key + ('axis=%d' % ax,)
                elif method == 'outer':
                    y = sp.element(arrs[1].copy()); ref = uf.outer(arrs[0], arrs[1]); got = uf.outer(x, y)
                elif method == 'reduceat':
                    ref = uf.reduceat(arrs[0], [0, 1], axis=1); got = uf.reduceat(x, [0, 1], axis=1)
                else:
                    a0 = arrs[0].copy(); uf.at(a0, ([0, 1], [1, 2]), arrs[1][0, :2]); ref = a0
                    r = uf.at(x, ([0, 1], [1, 2]), arrs[1][0, :2]); got = x
                if not same(np.asarray(got), np.asarray(ref)): note(('VALUE',) + key, (name, dt, kind, np.asarray(got), np.asarray(ref)))
            else:  # legacy
                if uf.nout != 1: 
                    got = getattr(x.ufuncs, name)(*[o[0] for o in others]); ref = uf(arrs[0], *[o[1] for o in others])
                    for g_, r_ in zip(got, ref):
                        if not same(np.asarray(g_), np.asarray(r_)): note(('VALUE',) + key, (name,))
                else:
                    got = getattr(x.ufuncs, name)(*[o[0] for o in others]); ref = uf(arrs[0], *[o[1] for o in others])
                    if not same(np.asarray(got), np.asarray(ref)): note(('VALUE',) + key, (name, dt, kind, np.asarray(got), np.asarray(ref)))
        done[method] += 1
        if not np.array_equal(np.asarray(x) if method != 'at' else np.asarray(ref), arrs[0] if method != 'at' else np.asarray(ref), equal_nan=True) and dt != 'int64': note(('input mutated',) + key, name)
    except Exception as e:
        note(('EXC', type(e).__name__) + key, (name, dt, str(e)[:90]))
print('done', dict(done))
for k, v in sorted(issues.items(), key=lambda kv: -kv[1])[:45]: print(v, k, '\n     e.g.', str(ex[k])[:230].replace('\n', ' '))
