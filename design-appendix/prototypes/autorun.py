import json, subprocess, sys, os, time, shutil, multiprocessing as mp
SRC = '/repo'
def setup(k):
    root = '/var/tmp/odlmutw%d' % k
    if os.path.exists(root): shutil.rmtree(root)
    os.makedirs(root)
    shutil.copytree(os.path.join(SRC, 'odl'), os.path.join(root, 'odl'))
    for f in ('setup.cfg', 'setup.py'): shutil.copy(os.path.join(SRC, f), root)
    return root
def work(args):
    k, muts, outpath, nproc = args
    root = setup(k)
    res = {}
    for m in muts:
        path = os.path.join(root, m['file'])
        orig = open(path, 'rb').read()
        a, b = m['a'], m['b']
        # offsets were computed on str; verify
        if orig[a:b].decode('latin-1') != m['orig']:
            res[m['id']] = {'status': 'OFFSET'}; continue
        open(path, 'wb').write(orig[:a] + m['new'].encode('latin-1') + orig[b:])
        t0 = time.time()
        try:
            # quick syntax check
            c = subprocess.run(['/venv/bin/python', '-c', 'import ast,sys; ast.parse(open(sys.argv[1]).read())', path], capture_output=True)
            if c.returncode != 0:
                status, tail = 'SYNTAX', []
            else:
                p = subprocess.run(['/venv/bin/python', '-m', 'pytest', '-q', '-x', '-p', 'no:cacheprovider', '--timeout=300', '-n', str(nproc)], cwd=root, env=dict(os.environ, PYTHONPATH=root, PYTHONDONTWRITEBYTECODE='1'), capture_output=True, text=True, timeout=900)
                tail = [l for l in p.stdout.splitlines() if ' passed' in l or ' failed' in l or ' error' in l][-1:]
                status = 'SURVIVED' if p.returncode == 0 else 'KILLED'
        except subprocess.TimeoutExpired:
            status, tail = 'TIMEOUT', []
        finally:
            open(path, 'wb').write(orig)
        res[m['id']] = {'status': status, 'tail': tail, 's': round(time.time() - t0, 1)}
        json.dump(res, open(outpath, 'w'))
    shutil.rmtree(root)
    return res
if __name__ == '__main__':
    muts = json.load(open(sys.argv[1])); W = int(sys.argv[3]); nproc = int(sys.argv[4])
    # interleave so all properties progress
    chunks = [muts[i::W] for i in range(W)]
    with mp.Pool(W) as pool:
        rs = pool.map(work, [(k, chunks[k], sys.argv[2] + '.w%d' % k, nproc) for k in range(W)])
    allr = {}
    for r in rs: allr.update(r)
    json.dump(allr, open(sys.argv[2], 'w'), indent=1)
    import collections
    print(collections.Counter(v['status'] for v in allr.values()))
