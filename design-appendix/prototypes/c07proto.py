import numpy as np, odl, warnings
from proto import *
warnings.simplefilter('ignore')
S = odl.solvers
rng = np.random.RandomState(3)
def rnd(space, scale=1.0):
    return unflat(scale * rng.randn(rdim(space)), space)

def cert(f, sigma, x, nprobe=200, feas=None, verbose=False):
    """Return (worst violation of F(z)-F(p) >= ||z-p||^2/(2 sigma), info)."""
    X = f.domain
    P = f.proximal(sigma)
    p = P(x)
    fp = f(p)
    if not np.isfinite(fp):
        return np.inf, 'f(p) not finite: %r' % fp
    def F(z):
        return f(z) + (z - x).norm() ** 2 / (2 * sigma)
    Fp = F(p)
    worst = 0.0; winfo = None; nfin = 0
    scale = max(p.norm(), x.norm(), 1.0)
    for i in range(nprobe):
        kind = i % 4
        if kind == 0:
            z = p + (10.0 ** -rng.randint(1, 7)) * scale * rnd(X)
        elif kind == 1:
            e = np.zeros(rdim(X)); e[rng.randint(rdim(X))] = rng.choice([-1, 1])
            z = p + (10.0 ** -rng.randint(1, 7)) * scale * unflat(e, X)
        elif kind == 2:
            t = rng.uniform(0, 1) ** 3
            z = p + t * (x - p)
        else:
            q = feas(rnd(X, 2.0)) if feas is not None else rnd(X, 2.0)
            t = rng.uniform(0, 1) ** 3
            z = p + t * (q - p)
        Fz = F(z)
        if not np.isfinite(Fz):
            continue
        nfin += 1
        gap = Fz - Fp - (z - p).norm() ** 2 / (2 * sigma)
        tol = 1e3 * np.finfo(float).eps * (1 + abs(Fp) + abs(Fz))
        if gap < -tol and -gap > worst:
            worst = -gap; winfo = (kind, float(gap), float((z - p).norm()))
    return worst, (winfo, nfin, float(fp), float((p - x).norm()))
