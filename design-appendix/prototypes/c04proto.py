import numpy as np, odl, collections, sys
S = odl.solvers
rng = np.random.RandomState(int(sys.argv[1]) if len(sys.argv) > 1 else 0)
issues = collections.Counter(); ex = {}
def note(k, e): issues[k] += 1; ex.setdefault(k, e)

class Node(object):
    """(odl_obj, ref_fn, kind, descr) where ref_fn maps ndarray -> ndarray/scalar"""
    def __init__(self, obj, ref, kind, descr, lin):
        self.obj, self.ref, self.kind, self.descr, self.lin = obj, ref, kind, descr, lin

def leaves(X):
    n = X.size
    M = np.round(rng.randn(n, n), 2)
    w = np.round(rng.randn(n), 2) + 0.1
    L = []
    L.append(Node(odl.IdentityOperator(X), lambda x: x, 'op', 'I', True))
    L.append(Node(odl.ScalingOperator(X, 1.5), lambda x: 1.5 * x, 'op', 'Scal1.5', True))
    L.append(Node(odl.MatrixOperator(M, domain=X, range=X), lambda x, M=M: M @ x, 'op', 'Mat', True))
    L.append(Node(odl.MultiplyOperator(X.element(w)), lambda x, w=w: w * x, 'op', 'Mul', True))
    L.append(Node(odl.ufunc_ops.sin(X), np.sin, 'op', 'sin', False))
    L.append(Node(odl.ufunc_ops.exp(X), np.exp, 'op', 'exp', False))
    L.append(Node(odl.ufunc_ops.square(X), np.square, 'op', 'sq', False))
    L.append(Node(odl.ConstantOperator(X.element(w)), lambda x, w=w: w + 0 * x, 'op', 'Const', False))
    L.append(Node(odl.ZeroOperator(X), lambda x: 0 * x, 'op', 'Zero', True))
    wt = X.weighting.const if hasattr(X.weighting, 'const') else 1.0
    L.append(Node(S.L2NormSquared(X), lambda x, wt=wt: wt * np.sum(x * x), 'fn', 'L2sq', False))
    L.append(Node(S.L1Norm(X), lambda x, wt=wt: wt * np.sum(np.abs(x)), 'fn', 'L1', False))
    L.append(Node(odl.InnerProductOperator(X.element(w)), lambda x, w=w, wt=wt: wt * np.sum(x * w), 'fn', 'Inner', True))
    return L

def gen(X, depth, want):
    """Random node of kind want ('op' X->X or 'fn' X->R)."""
    pool = [l for l in leaves(X) if l.kind == want]
    if depth == 0:
        return pool[rng.randint(len(pool))]
    a = float(rng.choice([0.0, 1.0, -1.0, 2.0, -0.5, 3.0]))
    v = np.round(rng.randn(X.size), 2) + 0.1; ve = X.element(v)
    if want == 'op':
        rule = rng.choice(['sum', 'diff', 'neg', 'lscal', 'rscal', 'div', 'comp', 'lvec', 'rvec', 'addvec', 'subvec', 'rsubvec', 'pow', 'pwprod', 'leaf', 'fnvec'])
        A = gen(X, depth - 1, 'op')
        if rule == 'leaf': return A
        if rule in ('sum', 'diff', 'comp', 'pwprod'):
            B = gen(X, depth - 1, 'op')
            if rule == 'sum': return Node(A.obj + B.obj, lambda x: A.ref(x) + B.ref(x), 'op', '(%s+%s)' % (A.descr, B.descr), A.lin and B.lin)
            if rule == 'diff': return Node(A.obj - B.obj, lambda x: A.ref(x) - B.ref(x), 'op', '(%s-%s)' % (A.descr, B.descr), A.lin and B.lin)
            if rule == 'comp': return Node(A.obj * B.obj, lambda x: A.ref(B.ref(x)), 'op', '(%s o %s)' % (A.descr, B.descr), A.lin and B.lin)
            if rule == 'pwprod': return Node(odl.OperatorPointwiseProduct(A.obj, B.obj), lambda x: A.ref(x) * B.ref(x), 'op', 'pw(%s,%s)' % (A.descr, B.descr), False)
        if rule == 'neg': return Node(-A.obj, lambda x: -A.ref(x), 'op', '(-%s)' % A.descr, A.lin)
        if rule == 'lscal': return Node(a * A.obj, lambda x: a * A.ref(x), 'op', '(%g*%s)' % (a, A.descr), A.lin)
        if rule == 'rscal': return Node(A.obj * a, lambda x: A.ref(a * x), 'op', '(%s*%g)' % (A.descr, a), A.lin)
        if rule == 'div':
            a2 = a if a != 0 else 2.0
            return Node(A.obj / a2, lambda x: A.ref(x / a2), 'op', '(%s/%g)' % (A.descr, a2), A.lin)
        if rule == 'lvec': return Node(ve * A.obj, lambda x: v * A.ref(x), 'op', '(v*%s)' % A.descr, A.lin)
        if rule == 'rvec': return Node(A.obj * ve, lambda x: A.ref(v * x), 'op', '(%s*v)' % A.descr, A.lin)
        if rule == 'addvec': return Node(A.obj + ve, lambda x: A.ref(x) + v, 'op', '(%s+v)' % A.descr, False)
        if rule == 'subvec': return Node(A.obj - ve, lambda x: A.ref(x) - v, 'op', '(%s-v)' % A.descr, False)
        if rule == 'rsubvec': return Node(ve - A.obj, lambda x: v - A.ref(x), 'op', '(v-%s)' % A.descr, False)
        if rule == 'pow':
            k = rng.randint(1, 4)
            def r(x, k=k):
                for _ in range(k): x = A.ref(x)
                return x
            return Node(A.obj ** k, r, 'op', '(%s**%d)' % (A.descr, k), A.lin)
        if rule == 'fnvec':
            F = gen(X, depth - 1, 'fn')
            return Node(ve * F.obj, lambda x: v * F.ref(x), 'op', '(v*%s)' % F.descr, F.lin)
    else:
        rule = rng.choice(['sum', 'lscal', 'rscal', 'comp', 'addc', 'rvec', 'leaf', 'diff', 'transl'])
        F = gen(X, depth - 1, 'fn')
        if rule == 'leaf': return F
        if rule in ('sum', 'diff'):
            G = gen(X, depth - 1, 'fn')
            if rule == 'sum': return Node(F.obj + G.obj, lambda x: F.ref(x) + G.ref(x), 'fn', '(%s+%s)' % (F.descr, G.descr), F.lin and G.lin)
            return Node(F.obj - G.obj, lambda x: F.ref(x) - G.ref(x), 'fn', '(%s-%s)' % (F.descr, G.descr), F.lin and G.lin)
        if rule == 'lscal': return Node(a * F.obj, lambda x: a * F.ref(x), 'fn', '(%g*%s)' % (a, F.descr), F.lin)
        if rule == 'rscal': return Node(F.obj * a, lambda x: F.ref(a * x), 'fn', '(%s*%g)' % (F.descr, a), F.lin)
        if rule == 'addc': return Node(F.obj + a, lambda x: F.ref(x) + a, 'fn', '(%s+%g)' % (F.descr, a), False)
        if rule == 'rvec': return Node(F.obj * ve, lambda x: F.ref(v * x), 'fn', '(%s*v)' % F.descr, F.lin)
        if rule == 'transl': return Node(F.obj.translated(ve), lambda x: F.ref(x - v), 'fn', '%s.tr(v)' % F.descr, False)
        if rule == 'comp':
            A = gen(X, depth - 1, 'op')
            return Node(F.obj * A.obj, lambda x: F.ref(A.ref(x)), 'fn', '(%s o %s)' % (F.descr, A.descr), F.lin and A.lin)

N = int(sys.argv[2]) if len(sys.argv) > 2 else 2000
spaces = [odl.rn(3), odl.rn(3, weighting=2.0), odl.uniform_discr(0, 1, 3)]
cnt = collections.Counter()
for it in range(N):
    X = spaces[rng.randint(len(spaces))]
    want = 'op' if rng.rand() < .7 else 'fn'
    depth = rng.randint(1, 4)
    try:
        node = gen(X, depth, want)
    except Exception as e:
        note(('BUILD', type(e).__name__, str(e)[:70]), None); continue
    x = np.round(rng.randn(3) * 0.7, 3)
    try:
        exp = node.ref(x)
        got = node.obj(X.element(x))
        got = np.asarray(got) if want == 'op' else float(got)
        ok = np.allclose(got, exp, rtol=1e-9, atol=1e-9, equal_nan=True) or (not np.all(np.isfinite(exp)))
        if not ok: note(('VALUE', want), (node.descr, x, got, exp))
        if want == 'op':
            out = X.element(np.full(3, np.nan)); node.obj(X.element(x), out=out)
            if not np.allclose(out.asarray(), exp, rtol=1e-9, atol=1e-9, equal_nan=True) and np.all(np.isfinite(exp)): note(('VALUE in-place',), (node.descr, x, out, exp))
        if node.obj.is_linear and not node.lin: note(('is_linear claimed but expr nonlinear by construction',), node.descr)
        cnt[(want, depth)] += 1
    except Exception as e:
        note(('EVAL', type(e).__name__, str(e)[:70]), node.descr)
print('evaluated', sum(cnt.values()), dict(cnt))
for k, v in sorted(issues.items(), key=lambda kv: -kv[1])[:25]: print(v, k, '\n     e.g.', ex[k])
