import numpy as np, odl, collections, itertools, sys
rng = np.random.RandomState(int(sys.argv[1]) if len(sys.argv) > 1 else 0)
issues = collections.Counter(); ex = {}
def note(k, e): issues[k]+=1; ex.setdefault(k, e)
def mk(space, layout, base=None):
    shape = space.shape; dt = space.dtype
    def rv(shp):
        if np.issubdtype(dt, np.integer): return rng.randint(-20, 20, size=shp).astype(dt)
        a = rng.randn(*shp)*rng.choice([1, 100, 1e-2])
        if np.issubdtype(dt, np.complexfloating): a = a + 1j*rng.randn(*shp)
        return a.astype(dt)
    if layout == 'C': arr = np.ascontiguousarray(rv(shape))
    elif layout == 'F': arr = np.asfortranarray(rv(shape))
    elif layout == 'strided':
        big = rv(tuple(2*s for s in shape)); arr = big[tuple(slice(None, None, 2) for _ in shape)]
    elif layout == 'rev':
        arr = rv(shape)[tuple(slice(None, None, -1) for _ in shape)]
    el = space.element(arr)
    assert np.shares_memory(el.asarray(), arr)
    return el
sizes = [1, 2, 7, 99, 100, 101, 300, 49999, 50000, 50001]
dtypes = ['float64', 'float32', 'complex128', 'complex64', 'int64', 'int32']
scal = {'0': 0, '1': 1, '-1': -1, 'gen': None}
N = int(sys.argv[2]) if len(sys.argv) > 2 else 3000
strata = collections.Counter()
for it in range(N):
    size = int(rng.choice(sizes, p=[.1,.1,.1,.1,.1,.1,.1,.1,.1,.1]))
    nd = rng.randint(1, 3) if size not in (1, 7, 101, 49999, 50001) else 1
    if nd == 2:
        f = [d for d in range(2, 60) if size % d == 0]
        shape = (f[rng.randint(len(f))], None) if f else (size,)
        shape = (shape[0], size//shape[0]) if len(shape) == 2 else shape
    else: shape = (size,)
    dt = rng.choice(dtypes)
    kind = rng.choice(['tensor', 'discr', 'pspace'], p=[.6, .2, .2])
    if kind == 'discr' and 'int' in dt: kind = 'tensor'
    if kind == 'tensor': space = odl.tensor_space(shape, dtype=dt)
    elif kind == 'discr': space = odl.uniform_discr([0]*len(shape), [1]*len(shape), shape, dtype=dt)
    else: space = odl.ProductSpace(odl.tensor_space(shape, dtype=dt), 2)
    isint = 'int' in dt; iscplx = 'complex' in dt
    def scalar(cls):
        if cls != 'gen': return scal[cls]
        if isint: return int(rng.randint(-5, 6))
        v = float(np.round(rng.randn()*rng.choice([1, 30, 0.05]), 4)) or 0.5
        if iscplx and rng.rand() < .5: v = complex(v, float(np.round(rng.randn(), 3)))
        return v
    ca, cb = rng.choice(list(scal)), rng.choice(list(scal))
    a, b = scalar(ca), scalar(cb)
    alias = rng.choice(['none', 'x1x2', 'outx1', 'outx2', 'all'])
    lays = [rng.choice(['C', 'F', 'strided', 'rev']) for _ in range(3)]
    def elem(lay):
        if kind == 'pspace': return space.element([mk(space[0], lay), mk(space[0], rng.choice(['C','F']))])
        if kind == 'discr': return space.element(mk(space.tspace, lay))
        return mk(space, lay)
    x1 = elem(lays[0]); x2 = x1 if alias in ('x1x2', 'all') else elem(lays[1])
    out = x1 if alias in ('outx1', 'all') else (x2 if alias == 'outx2' else elem(lays[2]))
    def arr(e): return np.array([np.array(p) for p in e]) if kind == 'pspace' else np.array(e.asarray())
    a1, a2 = arr(x1).copy(), arr(x2).copy()
    if alias == 'none':
        # stale fill
        if not isint:
            if kind == 'pspace':
                for p in out: p.asarray()[...] = np.nan
            else: out.asarray()[...] = np.nan
    ld = np.clongdouble if iscplx else np.longdouble
    ref = (ld(a) * a1.astype(ld) + ld(b) * a2.astype(ld))
    mag = abs(a)*np.abs(a1.astype(ld)) + abs(b)*np.abs(a2.astype(ld))
    regime = 'small' if size < 100 else ('medium' if size < 50000 else 'large')
    skey = (regime, 'int' if isint else ('cplx' if iscplx else 'real'), alias, kind)
    strata[skey] += 1
    try:
        res = space.lincomb(a, x1, b, x2, out=out)
    except Exception as e:
        note(('EXC', type(e).__name__, regime, 'int' if isint else 'float', alias if isint else ''), (shape, dt, kind, a, b, alias, lays, str(e)[:80])); continue
    if res is not out: note('identity', (shape, dt)); continue
    got = arr(out)
    eps = np.finfo(np.dtype(dt)).eps if not isint else 0
    if isint:
        bad = not np.array_equal(got, ref.astype(np.int64).astype(dt))
        worst = None
    else:
        err = np.abs(got.astype(ld) - ref)
        tol = 8*eps*mag + np.finfo(np.dtype(dt)).tiny
        bad = bool(np.any(~(err <= tol)))
        with np.errstate(all='ignore'): worst = float(np.nanmax(np.where(mag > 0, err/(eps*mag), 0))) if not bad else float(np.nanmax(np.where(mag>0, err/(eps*mag), np.where(err>0, np.inf, 0))))
    if bad: note(('VALUE', regime, 'int' if isint else ('cplx' if iscplx else 'real'), alias, 'a=%s' % ca, 'b=%s' % cb), (shape, dt, kind, a, b, alias, lays, worst))
    # operands untouched
    if alias in ('none', 'x1x2') or alias == 'outx2':
        if x1 is not out and not np.array_equal(arr(x1), a1, equal_nan=True): note(('x1 modified', regime, alias), (shape, dt, kind, a, b))
    if x2 is not out and not np.array_equal(arr(x2), a2, equal_nan=True): note(('x2 modified', regime, alias), (shape, dt, kind, a, b))
print('cases', N, 'strata hit', len(strata))
for k, v in sorted(issues.items(), key=lambda kv: -kv[1])[:40]: print(v, k, '\n     e.g.', ex[k])
