import numpy as np, odl, collections, sys, itertools, warnings
warnings.simplefilter('ignore')
from odl.set.sets import *
rng = np.random.RandomState(int(sys.argv[1]) if len(sys.argv) > 1 else 0)
issues = collections.Counter(); ex = {}
def note(k, e): issues[k] += 1; ex.setdefault(k, e)
W = np.array([1., 2., 3.])
def pool():
    P = []
    def add(name, f):
        try: P.append((name, f()))
        except Exception as e: note(('BUILD', name, type(e).__name__), str(e)[:80])
    for twin in range(2):
        add('R', lambda: RealNumbers()); add('C', lambda: ComplexNumbers()); add('Z', lambda: Integers())
        add('Str3', lambda: Strings(3)); add('Str4', lambda: Strings(4)); add('Empty', lambda: EmptySet()); add('Univ', lambda: UniversalSet())
        add('Cart(R,Z)', lambda: CartesianProduct(RealNumbers(), Integers())); add('Cart(Z,R)', lambda: CartesianProduct(Integers(), RealNumbers()))
        add('Union(R,Z)', lambda: SetUnion(RealNumbers(), Integers())); add('Union(Z,R)', lambda: SetUnion(Integers(), RealNumbers())); add('Inter(R,Z)', lambda: SetIntersection(RealNumbers(), Integers()))
        add('Fin(1,2)', lambda: FiniteSet(1, 2)); add('Fin(2,1)', lambda: FiniteSet(2, 1)); add('Fin(1,2,3)', lambda: FiniteSet(1, 2, 3))
        add('Intv(0,1)', lambda: odl.IntervalProd(0, 1)); add('Intv(-0,1)', lambda: odl.IntervalProd(-0.0, 1)); add('Intv2', lambda: odl.IntervalProd([0, 0], [1, 1])); add('Intv3', lambda: odl.IntervalProd([0, 0, 0], [1, 1, 1])); add('Intv(0,2)', lambda: odl.IntervalProd(0, 2))
        add('Grid(0,1)', lambda: odl.RectGrid([0., 1.])); add('Grid(-0,1)', lambda: odl.RectGrid([-0., 1.])); add('Grid2', lambda: odl.RectGrid([0., 1.], [0., 1.])); add('Grid(0,.5,1)', lambda: odl.RectGrid([0., .5, 1.]))
        add('Part(0,1,2)', lambda: odl.uniform_partition(0, 1, 2)); add('Part(0,1,2,bdry)', lambda: odl.uniform_partition(0, 1, 2, nodes_on_bdry=True)); add('Part2', lambda: odl.uniform_partition([0, 0], [1, 1], (2, 2))); add('Part nonuni', lambda: odl.nonuniform_partition([0.25, 0.75]))
        add('wNpConst2', lambda: odl.rn(3, weighting=2.0).weighting); add('wNpConst1', lambda: odl.rn(3).weighting); add('wNpConst2 p1', lambda: odl.rn(3, weighting=2.0, exponent=1).weighting)
        add('wPsConst2', lambda: odl.ProductSpace(odl.rn(3), 3, weighting=2.0).weighting); add('wPsConst1', lambda: odl.ProductSpace(odl.rn(3), 3).weighting)
        add('wNpArr(W)', lambda: odl.rn(3, weighting=W).weighting); add('wNpArr(copy)', lambda: odl.rn(3, weighting=W.copy()).weighting); add('wPsArr(W)', lambda: odl.ProductSpace(odl.rn(3), 3, weighting=W).weighting)
        add('wNpInner', lambda: odl.rn(3, inner=np.vdot).weighting); add('wNpNorm', lambda: odl.rn(3, norm=np.linalg.norm).weighting); add('wNpDist', lambda: odl.rn(3, dist=lambda a, b: 0.0).weighting)
        add('rn3', lambda: odl.rn(3)); add('rn3 f32', lambda: odl.rn(3, dtype='float32')); add('cn3', lambda: odl.cn(3)); add('int3', lambda: odl.tensor_space(3, dtype=int)); add('rn(3,1)', lambda: odl.rn((3, 1))); add('rn3 w2', lambda: odl.rn(3, weighting=2.0)); add('rn3 p1', lambda: odl.rn(3, exponent=1))
        add('rn3 wW', lambda: odl.rn(3, weighting=W)); add('rn3 wWcopy', lambda: odl.rn(3, weighting=W.copy())); add('rn3 inner', lambda: odl.rn(3, inner=np.vdot)); add('str3', lambda: odl.tensor_space(3, dtype='U2'))
        add('discr(0,1,3)', lambda: odl.uniform_discr(0, 1, 3)); add('discr(-0,1,3)', lambda: odl.uniform_discr(-0.0, 1, 3)); add('discr bdry', lambda: odl.uniform_discr(0, 1, 3, nodes_on_bdry=True)); add('discr cplx', lambda: odl.uniform_discr(0, 1, 3, dtype=complex)); add('discr w1', lambda: odl.uniform_discr(0, 1, 3, weighting=1.0)); add('discr(0,3,3)', lambda: odl.uniform_discr(0, 3, 3))
        add('ps rn3^2', lambda: odl.ProductSpace(odl.rn(3), 2)); add('ps rn3 x rn3', lambda: odl.ProductSpace(odl.rn(3), odl.rn(3))); add('ps rn3^2 w2', lambda: odl.ProductSpace(odl.rn(3), 2, weighting=2.0)); add('ps rn3^2 wArr', lambda: odl.ProductSpace(odl.rn(3), 2, weighting=[1., 2.])); add('ps rn3^2 p1', lambda: odl.ProductSpace(odl.rn(3), 2, exponent=1)); add('ps nested', lambda: odl.ProductSpace(odl.ProductSpace(odl.rn(3), 2), odl.rn(2))); add('ps empty', lambda: odl.ProductSpace(field=RealNumbers())); add('ps rn3^3', lambda: odl.ProductSpace(odl.rn(3), 3))
    return P
P = pool()
n = len(P); half = n // 2
print('pool size', n)
E = {}
for i, (na, a) in enumerate(P):
    try:
        h = hash(a)
    except Exception as e:
        note(('HASH EXC', na, type(e).__name__), str(e)[:60])
    try:
        if not (a == a): note(('not reflexive', na), None)
        if (a != a): note(('ne inconsistent', na), None)
    except Exception as e:
        note(('EQ self EXC', na, type(e).__name__), str(e)[:60])
    for foreign in (None, 1, 'abc', object, np.zeros(3), [1, 2]):
        try:
            r = (a == foreign)
            if r is True or (not isinstance(r, (bool, np.bool_))): note(('eq foreign not False', na, type(foreign).__name__), repr(r)[:60])
        except Exception as e:
            note(('eq foreign EXC', na, type(foreign).__name__, type(e).__name__), str(e)[:60])
for i, j in itertools.product(range(n), repeat=2):
    (na, a), (nb, b) = P[i], P[j]
    try:
        e1 = bool(a == b)
    except Exception as e:
        note(('EQ EXC', na, nb, type(e).__name__), str(e)[:70]); continue
    E[(i, j)] = e1
for i, j in itertools.combinations(range(n), 2):
    if (i, j) in E and (j, i) in E:
        na, nb = P[i][0], P[j][0]
        if E[(i, j)] != E[(j, i)]: note(('not symmetric', na, nb), (E[(i, j)], E[(j, i)]))
        if E[(i, j)]:
            try:
                if hash(P[i][1]) != hash(P[j][1]): note(('equal but hash differs', na, nb), None)
            except Exception: pass
            if na != nb: note(('DIFFERENT DESCRIPTORS EQUAL', na, nb), None)
        else:
            if na == nb and 'copy' not in na: note(('TWINS NOT EQUAL', na), None)
# transitivity
for i, j, k in itertools.product(range(n), repeat=3):
    if E.get((i, j)) and E.get((j, k)) and E.get((i, k)) is False: note(('not transitive', P[i][0], P[j][0], P[k][0]), None)
for k, v in sorted(issues.items(), key=lambda kv: str(kv[0])): print(v, k, '' if ex[k] is None else '   e.g. %s' % (ex[k],))
