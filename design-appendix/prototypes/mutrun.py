"""Apply each mutant (file, old, new) to scratch copy, run suite fail-fast, record survival."""
import json, subprocess, sys, os, time
ROOT = '/var/tmp/odlmut'
muts = json.load(open(sys.argv[1]))
out = sys.argv[2]
res = json.load(open(out)) if os.path.exists(out) else {}
for m in muts:
    mid = m['id']
    if mid in res: continue
    path = os.path.join(ROOT, m['file'])
    src = open(path).read()
    cnt = src.count(m['old'])
    if cnt != m.get('count', 1):
        res[mid] = {'status': 'NOMATCH', 'count': cnt}; print(mid, 'NOMATCH', cnt); continue
    open(path, 'w').write(src.replace(m['old'], m['new']))
    t0 = time.time()
    try:
        p = subprocess.run(['/venv/bin/python', '-m', 'pytest', '-q', '-x', '-p', 'no:cacheprovider', '--timeout=600', '-n', '12'], cwd=ROOT, env=dict(os.environ, PYTHONPATH=ROOT, PYTHONDONTWRITEBYTECODE='1'), capture_output=True, text=True, timeout=900)
        tail = [l for l in p.stdout.splitlines() if ' passed' in l or ' failed' in l or l.startswith('FAILED') or l.startswith('ERROR')][-3:]
        status = 'SURVIVED' if p.returncode == 0 else 'KILLED'
    except subprocess.TimeoutExpired:
        status, tail = 'TIMEOUT', []
    finally:
        open(path, 'w').write(src)
    res[mid] = {'status': status, 'tail': tail, 's': round(time.time() - t0, 1)}
    print(mid, status, tail[-1] if tail else '', flush=True)
    json.dump(res, open(out, 'w'), indent=1)
subprocess.run(['git', 'status', '--short'], cwd=ROOT)
