"""Scratch prototype helpers (NOT framework code): flatten / gram / matrices."""
import numpy as np
import odl
from odl.space.pspace import ProductSpace
from odl.set.sets import Field, RealNumbers, ComplexNumbers


def is_complex_space(space):
    if isinstance(space, Field):
        return isinstance(space, ComplexNumbers)
    if isinstance(space, ProductSpace):
        return len(space) > 0 and space.field == ComplexNumbers()
    return space.field == ComplexNumbers()


def leaf_arrays(x, space):
    """Yield leaf numpy arrays (views) of element x."""
    if isinstance(space, Field):
        yield np.atleast_1d(np.asarray(x))
    elif isinstance(space, ProductSpace):
        for xi, si in zip(x, space.spaces):
            for a in leaf_arrays(xi, si):
                yield a
    else:
        yield np.asarray(x)


def flat(x, space):
    """Real-ified flat vector of element x of space."""
    parts = []
    for a in leaf_arrays(x, space):
        a = np.asarray(a).ravel()
        if np.iscomplexobj(a) or is_complex_space(space):
            a = a.astype(complex)
            parts.append(np.stack([a.real, a.imag], axis=-1).ravel())
        else:
            parts.append(a.astype(float))
    return np.concatenate(parts) if parts else np.zeros(0)


def rdim(space):
    if isinstance(space, Field):
        return 2 if isinstance(space, ComplexNumbers) else 1
    if isinstance(space, ProductSpace):
        return sum(rdim(s) for s in space.spaces)
    return space.size * (2 if space.is_complex else 1)


def unflat(v, space):
    """Element of space from real-ified flat vector."""
    v = np.asarray(v, dtype=float)
    if isinstance(space, Field):
        if isinstance(space, ComplexNumbers):
            return complex(v[0], v[1])
        return float(v[0])
    if isinstance(space, ProductSpace):
        parts, pos = [], 0
        for s in space.spaces:
            n = rdim(s)
            parts.append(unflat(v[pos:pos + n], s))
            pos += n
        return space.element(parts)
    if space.is_complex:
        c = v.reshape(-1, 2)
        arr = (c[:, 0] + 1j * c[:, 1]).reshape(space.shape)
    else:
        arr = v.reshape(space.shape)
    return space.element(arr.astype(space.dtype))


def sinner(space, x, y):
    if isinstance(space, Field):
        return x * np.conj(y)
    return space.inner(x, y)


def gram(space):
    n = rdim(space)
    E = [unflat(np.eye(n)[k], space) for k in range(n)]
    G = np.empty((n, n))
    for i in range(n):
        for j in range(n):
            G[i, j] = np.real(sinner(space, E[j], E[i]))
    return G


def opmatrix(op):
    n, m = rdim(op.domain), rdim(op.range)
    zero = op(unflat(np.zeros(n), op.domain))
    off = flat(zero, op.range)
    M = np.empty((m, n))
    for k in range(n):
        e = unflat(np.eye(n)[k], op.domain)
        M[:, k] = flat(op(e), op.range) - off
    return M, off


def adjoint_defect(op):
    """Return relative defect of N^T G_X = G_Y M."""
    adj = op.adjoint
    M, off = opmatrix(op)
    N, offa = opmatrix(adj)
    GX, GY = gram(op.domain), gram(op.range)
    lhs = N.T @ GX
    rhs = GY @ M
    scale = max(np.abs(rhs).max(), np.abs(lhs).max(), 1e-300)
    return np.abs(lhs - rhs).max() / scale, np.abs(off).max(), np.abs(offa).max()
