"""C06 - ``derivative(x)`` is the Frechet derivative of the operator at x.

Generator: (a) a *zoo* of every operator class that implements
``derivative`` with its options (all ten ``ufunc_ops`` with a closed-form
derivative and the five flagged linear, ``PowerOperator`` on spaces and
fields, ``PointwiseNorm/Inner/Sum``, ``ComplexModulus(Squared)``,
``RealPart/ImagPart/ComplexEmbedding``, ``Norm/Dist/InnerProductOperator``,
``ConstantOperator``, finite-difference operators and ``ResizingOperator``
with non-zero constant padding (affine), gradient operators that offer a
Hessian, ...) with base points kept at a generated margin from the documented
non-differentiable set; (b) nonlinear expression trees from the typed grammar
of ``vlib.exprs`` (sum / chain / product rules, left and right scalar and
vector multiples, affine shifts, powers, explicit ``tmp`` arguments) including
``ProductSpaceOperator / Broadcast / Reduction / DiagonalOperator`` with
nonlinear blocks; (c) exhaustively, every ufunc operator without a
closed-form derivative must raise ``OpNotImplementedError``.
Oracle: central-difference ladder with an observed-order test against
``op.derivative(x)(d)``; ``D.is_linear`` (and numerically), ``D.domain``,
``D.range``; operators flagged linear are their own derivative; affine ones
have the matrix of their linear part.
"""
import numpy as np
from hypothesis import strategies as st

from vlib import exprs as ex, flat
from vlib.core import Violation, Outcome, HarnessError, crash_signature

odl = ex.odl
from odl.operator.operator import OpNotImplementedError  # noqa: E402

PROPERTY = 'C06'
TECHNIQUE = ('Hypothesis property-based testing: operator zoo x options x '
             'base points with margin x directions and typed expression '
             'trees, decided by a central-difference ladder with an '
             'observed-order test; exhaustive enumeration of the ufunc '
             'operators that must not offer a derivative; descriptor replay')
LEVEL_TEXT = ('Generated-input search over every operator class with a '
              'derivative (zoo, options, spaces: real / complex / weighted / '
              'discretized / float32 / product) and over random nonlinear '
              'expression trees (chain, sum, product rules, scalar and vector '
              'multiples, product-space block operators). derivative(x)(d) is '
              'compared with central differences of the operator itself on a '
              'ladder of step sizes; the error must reach the rounding-limited '
              'accuracy and fall at second order on the way. Exploration, not '
              'proof; the sub-space "ufunc operator without closed-form '
              'derivative raises OpNotImplementedError" is enumerated '
              'completely.')
LEVEL_NOTE = ('Trusted: NumPy, Hypothesis, evaluation of the operators '
              '(pinned by C03/C04), vlib.exprs builder. LinDeformFixedTempl '
              'is exempt by the property text; functional gradients are '
              "C09's; NumericalDerivative / NumericalGradient.derivative are "
              'numerical estimates by design and not asserted.')
DESIGN_REF = 'DESIGN.md section 5, C06'
BUDGET = {'quick': 3000, 'thorough': 40000}
TOLERANCES = {
    'fd': 'min_k |q(h_k) - D(d)|_max <= 2048*eps^(2/3)*S, S = max(|D(d)|, '
          '|q|, |op(x)|)_max; h_k = h0*r^-k, k = 0..5 (float64: h0=2^-3, '
          'r=8; float32: h0=2^-2, r=4), base point and direction normalised '
          'to max-norm <= 2 resp. 1; 2048*eps^(2/3) = 7.6e-8 (float64), '
          '5e-2 (float32)',
    'order': 'best slope log(e_j/e_min)/log(h_j/h_min) over j before the '
             'minimum >= 1.5, unless e_0 <= 1e4*eps*S (difference quotient '
             'exact: affine / quadratic maps)',
    'linear': '|D(a d1 + c d2) - a D(d1) - c D(d2)|_max <= 256*eps*(|a| '
              '|D d1| + |c| |D d2|)',
    'self-derivative': '|D(d) - op(d)|_max <= 64*eps*|op(d)|_max for '
                       'operators flagged linear',
    'affine-matrix': 'matrix of D equals matrix of op (flat.opmatrix) up to '
                     '256*eps*max|M|, real dimension <= 24',
    'margin': 'base points (and every intermediate value inside a tree) stay '
              '>= 0.25 (relative distance for poles) away from the '
              'non-differentiable set of each leaf; h0*|d| <= margin/2',
}
ASSUMPTIONS = [
    'evaluation of operators and of expression trees is correct (C03, C04); '
    'the difference quotient uses the operator itself',
    'complex operators are differentiated along real-ified directions '
    '(complex direction, real step): this is the documented C = R^2 sense '
    'and coincides with the complex derivative for holomorphic maps',
    'data entries in [-2, 2]; trees whose reference value overflows or that '
    'come within the margin of a non-differentiable set are counted trivial',
    'exempt: LinDeformFixedTempl (property text), Functional.derivative '
    '(C09), NumericalDerivative (estimate by design)',
]
RULE = ('Hypothesis draws (type table, zoo entry with options | expression '
        'tree of depth <= 3, base point, 2-3 directions). Non-trivial = the '
        'operator is not linear by construction (nonlinear leaf or affine '
        'shift) and the difference ladder was evaluated; distinct by sha1 of '
        'the descriptor')
EXHAUSTIVE = {
    'quick': ['all 72 odl.ufunc_ops on rn(3) / cn(2) / integer space: the '
              'ten with closed-form derivative are offered, the five flagged '
              'linear return themselves, every other one raises '
              'OpNotImplementedError'],
    'thorough': ['all 72 odl.ufunc_ops on rn(3) / cn(2) / integer space: the '
                 'ten with closed-form derivative are offered, the five '
                 'flagged linear return themselves, every other one raises '
                 'OpNotImplementedError'],
}

MARGIN = 0.25
UFUNCS_DERIV = ['sin', 'cos', 'tan', 'sqrt', 'square', 'log', 'exp',
                'reciprocal', 'sinh', 'cosh']
UFUNCS_LIN1 = ['negative', 'rad2deg', 'deg2rad']
UFUNCS_LIN2 = ['add', 'subtract']
POS_UFUNCS = ('sqrt', 'log', 'reciprocal')


# --------------------------------------------------------------------------
# extra leaves of the zoo

def _b_resize(env, node):
    a = node['args']
    return odl.ResizingOperator(env.set(node['dom']),
                                ran_shp=tuple(a['shape']),
                                offset=tuple(a['offset']),
                                pad_mode=a['pad_mode'],
                                pad_const=a['pad_const'])


def _b_rosenbrock_grad(env, node):
    return odl.solvers.RosenbrockFunctional(
        env.set(node['dom']), scale=node['args']['scale']).gradient


def _b_l1grad(env, node):
    return odl.solvers.L1Norm(env.set(node['dom'])).gradient


def _b_fcompgrad(env, node):
    a = node['args']
    ti = env.info(node['dom'])
    m = ex.vbuild.array_values(a['m'], dtype=ti.dtype,
                               shape=tuple(a['m']['shape']))
    A = odl.MatrixOperator(m, domain=env.set(node['dom']),
                           range=env.set(a['mid']))
    f = odl.solvers.L2NormSquared(env.set(a['mid']))
    return (f * A).gradient


def _b_ufunc_lin(env, node):
    return getattr(odl.ufunc_ops, node['args']['name'])(env.set(node['dom']))


ex.EXTRA_LEAF_BUILDERS.update({
    'resize': _b_resize, 'rosenbrock_grad': _b_rosenbrock_grad,
    'l1grad': _b_l1grad, 'fcompgrad': _b_fcompgrad,
    'ufunc_lin': _b_ufunc_lin})
ex.EXTRA_MARGINS['l1grad'] = lambda env, node, x: ex._minabs(x)
ex.LINEAR_LEAVES.update({'ufunc_lin', 'fcompgrad'})


# --------------------------------------------------------------------------
# strategy

ROOTS = [('X', 'X')] * 6 + [('X', 'Y'), ('Y', 'X'), ('X', 'F'), ('X', 'F'),
                             ('F', 'X'), ('F', 'F'), ('XX', 'X'), ('XX', 'X'),
                             ('X', 'P'), ('X', 'P'), ('P', 'X'), ('P', 'X'),
                             ('P', 'P'), ('P', 'P'), ('Pw', 'Pw'), ('P', 'Pw'),
                             ('Pw', 'P'), ('X', 'XX'), ('XX', 'XX'),
                             ('X', 'G'), ('G', 'X'), ('G', 'G'), ('XX', 'F'),
                             ('P', 'F'), ('X', 'Xr'), ('X', 'Xr'),
                             ('Xr', 'X'), ('X', 'R'), ('Xr', 'R')]


@st.composite
def _zoo(draw, types):
    """(leaf node, constraint on the base point) of one zoo entry."""
    X = ex.tinfo(types, 'X')
    cplx = X.cplx
    entries = ['ufunc'] * 6 + ['power'] * 3 + ['fpower', 'cmod', 'cmodsq',
                                               'norm', 'dist', 'inner',
                                               'constant', 'ufunc_lin',
                                               'realpart', 'imagpart',
                                               'pwnorm', 'pwnorm', 'pwnorm',
                                               'pwinner', 'pwsum',
                                               'pnorm', 'pdist', 'l1grad']
    if not cplx:
        entries += ['ufunc_lin2', 'lincomb', 'fcompgrad']
        # (float32: known finding C06-K5, excluded by construction)
        if X.cat == 'leaf' and len(X.shape) == 1 and X.shape[0] >= 2 and \
                types['X']['kind'] == 'tensor' and X.dtype == 'float64':
            entries += ['rosenbrock_grad'] * 2
    else:
        entries += ['cembed', 'cembed_r']
    if X.discr:
        if max(X.shape) >= 3:
            entries += ['partial'] * 2
        if min(X.shape) >= 3:
            entries += ['laplacian'] * 3
            if 'G' in types:
                entries += ['gradient', 'divergence'] * 2
        entries += ['resize'] * 2
    kind = draw(st.sampled_from(entries))
    cons = None

    def leaf(k, dom, ran, **args):
        return {'op': 'leaf', 'kind': k, 'dom': dom, 'ran': ran,
                'args': args, 'fk': 'op'}

    if kind == 'ufunc':
        name = draw(st.sampled_from(UFUNCS_DERIV))
        cons = 'pos' if name in POS_UFUNCS else (
            'small' if name == 'tan' else None)
        return leaf('ufunc', 'X', 'X', name=name), cons
    if kind == 'power':
        p = draw(st.sampled_from([2, 3, 1, 0.5, -1, 2.5, 0, -2, 1.5]))
        if cplx:
            p = draw(st.sampled_from([2, 3, 1, -1, 0, -2]))
        cons = None if (p == int(p) and p >= 0) else 'pos'
        return leaf('power', 'X', 'X', p=p), cons
    if kind == 'fpower':
        p = draw(st.sampled_from([2, 3, 1, 0.5, -1, 2.5]))
        if cplx:
            p = draw(st.sampled_from([2, 3, 1, -1]))
        cons = None if (p == int(p) and p >= 0) else 'pos'
        return leaf('fpower', 'F', 'F', p=p), cons
    if kind in ('cmod', 'cmodsq', 'realpart', 'imagpart'):
        return leaf(kind, 'X', 'Xr' if cplx else 'X'), (
            'nonzero' if kind == 'cmod' else None)
    if kind in ('norm', 'dist', 'pnorm', 'pdist'):
        dom = draw(st.sampled_from(['P', 'Pw', 'XX'])) if kind[0] == 'p' \
            else 'X'
        k = kind.lstrip('p') if kind[0] == 'p' else kind
        ran = 'R' if cplx else 'F'
        args = {}
        if k == 'dist':
            args['v'] = draw(ex.values(types, dom))
        return leaf(k, dom, ran, **args), None
    if kind == 'inner':
        dom = draw(st.sampled_from(['X', 'P', 'XX']))
        return leaf('inner', dom, 'F', v=draw(ex.values(types, dom)),
                    how=draw(st.sampled_from(['ctor', 'T']))), None
    if kind == 'constant':
        dom, ran = draw(st.sampled_from([('X', 'X'), ('X', 'Y'),
                                         ('P', 'X')]))
        return leaf('constant', dom, ran, v=draw(ex.values(types, ran)),
                    zero=draw(st.sampled_from([False, False, True]))), None
    if kind == 'ufunc_lin':
        names = ['negative'] if cplx else UFUNCS_LIN1
        return leaf('ufunc_lin', 'X', 'X',
                    name=draw(st.sampled_from(names))), None
    if kind == 'ufunc_lin2':
        if not (types['XX']['n'] == 2 and types['XX'].get('default')):
            return leaf('ufunc_lin', 'X', 'X', name='negative'), None
        return leaf(draw(st.sampled_from(['ufunc_add', 'ufunc_subtract'])),
                    'XX', 'X'), None
    if kind == 'lincomb':
        if not (types['XX']['n'] == 2 and types['XX'].get('default')):
            return leaf('identity', 'X', 'X'), None
        return leaf('lincomb', 'XX', 'X', a=draw(ex.scalars(False)),
                    b=draw(ex.scalars(False))), None
    if kind == 'pwnorm':
        n = int(types['XX']['n'])
        p = draw(st.sampled_from([None, 2.0, 1.0, 1.5, 3.0, 2.5, 1.0,
                                  float('inf')]))
        w = draw(st.sampled_from([None, None, 2.0, [1.0, 2.0, 0.5][:n],
                                  [3.0, 1.0, 1.5][:n]]))
        return leaf('pwnorm', 'XX', 'X', exponent=p, weighting=w), 'nonzero'
    if kind in ('pwinner', 'pwsum'):
        n = int(types['XX']['n'])
        w = draw(st.sampled_from([None, None, 2.0, [1.0, 2.0, 0.5][:n]]))
        args = {'weighting': w}
        if kind == 'pwinner':
            args['v'] = draw(ex.values(types, 'XX'))
        return leaf(kind, 'XX', 'X', **args), None
    if kind == 'l1grad':
        return leaf('l1grad', 'Xr' if cplx else 'X',
                    'Xr' if cplx else 'X'), 'nonzero'
    if kind == 'fcompgrad':
        if len(X.shape) != 1:
            return leaf('identity', 'X', 'X'), None
        m = draw(ex.array_descs((types['Y']['shape'][0], X.shape[0]),
                                X.dtype, -1.5, 1.5))
        return leaf('fcompgrad', 'X', 'X', m=m, mid='Y'), None
    if kind == 'rosenbrock_grad':
        return leaf('rosenbrock_grad', 'X', 'X',
                    scale=draw(st.sampled_from([100.0, 1.0, 2.5]))), None
    if kind == 'cembed':
        return leaf('cembed', 'X', 'X', s=draw(ex.scalars(True,
                                                          nonzero=True))), None
    if kind == 'cembed_r':
        return leaf('cembed', 'Xr', 'X',
                    s=draw(ex.scalars(True, nonzero=True))), None
    pad_const = draw(st.sampled_from([0.0, 1.0, -0.5, 2.0, 1.5]))
    if kind == 'partial':
        return leaf('partial', 'X', 'X',
                    axis=draw(st.sampled_from(
                        [i for i, n in enumerate(X.shape) if n >= 3])),
                    method=draw(st.sampled_from(ex.DIFF_METHODS)),
                    pad_mode='constant', pad_const=pad_const), None
    if kind == 'laplacian':
        return leaf('laplacian', 'X', 'X', pad_mode='constant',
                    pad_const=pad_const), None
    if kind in ('gradient', 'divergence'):
        dom, ran = ('X', 'G') if kind == 'gradient' else ('G', 'X')
        return leaf(kind, dom, ran,
                    method=draw(st.sampled_from(ex.DIFF_METHODS)),
                    pad_mode='constant', pad_const=pad_const), None
    if kind == 'resize':
        shape = [max(1, n + draw(st.sampled_from([2, 1, -1, 3, 0])))
                 for n in X.shape]
        offset = [draw(st.sampled_from([0, 1, 2])) for _ in X.shape]
        types['Z'] = {'kind': 'resize_of', 'of': 'X', 'shape': shape,
                      'offset': offset, 'fkey': 'F'}
        return leaf('resize', 'X', 'Z', shape=shape, offset=offset,
                    pad_mode='constant', pad_const=pad_const), None
    raise HarnessError('zoo entry ' + kind)


def _flip(ed, signs, pos=None):
    """Multiply the entries of an element descriptor by the +-1 pattern
    ``signs`` (cyclic); keeps |entries| (used for 'nonzero' base points)."""
    pos = pos if pos is not None else [0]

    def f(v):
        if isinstance(v, list):
            return [f(w) for w in v]
        sg = signs[pos[0] % len(signs)]
        pos[0] += 1
        return v * sg
    if isinstance(ed, list):
        return [_flip(e, signs, pos) for e in ed]
    if isinstance(ed, dict):
        out = dict(ed)
        if 'data' in out:
            out['data'] = f(out['data'])
        return out
    return f(ed)


@st.composite
def _nonzero_points(draw, types, key):
    ed = draw(ex.values(types, key, lo=0.3, hi=2.0, positive=True))
    signs = draw(st.lists(st.sampled_from([1.0, -1.0]), min_size=1,
                          max_size=8))
    return _flip(ed, signs)


def _point_strategy(types, key, cons):
    if cons == 'nonzero':
        return _nonzero_points(types, key)
    if cons == 'pos':
        return ex.values(types, key, lo=0.3, hi=2.0, positive=True)
    if cons == 'small':
        return ex.values(types, key, lo=-1.1, hi=1.1)
    return ex.values(types, key)


@st.composite
def _strategy(draw, tier):
    types = draw(ex.base_types(pspaces=True))
    what = draw(st.sampled_from(['zoo', 'zoo', 'tree', 'tree', 'tree']))
    cons = None
    if what == 'zoo':
        tree, cons = draw(_zoo(types))
        # sometimes wrap the zoo entry in one arithmetic node so that the
        # rule of the expression class meets this leaf's derivative
    else:
        pairs = ex.inhabited_pairs(types, 'c06')
        roots = [r for r in ROOTS if r in pairs]
        dom, ran = draw(st.sampled_from(roots))
        depth = draw(st.sampled_from([1, 2, 2, 3, 3]))
        tree = draw(ex.trees(types, dom, ran, depth, 'c06', pairs))
    dom = tree['dom']
    desc = {'types': types, 'tree': tree, 'what': what,
            'x': draw(_point_strategy(types, dom, cons)),
            'dirs': [draw(ex.values(types, dom, -1.0, 1.0))
                     for _ in range(draw(st.sampled_from([1, 2])))],
            'special': draw(st.sampled_from(['coord', 'x', 'none'])),
            'coord': draw(st.sampled_from(list(range(24)))),
            'lin': [draw(ex.scalars(False, classes=['generic'])),
                    draw(ex.scalars(False, classes=['generic']))]}
    return desc


def strategy(tier):
    return _strategy(tier)


def enumerate_cases(tier):
    from odl.util.ufuncs import UFUNCS
    cases = []
    for name, nin, nout, _ in UFUNCS:
        for space in ('real', 'cplx', 'int'):
            cases.append({'what': 'ufunc-enum', 'name': name, 'nin': nin,
                          'nout': nout, 'space': space})
    return cases


# --------------------------------------------------------------------------
# helpers

def _cls(obj):
    return type(obj).__name__


def _site(b):
    """Root-cause key of a derivative failure: the class whose
    ``derivative`` was called (leaf kind + option for leaves)."""
    node = b.node
    if node['op'] == 'leaf':
        a = node['args']
        extra = ''
        if node['kind'] == 'ufunc':
            extra = ':' + a['name']
        elif node['kind'] in ('power', 'fpower'):
            extra = ':p=' + ('int' if float(a['p']).is_integer() else 'frac')
        elif node['kind'] == 'pwnorm':
            extra = ':p={}'.format(a.get('exponent'))
        return '{}{}'.format(_cls(b.obj), extra)
    return _cls(b.obj)


def _region(env, node):
    di, ri = env.info(node['dom']), env.info(node['ran'])
    return '{}->{}|{}'.format(di.cat, ri.cat,
                              'cplx' if (di.cplx or ri.cplx) else 'real')


def _eval(env, b, xval):
    """op(x) as NumPy value (x a NumPy value)."""
    y = b.obj(env.element(b.node['dom'], xval))
    return ex.to_np(y, env.set(b.node['ran']))


def _normalise_dir(d):
    m = ex.vmaxabs(d)
    if m == 0:
        return None
    return ex.vmap(lambda p: p / (p.dtype.type(m) if isinstance(
        p, np.ndarray) else m), d)


def _ladder(eps):
    if eps > 1e-10:      # float32
        return [2.0 ** -(2 + 2 * k) for k in range(6)]
    return [2.0 ** -(3 + 3 * k) for k in range(6)]


def fd_errors(env, b, D, x, d, eps):
    """(errors e_k, hs, S, Dd) of the central-difference ladder."""
    dom, ran = b.node['dom'], b.node['ran']
    Dd_el = D(env.element(dom, d))
    if Dd_el not in env.set(ran):
        raise Violation('C06|result-space|{}|{}'.format(
            _site(b), _region(env, b.node)),
            'D(d) is not an element of op.range: {!r}'.format(type(Dd_el)))
    Dd = ex.to_np(Dd_el, env.set(ran))
    fx = _eval(env, b, x)
    S = max(ex.vmaxabs(Dd), ex.vmaxabs(fx), 1e-300)
    errs, hs = [], _ladder(eps)
    qmax = 0.0
    for h in hs:
        xp = ex.vadd(x, ex.vscale(h, d))
        xm = ex.vsub(x, ex.vscale(h, d))
        fp, fm = _eval(env, b, xp), _eval(env, b, xm)
        q = ex.vmap(lambda p, m: (p - m) / (2 * h), fp, fm)
        qmax = max(qmax, ex.vmaxabs(q) if ex.vfinite(q) else 0.0)
        e = ex.vmaxabs(ex.vsub(q, Dd)) if ex.vfinite(q) else np.inf
        errs.append(e)
    S = max(S, qmax)
    return errs, hs, S, Dd


def judge(errs, hs, S, eps):
    """None if the ladder accepts D(d), else a text."""
    tol = 2048.0 * eps ** (2.0 / 3.0) * S
    k = int(np.argmin(errs))
    emin = errs[k]
    if not emin <= tol:
        return 'min error {:.3g} > tol {:.3g} (S={:.3g}); ladder {}'.format(
            emin, tol, S, ' '.join('{:.2g}'.format(e) for e in errs))
    if errs[0] <= 1e4 * eps * S:
        return None
    best = 0.0
    for j in range(k):
        if errs[j] > 0 and emin > 0 and np.isfinite(errs[j]):
            best = max(best, np.log(errs[j] / emin) / np.log(hs[j] / hs[k]))
        elif emin == 0:
            best = np.inf
    if k == 0 or best < 1.5:
        # a minimum at the largest step that is already within a small
        # multiple of the rounding floor is fine as well
        if emin <= 1e4 * eps * S / hs[k]:
            return None
        return 'observed order {:.2f} < 1.5; ladder {}'.format(
            best, ' '.join('{:.2g}'.format(e) for e in errs))
    return None


class Tracer(ex.Interp):
    def __init__(self, *args, **kwargs):
        super(Tracer, self).__init__(*args, **kwargs)
        self.inputs = {}

    def ev(self, b, x):
        self.inputs.setdefault(id(b), x)
        return super(Tracer, self).ev(b, x)


def _generic_dir(env, key, x):
    """A deterministic direction for localisation: normalised (1 + x/2)."""
    d = ex.vmap(lambda p: (p * 0.5 + 1) if isinstance(p, np.ndarray)
                else p * 0.5 + 1, x)
    return _normalise_dir(d)


def _localise(env, root, x, eps, mode, exc_type=None):
    """Smallest subtree whose own derivative fails (``mode`` 'fd') or raises
    (``mode`` 'crash') at the point it receives inside the root evaluation."""
    tr = Tracer(env)
    try:
        tr.ev(root, x)
    except Exception:  # noqa
        return root
    order = []

    def post(b):
        for k in b.kids:
            if k is not None:
                post(k)
        order.append(b)
    post(root)
    for b in order:
        if id(b) not in tr.inputs or b is root:
            continue
        xb = tr.inputs[id(b)]
        try:
            D = b.obj.derivative(env.element(b.node['dom'], xb))
        except (NotImplementedError,) as e:
            if mode == 'crash' and isinstance(e, exc_type):
                return b
            continue
        except Exception as e:  # noqa
            if mode == 'crash' and isinstance(e, exc_type):
                return b
            continue
        if mode != 'fd':
            continue
        try:
            d = _generic_dir(env, b.node['dom'], xb)
            if d is None:
                continue
            errs, hs, S, _ = fd_errors(env, b, D, xb, d, eps)
            if judge(errs, hs, S, eps) is not None:
                return b
        except Exception:  # noqa
            continue
    return root


def _nonlinear_by_construction(tree):
    return not ex.true_linear(tree)


# --------------------------------------------------------------------------
# exhaustive part: ufunc operators

def _run_ufunc_enum(desc):
    name, nin = desc['name'], desc['nin']
    integer_only = ('shift' in name or 'bitwise' in name or name == 'invert')
    if desc['space'] == 'real':
        space = odl.rn(3)
        x = [0.6, 1.2, 0.9]
    elif desc['space'] == 'cplx':
        space = odl.cn(2)
        x = [0.6 + 0.3j, 1.2 - 0.4j]
    else:
        space = odl.tensor_space(3, dtype=int)
        x = [1, 2, 3]
    try:
        op = getattr(odl.ufunc_ops, name)(space)
    except (TypeError, ValueError):
        # no signature for this dtype: the operator does not exist there
        return Outcome('rejected', strata=['ufunc-enum:no-signature'])
    if integer_only and desc['space'] != 'int':
        return Outcome('rejected', strata=['ufunc-enum:no-signature'])
    point = op.domain.element([x] * nin if nin == 2 else x)
    strata = ['ufunc-enum:' + desc['space']]
    if name in UFUNCS_DERIV:
        if desc['space'] == 'int':
            return Outcome('trivial', strata=['ufunc-enum:int-skip'])
        D = op.derivative(point)
        if not D.is_linear:
            raise Violation('C06|deriv-flag|{}_op|enum'.format(name),
                            'derivative not flagged linear')
        return Outcome('ok', strata=strata + ['ufunc-enum:offered'],
                       nontrivial=False)
    if name in UFUNCS_LIN1 + UFUNCS_LIN2:
        if not op.is_linear:
            raise Violation('C06|linear-flag|{}_op|enum'.format(name),
                            'documented linear ufunc not flagged linear')
        D = op.derivative(point)
        if D is not op:
            raise Violation('C06|self-derivative|{}_op|enum'.format(name),
                            'linear ufunc operator is not its own derivative')
        return Outcome('ok', strata=strata + ['ufunc-enum:linear'],
                       nontrivial=False)
    if op.is_linear:
        raise Violation('C06|linear-flag|{}_op|enum'.format(name),
                        'nonlinear ufunc operator flagged linear')
    try:
        D = op.derivative(point)
    except OpNotImplementedError:
        return Outcome('ok', strata=strata + ['ufunc-enum:not-offered'],
                       nontrivial=True)
    raise Violation('C06|offered-unexpectedly|{}_op|enum'.format(name),
                    'ufunc operator without closed-form derivative returned '
                    '{!r}'.format(_cls(D)))


# --------------------------------------------------------------------------
# the case

def run_case(desc):
    if desc.get('what') == 'ufunc-enum':
        return _run_ufunc_enum(desc)
    types = desc['types']
    env = ex.Env(types)
    tree = desc['tree']
    dom, ran = tree['dom'], tree['ran']
    eps = env.eps
    depth = ex.tree_depth(tree)
    reg = _region(env, tree)

    try:
        root = ex.build(env, tree)
    except ex.BuildFailure as bf:
        if bf.where != 'odl':
            raise bf.exc
        raise Violation('C06|build|{}|{}|{}'.format(
            bf.site, _region(env, bf.node), type(bf.exc).__name__),
            'constructing {} failed: {}: {}'.format(
                bf.pattern, type(bf.exc).__name__, str(bf.exc)[:300]))
    op = root.obj
    x = env.np_value(dom, desc['x'])

    # strata ---------------------------------------------------------------
    X = types['X']
    strata = ['what:' + desc['what'],
              'field:' + ('cplx' if 'Xr' in types else 'real'),
              'space:' + X['kind'], 'dtype:' + X['dtype'],
              'weighting:' + ((X.get('weighting') or {'type': 'none'})['type']),
              'root:{}->{}'.format(dom, ran), 'depth:{}'.format(depth)]
    for b in ex.walk(root):
        node = b.node
        if node['op'] == 'leaf':
            strata.append('leaf:' + _site(b))
        else:
            strata.append('class:' + _cls(b.obj))
            strata.append('ctor:{}:{}'.format(node['op'],
                                              node.get('how', 'op')))
            for k in b.kids:
                if k is not None and k.node['op'] != 'leaf':
                    strata.append('nest:{}<{}'.format(_cls(b.obj),
                                                      _cls(k.obj)))
    if desc['what'] == 'zoo':
        a = tree['args']
        if a.get('pad_const'):
            strata.append('affine:pad_const')
        if tree['kind'] == 'pwnorm':
            strata.append('pwnorm:w={}'.format(
                type(a.get('weighting')).__name__))

    # margin from the non-differentiable sets (all leaves, at the values
    # they receive) ---------------------------------------------------------
    try:
        fx = ex.Interp(env, margin=MARGIN).ev(root, x)
    except ex.NearNondiff:
        return Outcome('trivial', strata=['trivial:near-nondiff'])
    if not ex.vfinite(fx) or ex.vmaxabs(fx) > 1e6:
        return Outcome('trivial', strata=['trivial:overflow'])

    # derivative -------------------------------------------------------------
    xe = env.element(dom, x)
    try:
        D = op.derivative(xe)
    except NotImplementedError as e:     # includes OpNotImplementedError
        documented = _documented_not_offered(env, root)
        if documented:
            return Outcome('rejected', strata=strata + [
                'not-offered:' + documented])
        culprit = _localise(env, root, x, eps, 'crash', type(e))
        raise Violation('C06|not-offered|{}|{}'.format(
            _site(culprit), _region(env, culprit.node)),
            'derivative raised {}: {} (culprit {} inside {})'.format(
                type(e).__name__, str(e)[:200], ex.node_pattern(culprit),
                ex.node_pattern(root)))
    except (Violation, HarnessError):
        raise
    except Exception as e:  # noqa
        where, csig = crash_signature(PROPERTY, e)
        if where != 'odl':
            raise
        culprit = _localise(env, root, x, eps, 'crash', type(e))
        raise Violation('C06|derivative-crash|{}|{}|{}|{}'.format(
            _site(culprit), _region(env, culprit.node), type(e).__name__,
            csig.split('|')[-1]),
            '{}: {} (culprit {} inside {})'.format(
                type(e).__name__, str(e)[:300], ex.node_pattern(culprit),
                ex.node_pattern(root)))

    site = _site(root)
    if not isinstance(D, ex.Operator):
        raise Violation('C06|deriv-type|{}|{}'.format(site, reg),
                        'derivative(x) is a {!r}'.format(type(D)))
    if not D.is_linear:
        culprit = _flag_culprit(env, root, x)
        raise Violation('C06|deriv-flag|{}|{}'.format(_site(culprit), reg),
                        'derivative(x).is_linear is False ({})'.format(
                            _cls(D)))
    if D.domain != op.domain:
        raise Violation('C06|deriv-domain|{}|{}'.format(site, reg),
                        'D.domain {!r} != op.domain {!r}'.format(
                            D.domain, op.domain))
    if D.range != op.range:
        culprit = _range_culprit(env, root, x)
        raise Violation('C06|deriv-range|{}|{}'.format(_site(culprit),
                                                       _region(
                                                           env, culprit.node)),
                        'D.range {!r} != op.range {!r}'.format(
                            D.range, op.range))

    # directions -------------------------------------------------------------
    dirs = [env.np_value(dom, d) for d in desc['dirs']]
    if desc['special'] == 'x':
        dirs.append(x)
    elif desc['special'] == 'coord':
        flatx = ex.vflat(x)
        if flatx.size:
            dirs.append(_coord_dir(x, desc['coord'] % flatx.size))
    dirs = [d for d in (_normalise_dir(d) for d in dirs) if d is not None]
    if not dirs:
        return Outcome('trivial', strata=['trivial:zero-direction'])

    def guard(fn, what, d):
        try:
            return fn()
        except (Violation, HarnessError):
            raise
        except Exception as e:  # noqa
            where, csig = crash_signature(PROPERTY, e)
            if where != 'odl':
                raise
            raise Violation('C06|{}|{}|{}|{}|{}'.format(
                what, site, reg, type(e).__name__, csig.split('|')[-1]),
                '{}: {}'.format(type(e).__name__, str(e)[:300]))

    # operators flagged linear are their own derivative
    if op.is_linear:
        for d in dirs:
            de = env.element(dom, d)
            Dd = ex.to_np(guard(lambda: D(de), 'deriv-call', d),
                          env.set(ran))
            od = _eval(env, root, d)
            err = ex.vmaxabs(ex.vsub(Dd, od))
            if not err <= 64 * eps * max(ex.vmaxabs(od), 1e-300) + 1e-300:
                culprit = _linear_culprit(env, root)
                raise Violation('C06|self-derivative|{}|{}'.format(
                    _site(culprit), _region(env, culprit.node)),
                    'operator is flagged linear but derivative(x)(d) != '
                    'op(d): error {:.3g} (|op(d)| = {:.3g})'.format(
                        err, ex.vmaxabs(od)))
        strata.append('linear-flagged')

    # ladder ----------------------------------------------------------------
    for i, d in enumerate(dirs):
        errs, hs, S, Dd = guard(lambda: fd_errors(env, root, D, x, d, eps),
                                'deriv-call', d)
        verdict = judge(errs, hs, S, eps)
        if verdict is not None:
            culprit = _localise(env, root, x, eps, 'fd')
            raise Violation('C06|fd|{}|{}'.format(
                _site(culprit), _region(env, culprit.node)),
                'direction {}: {}; D(d)={} ; culprit {} inside {}'.format(
                    i, verdict, np.array2string(ex.vflat(Dd)[:5],
                                                precision=5),
                    ex.node_pattern(culprit), ex.node_pattern(root)))

    # D is numerically (real-)linear -------------------------------------------
    if len(dirs) >= 2:
        a = ex.scalar_value(desc['lin'][0])
        c = ex.scalar_value(desc['lin'][1])
        d1, d2 = dirs[0], dirs[1]
        comb = ex.vadd(ex.vscale(a, d1), ex.vscale(c, d2))
        y = [ex.to_np(guard(lambda v=v: D(env.element(dom, v)),
                            'deriv-call', v), env.set(ran))
             for v in (d1, d2, comb)]
        expect = ex.vadd(ex.vscale(a, y[0]), ex.vscale(c, y[1]))
        tol = 256 * eps * (abs(a) * ex.vmaxabs(y[0]) +
                           abs(c) * ex.vmaxabs(y[1])) + 1e-300
        err = ex.vmaxabs(ex.vsub(y[2], expect))
        if not err <= tol:
            raise Violation('C06|deriv-nonlinear|{}|{}'.format(site, reg),
                            'D(a d1 + c d2) != a D(d1) + c D(d2): error '
                            '{:.3g} tol {:.3g}'.format(err, tol))
        strata.append('deriv-linearity-checked')

    # affine operators: matrix of D = matrix of the linear part -----------------
    if desc['what'] == 'zoo' and tree['args'].get('pad_const') and \
            ex.rdim(types, dom) <= 24 and ex.rdim(types, ran) <= 24:
        M, off = flat.opmatrix(op)
        MD, offD = flat.opmatrix(D)
        scale = max(np.abs(M).max(initial=0), 1e-300)
        if np.abs(offD).max(initial=0) > 256 * eps * scale or \
                np.abs(M - MD).max(initial=0) > 256 * eps * scale:
            raise Violation('C06|affine-matrix|{}|{}'.format(site, reg),
                            'matrix of derivative differs from the linear '
                            'part by {:.3g}'.format(
                                np.abs(M - MD).max(initial=0)))
        strata.append('affine-matrix-checked')

    nontriv = _nonlinear_by_construction(tree)
    return Outcome('ok', strata=strata, nontrivial=nontriv,
                   notes={'directions': len(dirs)})


def _coord_dir(x, idx):
    """Unit coordinate direction ``idx`` with the structure of ``x``."""
    counter = [0]

    def f(p):
        if isinstance(p, np.ndarray):
            z = np.zeros_like(p)
            n = p.size
            if counter[0] <= idx < counter[0] + n:
                z.flat[idx - counter[0]] = 1
            counter[0] += n
            return z
        hit = counter[0] == idx
        counter[0] += 1
        return type(p)(1.0 if hit else 0.0)
    return ex.vmap(f, x)


def _documented_not_offered(env, root):
    """Documented 'not offered' configurations (PointwiseNorm on complex
    spaces or with exponent inf) occurring in the tree."""
    for b in ex.walk(root):
        node = b.node
        if node['op'] == 'leaf' and node['kind'] == 'pwnorm':
            if env.info(node['dom']).cplx:
                return 'PointwiseNorm:complex'
            if node['args'].get('exponent') == float('inf'):
                return 'PointwiseNorm:inf'
    return None


def _flag_culprit(env, root, x):
    tr = Tracer(env)
    try:
        tr.ev(root, x)
    except Exception:  # noqa
        return root
    best = root
    for b in ex.walk(root):
        if id(b) not in tr.inputs:
            continue
        try:
            D = b.obj.derivative(env.element(b.node['dom'], tr.inputs[id(b)]))
            if not D.is_linear:
                best = b
        except Exception:  # noqa
            pass
    return best


def _range_culprit(env, root, x):
    tr = Tracer(env)
    try:
        tr.ev(root, x)
    except Exception:  # noqa
        return root
    best = root
    for b in ex.walk(root):
        if id(b) not in tr.inputs:
            continue
        try:
            D = b.obj.derivative(env.element(b.node['dom'], tr.inputs[id(b)]))
            if D.range != b.obj.range:
                best = b
        except Exception:  # noqa
            pass
    return best


def _linear_culprit(env, root):
    """Deepest node flagged linear that is not linear by construction."""
    best = root
    for b in ex.walk(root):
        if b.obj.is_linear and not ex.true_linear(b.node):
            best = b
    return best


REQUIRED_STRATA = (
    ['leaf:{}_op:{}'.format(n, n) for n in UFUNCS_DERIV] +
    ['leaf:PowerOperator:p=int', 'leaf:PowerOperator:p=frac',
     'leaf:PointwiseNorm:p=1.0', 'leaf:PointwiseNorm:p=1.5',
     'leaf:PointwiseNorm:p=None', 'leaf:PointwiseNorm:p=3.0',
     'leaf:PointwiseInner', 'leaf:ComplexModulus',
     'leaf:ComplexModulusSquared', 'leaf:NormOperator', 'leaf:DistOperator',
     'leaf:RealPart', 'leaf:ImagPart', 'leaf:ComplexEmbedding',
     'leaf:Laplacian', 'leaf:PartialDerivative', 'leaf:Gradient',
     'leaf:Divergence', 'leaf:ResizingOperator', 'affine:pad_const',
     'affine-matrix-checked', 'class:ProductSpaceOperator',
     'class:BroadcastOperator', 'class:ReductionOperator',
     'class:DiagonalOperator', 'class:OperatorPointwiseProduct',
     'class:OperatorComp', 'class:OperatorSum', 'class:OperatorVectorSum',
     'class:OperatorLeftScalarMult', 'class:OperatorRightScalarMult',
     'class:OperatorLeftVectorMult', 'class:OperatorRightVectorMult',
     'class:FunctionalLeftVectorMult', 'ctor:sum:ctor_tmp',
     'field:cplx', 'dtype:float32', 'space:discr', 'weighting:array',
     'not-offered:PointwiseNorm:inf', 'ufunc-enum:not-offered',
     'linear-flagged', 'deriv-linearity-checked'])
